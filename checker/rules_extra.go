package main

import (
	"fmt"
	"go/token"
	"math"
	"sort"
	"strconv"
	"strings"

	"golang.org/x/tools/go/ssa"
)

// ---- C07: dependencies first ----

// c07DependenciesFirst: a per-packet emitter that emits the packets an object field refers to before the packet itself (it calls itself
// with ObjectFieldAttribute.RefPacket: the target language needs definitions before use) must do the same for the packets a match field
// can dispatch to - they are referred to by the packet's own text (factory registrations, variant members) in exactly the same way.
func c07DependenciesFirst(w *World, wc *wireCtx, r *Report) {
	const rule = "C07/dependencies-first"
	n := 0
	for _, ga := range anchorTable {
		for _, fn := range wc.anchors[ga.Lang]["own"] {
			if roleOf(fn) == "test" {
				continue
			}
			viaObject, viaMatch := false, false
			forEachInstr(fn, func(b *ssa.BasicBlock, ins ssa.Instruction) {
				c, ok := ins.(*ssa.Call)
				if !ok || c.Call.StaticCallee() != fn {
					return
				}
				for _, a := range c.Call.Args {
					a = stripIdentity(a)
					if !typeIs(a.Type(), modPath+"/internal/model", "Packet") {
						continue
					}
					if ld, ok := a.(*ssa.UnOp); ok && ld.Op == token.MUL {
						if fa, ok := ld.X.(*ssa.FieldAddr); ok {
							if tn, f, _, _ := fieldOf(fa); tn == "ObjectFieldAttribute" && f == "RefPacket" && !w.underIsIner(c.Block(), fa.X) {
								viaObject = true // recursion for declared packets too (not just the descent into an inline object)
							}
						}
					}
					if lk, ok := a.(*ssa.Lookup); ok && mapDesc(lk.X) == ".PacketsMap" && pairFieldOf(lk.Index) == "Value" {
						viaMatch = true
					}
					if ex, ok := a.(*ssa.Extract); ok {
						if lk, ok := ex.Tuple.(*ssa.Lookup); ok && mapDesc(lk.X) == ".PacketsMap" && pairFieldOf(lk.Index) == "Value" {
							viaMatch = true
						}
					}
				}
			})
			if !viaObject || !hasVisitedSet(fn, nil) {
				continue // only emitters that write each packet once, ahead of its first user (visited set): an ordering device
			}
			n++
			key := fmt.Sprintf("%s: %s emits match targets before the packet, like object targets", ga.Lang, fnKey(fn))
			if viaMatch {
				r.pass(rule, key, w.pos(fn.Pos()), "")
			} else {
				r.fail(rule, key, w.pos(fn.Pos()), "the emitter puts the packets of object fields in front of the packet that uses them, but not the packets a match field dispatches to: the packet's text refers to them (registration / variant) before they are defined")
			}
		}
	}
	r.note("dependency-first emitters found: %d", n)
}

// ---- escaping templates ----

// wireTemplateTaint: RenderToString goes through html/template, which escapes quotes and angle brackets. Values that can contain such
// characters - match keys (STRING tokens keep their quotes), pad characters ('x'), checksum names - must not be interpolated through it.
func wireTemplateTaint(w *World, wc *wireCtx, r *Report, prop string, langs []string) {
	rule := prop + "/template-data-is-escape-free"
	for _, l := range langs {
		for _, fn := range wc.anchors[l]["own"] {
			cnt := 0
			forEachInstr(fn, func(b *ssa.BasicBlock, ins ssa.Instruction) {
				c, ok := ins.(*ssa.Call)
				if !ok || c.Call.StaticCallee() == nil {
					return
				}
				f := c.Call.StaticCallee()
				isRender := false
				if f.Pkg == w.Parser && f.Blocks != nil {
					// a repo function that executes an html/template on its argument
					forEachInstr(f, func(_ *ssa.BasicBlock, i2 ssa.Instruction) {
						if c2, ok := i2.(ssa.CallInstruction); ok && c2.Common().StaticCallee() != nil {
							if strings.HasPrefix(c2.Common().StaticCallee().String(), "(*html/template.Template).Execute") {
								isRender = true
							}
						}
					})
				}
				if strings.HasPrefix(f.String(), "(*html/template.Template).Execute") {
					isRender = true
				}
				if !isRender || len(c.Call.Args) == 0 {
					return
				}
				cnt++
				data := c.Call.Args[len(c.Call.Args)-1]
				cx := wc.m.ctx(fn, nil)
				cx.bindParams = true
				d := cx.deps(data)
				key := fmt.Sprintf("%s template call #%d interpolates identifiers and numbers only", fnKey(fn), cnt)
				if bad := d & (sPK | sPC | sCS); bad != 0 {
					r.fail(rule, key, w.instrPos(ins), fmt.Sprintf("the data handed to the html/template renderer depends on %s: quotes in it are emitted as &#34; / &#39; and the generated code no longer parses", bad))
				} else {
					r.pass(rule, key, w.instrPos(ins), "")
				}
			})
		}
	}
}

// ---- C17: per-field independence of the sample-instance emitters ----

// c17StickyState: inside the loop over a packet's fields, a string variable that is re-assigned (not appended to) in one iteration and
// read in a later one makes the text emitted for a field depend on the kinds of the fields before it. Accumulators (x = x + piece) are fine.
func c17StickyState(w *World, wc *wireCtx, r *Report) {
	const rule = "C17/no-state-across-fields"
	n := 0
	for _, ga := range anchorTable {
		for _, fn := range wc.anchors[ga.Lang]["test"] {
			for _, loop := range fieldLoops(fn) {
				for _, ins := range loop.header.Instrs {
					phi, ok := ins.(*ssa.Phi)
					if !ok {
						break
					}
					if !isStringType(phi.Type()) {
						continue
					}
					n++
					sticky := false
					seen := map[ssa.Value]bool{}
					var accum func(v ssa.Value, d int) bool
					accum = func(v ssa.Value, d int) bool {
						if v == ssa.Value(phi) {
							return true
						}
						if d > 20 || seen[v] {
							return true
						}
						seen[v] = true
						switch x := v.(type) {
						case *ssa.Phi:
							for _, e := range x.Edges {
								if !accum(e, d+1) {
									return false
								}
							}
							return true
						case *ssa.BinOp:
							if x.Op == token.ADD {
								return accum(x.X, d+1)
							}
						}
						return false
					}
					for i, e := range phi.Edges {
						if !loop.blocks[loop.header.Preds[i]] {
							continue // initial value
						}
						if !accum(e, 0) {
							sticky = true
						}
					}
					name := phi.Comment
					if name == "" {
						name = phi.Name()
					}
					key := fmt.Sprintf("%s: variable %s carried across fields is only appended to", fnKey(fn), name)
					if sticky {
						r.fail(rule, key, w.instrPos(phi), "a string variable is re-assigned while one field is handled and keeps that value for the following fields: what is emitted for a field depends on the kinds of the fields declared before it")
					} else {
						r.pass(rule, key, w.instrPos(phi), "")
					}
				}
			}
		}
	}
	r.note("loop-carried string variables in sample-instance emitters: %d", n)
}

type fieldLoop struct {
	header *ssa.BasicBlock
	blocks map[*ssa.BasicBlock]bool
}

// fieldLoops: loops ranging over Packet.Fields.
func fieldLoops(fn *ssa.Function) []fieldLoop {
	var out []fieldLoop
	forEachInstr(fn, func(b *ssa.BasicBlock, ins ssa.Instruction) {
		ia, ok := ins.(*ssa.IndexAddr)
		if !ok {
			return
		}
		ld, ok := stripIdentity(ia.X).(*ssa.UnOp)
		if !ok {
			return
		}
		fa, ok := ld.X.(*ssa.FieldAddr)
		if !ok {
			return
		}
		if tn, f, _, _ := fieldOf(fa); tn != "Packet" || f != "Fields" {
			return
		}
		var hdr *ssa.BasicBlock
		switch ix := ia.Index.(type) {
		case *ssa.BinOp:
			if phi, ok := ix.X.(*ssa.Phi); ok {
				hdr = phi.Block()
			}
		case *ssa.Phi:
			hdr = ix.Block()
		}
		if hdr == nil {
			return
		}
		for _, l := range out {
			if l.header == hdr {
				return
			}
		}
		out = append(out, fieldLoop{hdr, naturalLoop(hdr)})
	})
	return out
}

// ---- C17: float samples survive their wire width ----

// c17FloatSamples: the sample value of a 4-byte float member must be exactly representable in 4 bytes, otherwise the emitted
// round-trip test compares a double with its float32 rounding and fails although the codec is right.
func c17FloatSamples(w *World, r *Report) {
	const rule = "C17/float-samples-exact"
	for _, t := range readTables(w) {
		var keys []string
		for k := range t.keys {
			keys = append(keys, k)
		}
		sort.Strings(keys)
		for _, k := range keys {
			row := t.keys[k]
			tv, ok := row["TestValue"]
			if !ok || (k != "f32" && k != "float32") {
				continue
			}
			lit := strings.TrimSpace(tv)
			lit = strings.TrimRight(lit, "fFdD")
			lit = strings.TrimPrefix(lit, "(float)")
			lit = strings.TrimPrefix(lit, "float32(")
			lit = strings.TrimSuffix(lit, ")")
			key := fmt.Sprintf("%s: sample of %s is exact in 4 bytes", t.name, k)
			v, err := strconv.ParseFloat(strings.TrimSpace(lit), 64)
			switch {
			case err != nil:
				r.pass(rule, key, "internal/parser", "not a plain literal ("+tv+"): not judged")
			case float64(float32(v)) == v && !math.IsInf(v, 0):
				r.pass(rule, key, "internal/parser", tv)
			default:
				r.fail(rule, key, "internal/parser", fmt.Sprintf("the sample %s is not representable as a 4-byte float: after encode/decode the member holds %v, and the emitted equality assertion fails for a correct codec", tv, float64(float32(v))))
			}
		}
	}
}
