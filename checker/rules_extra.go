package main

import (
	"fmt"
	"go/constant"
	"go/token"
	"go/types"
	"math"
	"regexp"
	"sort"
	"strconv"
	"strings"

	"golang.org/x/tools/go/ssa"
)

// ---- C07: dependencies first ----

// c07DependenciesFirst: a per-packet emitter that emits the packets an object field refers to before the packet itself (it calls itself
// with ObjectFieldAttribute.RefPacket: the target language needs definitions before use) must do the same for the packets a match field
// can dispatch to - they are referred to by the packet's own text (factory registrations, variant members) in exactly the same way.
func c07DependenciesFirst(w *World, wc *wireCtx, r *Report) {
	const rule = "C07/dependencies-first"
	n := 0
	for _, ga := range anchorTable {
		for _, fn := range wc.anchors[ga.Lang]["own"] {
			if roleOf(fn) == "test" {
				continue
			}
			viaObject, viaMatch := false, false
			forEachInstr(fn, func(b *ssa.BasicBlock, ins ssa.Instruction) {
				c, ok := ins.(*ssa.Call)
				if !ok || c.Call.StaticCallee() != fn {
					return
				}
				for _, a := range c.Call.Args {
					a = stripIdentity(a)
					if !typeIs(a.Type(), modPath+"/internal/model", "Packet") {
						continue
					}
					if ld, ok := a.(*ssa.UnOp); ok && ld.Op == token.MUL {
						if fa, ok := ld.X.(*ssa.FieldAddr); ok {
							if tn, f, _, _ := fieldOf(fa); tn == "ObjectFieldAttribute" && f == "RefPacket" && !w.underIsIner(c.Block(), fa.X) {
								viaObject = true // recursion for declared packets too (not just the descent into an inline object)
							}
						}
					}
					if lk, ok := a.(*ssa.Lookup); ok && mapDesc(lk.X) == ".PacketsMap" && pairFieldOf(lk.Index) == "Value" {
						viaMatch = true
					}
					if ex, ok := a.(*ssa.Extract); ok {
						if lk, ok := ex.Tuple.(*ssa.Lookup); ok && mapDesc(lk.X) == ".PacketsMap" && pairFieldOf(lk.Index) == "Value" {
							viaMatch = true
						}
					}
				}
			})
			if !hasVisitedSet(fn, nil) {
				continue // only emitters that write each packet once, ahead of its first user (visited set): an ordering device
			}
			if !viaObject {
				// the converse, for the one target in which a member of class type needs the complete type in front of it: the C++
				// header. (In Python a member's class is looked up when the method runs; only registrations run at import time.)
				if viaMatch && ga.Lang == "cpp" {
					n++
					r.fail(rule, fmt.Sprintf("%s: %s emits the packets of object fields before the packet, like match targets", ga.Lang, fnKey(fn)), w.pos(fn.Pos()), "the emitter puts the packets a match field dispatches to in front of the packet that uses them, but follows object fields only into inline objects: a by-name object member (`Leg firstLeg;`) whose packet is declared later in the DSL is emitted before `struct Leg` - the header does not build")
				}
				continue
			}
			n++
			key := fmt.Sprintf("%s: %s emits match targets before the packet, like object targets", ga.Lang, fnKey(fn))
			if viaMatch {
				r.pass(rule, key, w.pos(fn.Pos()), "")
			} else {
				r.fail(rule, key, w.pos(fn.Pos()), "the emitter puts the packets of object fields in front of the packet that uses them, but not the packets a match field dispatches to: the packet's text refers to them (registration / variant) before they are defined")
			}
		}
	}
	r.note("dependency-first emitters found: %d", n)
}

// ---- escaping templates ----

// wireTemplateTaint: RenderToString goes through html/template, which escapes quotes and angle brackets. Values that can contain such
// characters - match keys (STRING tokens keep their quotes), pad characters ('x'), checksum names - must not be interpolated through it.
func wireTemplateTaint(w *World, wc *wireCtx, r *Report, prop string, langs []string) {
	rule := prop + "/template-data-is-escape-free"
	for _, l := range langs {
		for _, fn := range wc.anchors[l]["own"] {
			cnt := 0
			forEachInstr(fn, func(b *ssa.BasicBlock, ins ssa.Instruction) {
				c, ok := ins.(*ssa.Call)
				if !ok || c.Call.StaticCallee() == nil {
					return
				}
				f := c.Call.StaticCallee()
				isRender := false
				if f.Pkg == w.Parser && f.Blocks != nil {
					// a repo function that executes an html/template on its argument
					forEachInstr(f, func(_ *ssa.BasicBlock, i2 ssa.Instruction) {
						if c2, ok := i2.(ssa.CallInstruction); ok && c2.Common().StaticCallee() != nil {
							if strings.HasPrefix(c2.Common().StaticCallee().String(), "(*html/template.Template).Execute") {
								isRender = true
							}
						}
					})
				}
				if strings.HasPrefix(f.String(), "(*html/template.Template).Execute") {
					isRender = true
				}
				if !isRender || len(c.Call.Args) == 0 {
					return
				}
				cnt++
				data := c.Call.Args[len(c.Call.Args)-1]
				cx := wc.m.ctx(fn, nil)
				cx.bindParams = true
				d := cx.deps(data)
				key := fmt.Sprintf("%s template call #%d interpolates identifiers and numbers only", fnKey(fn), cnt)
				if bad := d & (sPK | sPC | sCS); bad != 0 {
					r.fail(rule, key, w.instrPos(ins), fmt.Sprintf("the data handed to the html/template renderer depends on %s: quotes in it are emitted as &#34; / &#39; and the generated code no longer parses", bad))
				} else {
					r.pass(rule, key, w.instrPos(ins), "")
				}
			})
		}
	}
}

// ---- C17: per-field independence of the sample-instance emitters ----

// c17StickyState: inside the loop over a packet's fields, a string variable that is re-assigned (not appended to) in one iteration and
// read in a later one makes the text emitted for a field depend on the kinds of the fields before it. Accumulators (x = x + piece) are fine.
func c17StickyState(w *World, wc *wireCtx, r *Report) {
	const rule = "C17/no-state-across-fields"
	n := 0
	for _, ga := range anchorTable {
		for _, fn := range wc.anchors[ga.Lang]["test"] {
			for _, loop := range fieldLoops(fn) {
				for _, ins := range loop.header.Instrs {
					phi, ok := ins.(*ssa.Phi)
					if !ok {
						break
					}
					if !isStringType(phi.Type()) {
						continue
					}
					n++
					sticky := false
					seen := map[ssa.Value]bool{}
					var accum func(v ssa.Value, d int) bool
					accum = func(v ssa.Value, d int) bool {
						if v == ssa.Value(phi) {
							return true
						}
						if d > 20 || seen[v] {
							return true
						}
						seen[v] = true
						switch x := v.(type) {
						case *ssa.Phi:
							for _, e := range x.Edges {
								if !accum(e, d+1) {
									return false
								}
							}
							return true
						case *ssa.BinOp:
							if x.Op == token.ADD {
								return accum(x.X, d+1)
							}
						}
						return false
					}
					for i, e := range phi.Edges {
						if !loop.blocks[loop.header.Preds[i]] {
							continue // initial value
						}
						if !accum(e, 0) {
							sticky = true
						}
					}
					name := phi.Comment
					if name == "" {
						name = phi.Name()
					}
					key := fmt.Sprintf("%s: variable %s carried across fields is only appended to", fnKey(fn), name)
					if sticky {
						r.fail(rule, key, w.instrPos(phi), "a string variable is re-assigned while one field is handled and keeps that value for the following fields: what is emitted for a field depends on the kinds of the fields declared before it")
					} else {
						r.pass(rule, key, w.instrPos(phi), "")
					}
				}
			}
		}
	}
	r.note("loop-carried string variables in sample-instance emitters: %d", n)
}

type fieldLoop struct {
	header *ssa.BasicBlock
	blocks map[*ssa.BasicBlock]bool
}

// fieldLoops: loops ranging over Packet.Fields.
func fieldLoops(fn *ssa.Function) []fieldLoop {
	var out []fieldLoop
	forEachInstr(fn, func(b *ssa.BasicBlock, ins ssa.Instruction) {
		ia, ok := ins.(*ssa.IndexAddr)
		if !ok {
			return
		}
		ld, ok := stripIdentity(ia.X).(*ssa.UnOp)
		if !ok {
			return
		}
		fa, ok := ld.X.(*ssa.FieldAddr)
		if !ok {
			return
		}
		if tn, f, _, _ := fieldOf(fa); tn != "Packet" || f != "Fields" {
			return
		}
		var hdr *ssa.BasicBlock
		switch ix := ia.Index.(type) {
		case *ssa.BinOp:
			if phi, ok := ix.X.(*ssa.Phi); ok {
				hdr = phi.Block()
			}
		case *ssa.Phi:
			hdr = ix.Block()
		}
		if hdr == nil {
			return
		}
		for _, l := range out {
			if l.header == hdr {
				return
			}
		}
		out = append(out, fieldLoop{hdr, naturalLoop(hdr)})
	})
	return out
}

// ---- C17: float samples survive their wire width ----

// c17FloatSamples: the sample value of a 4-byte float member must be exactly representable in 4 bytes, otherwise the emitted
// round-trip test compares a double with its float32 rounding and fails although the codec is right.
func c17FloatSamples(w *World, r *Report) {
	const rule = "C17/float-samples-exact"
	for _, t := range readTables(w) {
		var keys []string
		for k := range t.keys {
			keys = append(keys, k)
		}
		sort.Strings(keys)
		for _, k := range keys {
			row := t.keys[k]
			tv, ok := row["TestValue"]
			if !ok || (k != "f32" && k != "float32") {
				continue
			}
			lit := strings.TrimSpace(tv)
			lit = strings.TrimRight(lit, "fFdD")
			lit = strings.TrimPrefix(lit, "(float)")
			lit = strings.TrimPrefix(lit, "float32(")
			lit = strings.TrimSuffix(lit, ")")
			key := fmt.Sprintf("%s: sample of %s is exact in 4 bytes", t.name, k)
			v, err := strconv.ParseFloat(strings.TrimSpace(lit), 64)
			switch {
			case err != nil:
				r.pass(rule, key, "internal/parser", "not a plain literal ("+tv+"): not judged")
			case float64(float32(v)) == v && !math.IsInf(v, 0):
				r.pass(rule, key, "internal/parser", tv)
			default:
				r.fail(rule, key, "internal/parser", fmt.Sprintf("the sample %s is not representable as a 4-byte float: after encode/decode the member holds %v, and the emitted equality assertion fails for a correct codec", tv, float64(float32(v))))
			}
		}
	}
}

// ---- option semantics: which option sets which configuration field, and the defaults ----

// the documented contract (README "options"): option name -> configuration field it sets, and the default when the option is absent
var optionField = map[string]string{
	"ArrayPrefixLenType": "ListLenPrefixLenType", "StringPrefixLenType": "StringLenPrefixLenType", "LittleEndian": "LittleEndian",
	"JavaPackage": "JavaPackage", "GoPackage": "GoPackage", "GoModule": "GoModule",
	"FixedStringPadFromLeft": "Padding.PadLeft", "FixedStringPadChar": "Padding.PadChar",
}
var optionDefault = map[string]string{
	"ListLenPrefixLenType": `"u16"`, "StringLenPrefixLenType": `"u16"`, "LittleEndian": "false",
	"JavaPackage": `""`, "GoPackage": `""`, "GoModule": `""`, "Padding.PadLeft": "false", "Padding.PadChar": `"' '"`,
}

// optionSemantics: in NewConfiguration (and the model helpers it calls) every store into a configuration field is fed by exactly the
// option the documentation names for it, read on the present edge of its lookup, and the constants that can reach the field are its
// documented default (plus, for booleans, nothing else).
func optionSemantics(w *World, r *Report, prop string) {
	rule := prop + "/option-semantics"
	nc := w.Model.Func("NewConfiguration")
	if nc == nil || len(nc.Params) == 0 {
		r.fail(rule, "NewConfiguration found", "internal/model/model.go", "model.NewConfiguration(options) not found")
		return
	}
	type facts struct {
		keys   map[string]bool
		consts map[string]bool
		unsafe []string // reads of an option value outside the present edge of its lookup
	}
	fields := map[string]*facts{}
	get := func(f string) *facts {
		if fields[f] == nil {
			fields[f] = &facts{keys: map[string]bool{}, consts: map[string]bool{}}
		}
		return fields[f]
	}
	isOptions := func(v ssa.Value, bs bindings) bool {
		v = stripIdentity(v)
		for i := 0; i < 6; i++ {
			p, ok := v.(*ssa.Parameter)
			if !ok {
				return false
			}
			if p == nc.Params[0] {
				return true
			}
			a, bound := bs[p]
			if !bound {
				return false
			}
			v = stripIdentity(a)
		}
		return false
	}
	// env: while the body of a loop over a table of (option, setter) rows is evaluated, the row each table is at
	var env rowEnv
	var flow func(v ssa.Value, bs bindings, fa *facts, depth int, seen map[ssa.Value]bool)
	flow = func(v ssa.Value, bs bindings, fa *facts, depth int, seen map[ssa.Value]bool) {
		if depth > 14 || v == nil {
			return
		}
		v = w.resolveRow(v, env)
		if seen[v] {
			return
		}
		seen[v] = true
		switch x := v.(type) {
		case *ssa.Const:
			if x.Value == nil {
				fa.consts["nil"] = true
			} else {
				fa.consts[x.Value.ExactString()] = true
			}
		case *ssa.Parameter:
			if a, ok := bs[x]; ok {
				flow(a, bs, fa, depth+1, seen)
			}
		case *ssa.Phi:
			for _, e := range x.Edges {
				flow(e, bs, fa, depth+1, seen)
			}
		case *ssa.Extract:
			if lk, ok := x.Tuple.(*ssa.Lookup); ok && isOptions(lk.X, bs) {
				if x.Index != 0 {
					return
				}
				idx := lk.Index
				idx = resolveParamChain(idx, bs)
				idx = w.resolveRow(idx, env)
				if k, ok := constString(idx); ok {
					fa.keys[k] = true
					// every use of the value sits behind the "present" edge
					for _, t := range membershipTests(lk.Parent()) {
						if t.lookup != lk {
							continue
						}
						for _, ref := range *x.Referrers() {
							if _, isDbg := ref.(*ssa.DebugRef); isDbg {
								continue
							}
							blk := ref.Block()
							if phi, isPhi := ref.(*ssa.Phi); isPhi {
								for i, e := range phi.Edges {
									if e == ssa.Value(x) {
										blk = phi.Block().Preds[i]
									}
								}
							}
							if !edgeDominates(t.branch, t.presentSucc, blk) {
								fa.unsafe = append(fa.unsafe, k+" at "+w.instrPos(ref))
							}
						}
					}
				} else {
					fa.keys["<computed>"] = true
				}
				return
			}
			flow(x.Tuple, bs, fa, depth+1, seen)
		case *ssa.Lookup:
			if isOptions(x.X, bs) {
				idx := x.Index
				idx = resolveParamChain(idx, bs)
				idx = w.resolveRow(idx, env)
				if k, ok := constString(idx); ok {
					fa.keys[k] = true
				} else {
					fa.keys["<computed>"] = true
				}
				// a plain lookup yields the zero value for an option that was not written: that is a constant reaching the field
				if !x.CommaOk && isStringType(x.Type()) {
					fa.consts[`""`] = true
				}
				return
			}
		case *ssa.BinOp:
			// a comparison with a literal ("true") yields a computed boolean: the literal is not a default
			if x.Op == token.EQL || x.Op == token.NEQ {
				subX := &facts{keys: fa.keys, consts: map[string]bool{}}
				subY := &facts{keys: fa.keys, consts: map[string]bool{}}
				flow(x.X, bs, subX, depth+1, seen)
				flow(x.Y, bs, subY, depth+1, seen)
				fa.unsafe = append(fa.unsafe, subX.unsafe...)
				fa.unsafe = append(fa.unsafe, subY.unsafe...)
				// a constant that can stand for the option's value (the empty string of a plain lookup of a missing option, the default a
				// helper returns) compared with the literal: the outcome of that comparison is a constant that reaches the field
				lit, side := x.Y, subX
				if _, isC := stripIdentity(x.Y).(*ssa.Const); !isC {
					lit, side = x.X, subY
				}
				if ls, ok := constString(lit); ok {
					for c := range side.consts {
						cs, err := strconv.Unquote(c)
						if err != nil {
							continue
						}
						eq := strings.EqualFold(cs, ls) // the value may pass through ToLower/ToUpper on its way
						if x.Op == token.NEQ {
							eq = !eq
						}
						fa.consts[strconv.FormatBool(eq)] = true
					}
				}
				return
			}
			flow(x.X, bs, fa, depth+1, seen)
			flow(x.Y, bs, fa, depth+1, seen)
		case *ssa.UnOp:
			flow(x.X, bs, fa, depth+1, seen)
		case *ssa.Convert:
			flow(x.X, bs, fa, depth+1, seen)
		case *ssa.ChangeType:
			flow(x.X, bs, fa, depth+1, seen)
		case *ssa.Call:
			if h := x.Call.StaticCallee(); h != nil && pkgOfFunc(h) == w.Model && h.Blocks != nil {
				nb := bindings{}
				for k, val := range bs {
					nb[k] = val
				}
				for i, p := range h.Params {
					if i < len(x.Call.Args) {
						nb[p] = x.Call.Args[i]
					}
				}
				for _, b := range h.Blocks {
					if ret, ok := b.Instrs[len(b.Instrs)-1].(*ssa.Return); ok {
						for _, rv := range ret.Results {
							flow(rv, nb, fa, depth+1, map[ssa.Value]bool{})
						}
					}
				}
				return
			}
			// a helper kept as a function value (`isTrue := func(val string) bool {...}`, called directly or from the closures that
			// capture the variable): when every function the value can be is known, what they return
			if x.Call.StaticCallee() == nil && !x.Call.IsInvoke() {
				if _, isBuiltin := x.Call.Value.(*ssa.Builtin); !isBuiltin {
					targets, complete := w.fnValueTargets(x.Call.Value, bs)
					followed := complete && len(targets) > 0
					for _, h := range targets {
						if pkgOfFunc(h) != w.Model || h.Blocks == nil {
							followed = false
						}
					}
					if followed {
						for _, h := range targets {
							nb := bindings{}
							for k, val := range bs {
								nb[k] = val
							}
							for i, p := range h.Params {
								if i < len(x.Call.Args) {
									nb[p] = x.Call.Args[i]
								}
							}
							for _, b := range h.Blocks {
								if ret, ok := b.Instrs[len(b.Instrs)-1].(*ssa.Return); ok {
									for _, rv := range ret.Results {
										flow(rv, nb, fa, depth+1, map[ssa.Value]bool{})
									}
								}
							}
						}
						return
					}
				}
			}
			for _, a := range x.Call.Args {
				flow(a, bs, fa, depth+1, seen)
			}
		}
	}
	// memberName: how the facts name member i of a Configuration / Padding record ("" for any other record, and for members that
	// are not option values)
	memberName := func(t types.Type, i int) (string, types.Type) {
		if pt, isPtr := t.Underlying().(*types.Pointer); isPtr {
			t = pt.Elem()
		}
		tn := modelTypeName(t)
		st, isSt := t.Underlying().(*types.Struct)
		if !isSt || i >= st.NumFields() || (tn != "Configuration" && tn != "Padding") {
			return "", nil
		}
		name := st.Field(i).Name()
		if tn == "Padding" {
			name = "Padding." + name
		}
		if name == "Padding" {
			return "", nil
		}
		return name, st.Field(i).Type()
	}
	zeroOf := func(fa *facts, t types.Type) {
		switch {
		case isStringType(t):
			fa.consts[`""`] = true
		case types.Identical(t.Underlying(), types.Typ[types.Bool]):
			fa.consts["false"] = true
		}
	}
	// wholeRecordStore: a Configuration / Padding that is assigned as a whole. A copy of a package-level record of defaults (assigned
	// once by the initialiser, never written again) gives each member what that record's literal gives it; the zero record gives the
	// zero values; a copy of a local literal adds nothing (its member stores are seen where they are made); anything else is a value
	// the rule cannot name.
	wholeRecordStore := func(st *ssa.Store, bs bindings) {
		pt, isPtr := st.Addr.Type().Underlying().(*types.Pointer)
		if !isPtr {
			return
		}
		rec, isSt := pt.Elem().Underlying().(*types.Struct)
		if tn := modelTypeName(pt.Elem()); !isSt || (tn != "Configuration" && tn != "Padding") {
			return
		}
		var members map[int]ssa.Value
		known := false
		// a record handed to a helper by value (the receiver of `padding.IsDefault()` kept in a local of the helper): the copy is the
		// record of the caller that is being followed
		val := stripIdentity(resolveParamChain(st.Val, bs))
		switch v := val.(type) {
		case *ssa.Const:
			members, known = map[int]ssa.Value{}, true
		case *ssa.UnOp:
			if v.Op != token.MUL {
				break
			}
			switch src := v.X.(type) {
			case *ssa.Global:
				members, known = w.globalRecordInit(src)
			case *ssa.Alloc:
				return
			}
		}
		for i := 0; i < rec.NumFields(); i++ {
			name, ft := memberName(pt.Elem(), i)
			if name == "" {
				continue
			}
			switch {
			case !known:
				get(name).consts["<a record copied from elsewhere>"] = true
			case members[i] == nil:
				zeroOf(get(name), ft)
			default:
				flow(members[i], bs, get(name), 0, map[ssa.Value]bool{})
			}
		}
	}
	type storeSite struct {
		fn  *ssa.Function
		blk *ssa.BasicBlock
		bs  bindings
		env rowEnv
	}
	storeSites := map[string][]storeSite{}
	// stores into Configuration / Padding fields in NewConfiguration and the model helpers it calls
	type job struct {
		fn *ssa.Function
		bs bindings
	}
	// one evaluation per row of a table the function walks (none: one evaluation)
	envs := []rowEnv{nil}
	for _, g := range w.tablesWalkedBy(nc) {
		for i := range w.tableRows(g) {
			envs = append(envs, rowEnv{g: i})
		}
	}
	if len(envs) > 1 {
		envs = envs[1:]
	}
	visited := []*ssa.Function{}
	isVisited := map[*ssa.Function]bool{}
	for _, env = range envs {
		seenFn := map[*ssa.Function]bool{nc: true}
		work := []job{{nc, bindings{}}}
		for i := 0; i < len(work) && i < 16; i++ {
			j := work[i]
			if !isVisited[j.fn] {
				isVisited[j.fn] = true
				visited = append(visited, j.fn)
			}
			forEachInstr(j.fn, func(b *ssa.BasicBlock, ins ssa.Instruction) {
				switch x := ins.(type) {
				case *ssa.Store:
					fa, ok := x.Addr.(*ssa.FieldAddr)
					if !ok {
						// the record written as a whole: `padding := defaultPadding`
						wholeRecordStore(x, j.bs)
						return
					}
					tn, f, _, _ := fieldOf(fa)
					name := ""
					switch tn {
					case "Configuration":
						name = f
					case "Padding":
						name = "Padding." + f
					}
					if name == "" || name == "Padding" {
						return
					}
					flow(x.Val, j.bs, get(name), 0, map[ssa.Value]bool{})
					storeSites[name] = append(storeSites[name], storeSite{j.fn, b, j.bs, env})
				case ssa.CallInstruction:
					h := x.Common().StaticCallee()
					if h == nil && !x.Common().IsInvoke() {
						// the setter of the current table row
						switch f := w.resolveRow(x.Common().Value, env).(type) {
						case *ssa.Function:
							h = f
						case *ssa.MakeClosure:
							h, _ = f.Fn.(*ssa.Function)
						}
					}
					if h != nil && pkgOfFunc(h) == w.Model && h.Blocks != nil && !seenFn[h] {
						seenFn[h] = true
						nb := bindings{}
						for k, val := range j.bs {
							nb[k] = val
						}
						for i2, p := range h.Params {
							if i2 < len(x.Common().Args) {
								nb[p] = x.Common().Args[i2]
							}
						}
						work = append(work, job{h, nb})
					}
				}
			})
		}
	}
	env = nil
	// a member the literal does not mention starts as the zero value of its type: that is the constant that reaches it by default
	// (the literal may be in a helper that builds the defaults: every function the walk above has entered is looked at)
	zeroScan := func(b *ssa.BasicBlock, ins ssa.Instruction) {
		al, ok := ins.(*ssa.Alloc)
		if !ok || al.Referrers() == nil {
			return
		}
		tn := modelTypeName(al.Type())
		if tn != "Configuration" && tn != "Padding" {
			return
		}
		st, ok := al.Type().(*types.Pointer).Elem().Underlying().(*types.Struct)
		if !ok {
			return
		}
		set := map[int]bool{}
		for _, ref := range *al.Referrers() {
			// a record that is assigned as a whole starts as what it is assigned (wholeRecordStore)
			if s0, isSt := ref.(*ssa.Store); isSt && s0.Addr == ssa.Value(al) && s0.Block() == b {
				return
			}
		}
		for _, ref := range *al.Referrers() {
			fa, ok := ref.(*ssa.FieldAddr)
			if !ok || fa.Referrers() == nil {
				continue
			}
			for _, r2 := range *fa.Referrers() {
				if s2, ok := r2.(*ssa.Store); ok && s2.Addr == ssa.Value(fa) && s2.Block() == b {
					set[fa.Field] = true
				}
			}
		}
		for i := 0; i < st.NumFields(); i++ {
			if set[i] {
				continue
			}
			name := st.Field(i).Name()
			if tn == "Padding" {
				name = "Padding." + name
			}
			switch {
			case isStringType(st.Field(i).Type()):
				get(name).consts[`""`] = true
			case types.Identical(st.Field(i).Type().Underlying(), types.Typ[types.Bool]):
				get(name).consts["false"] = true
			}
		}
	}
	for _, vf := range visited {
		forEachInstr(vf, zeroScan)
	}
	// which configuration fields exist (a renamed field is reported as not judged rather than guessed)
	exists := map[string]bool{}
	if mp := w.ByPath[modPath+"/internal/model"]; mp != nil {
		for _, tn := range []string{"Configuration", "Padding"} {
			if obj := mp.Types.Scope().Lookup(tn); obj != nil {
				if st, ok := obj.Type().Underlying().(*types.Struct); ok {
					for i := 0; i < st.NumFields(); i++ {
						n := st.Field(i).Name()
						if tn == "Padding" {
							n = "Padding." + n
						}
						exists[n] = true
					}
				}
			}
		}
	}
	for _, opt := range sortedKeys(optionField) {
		f := optionField[opt]
		key := fmt.Sprintf("option %s sets %s and nothing else does", opt, f)
		if !exists[f] {
			r.pass(rule, key, "internal/model/model.go", "not judged: the configuration has no field of that name (renamed?)")
			continue
		}
		fa := fields[f]
		switch {
		case fa == nil || !fa.keys[opt]:
			got := "nothing"
			if fa != nil && len(fa.keys) > 0 {
				got = strings.Join(sortedBoolKeys(fa.keys), ", ")
			}
			r.fail(rule, key, "internal/model/model.go", fmt.Sprintf("the field %s is fed by %s, not by the option %s", f, got, opt))
		case len(fa.keys) != 1:
			r.fail(rule, key, "internal/model/model.go", fmt.Sprintf("the field %s is fed by the options %s", f, strings.Join(sortedBoolKeys(fa.keys), ", ")))
		case len(fa.unsafe) > 0:
			r.fail(rule, key, "internal/model/model.go", "the option value is used outside the present edge of its lookup: "+strings.Join(uniqStrings(fa.unsafe), "; "))
		default:
			// the option is honoured whether or not *another* option is written: no store that feeds the field from this option sits
			// under the "present" edge of a lookup of a different option
			other := ""
			for _, ss := range storeSites[f] {
				for _, t := range membershipTests(ss.fn) {
					if !isOptions(t.lookup.X, ss.bs) || !edgeDominates(t.branch, t.presentSucc, ss.blk) {
						continue
					}
					idx := t.lookup.Index
					idx = resolveParamChain(idx, ss.bs)
					idx = w.resolveRow(idx, ss.env)
					if k, ok := constString(idx); ok && k != opt {
						other = k
					}
				}
			}
			if other != "" {
				r.fail(rule, key, "internal/model/model.go", fmt.Sprintf("the field %s takes the option %s only on the path where the option %s is written: alone, %s is silently ignored (and spelling out the default of %s changes the generated code)", f, opt, other, opt, other))
			} else {
				r.pass(rule, key, "internal/model/model.go", "")
			}
		}
		dkey := fmt.Sprintf("%s defaults to %s", f, optionDefault[f])
		if fa == nil {
			continue
		}
		want := optionDefault[f]
		var bad []string
		for c := range fa.consts {
			if c != want {
				bad = append(bad, c)
			}
		}
		sort.Strings(bad)
		if fa.consts[want] && len(bad) == 0 {
			r.pass(rule, dkey, "internal/model/model.go", "")
		} else {
			r.fail(rule, dkey, "internal/model/model.go", fmt.Sprintf("constants that can reach %s: %v (documented default %s)", f, sortedBoolKeys(fa.consts), want))
		}
	}
}

// ---- C12: option values are validated with the right polarity ----

// isMembershipPredicate: f(slice, x) bool returns true exactly when some element of the slice equals x (the loop shape of a
// hand-written `contains`), or is the standard library's slices.Contains.
func isMembershipPredicate(f *ssa.Function) (bool, string) {
	if f == nil {
		return false, "not a static call"
	}
	if strings.HasPrefix(f.String(), "slices.Contains") {
		return true, ""
	}
	if ok, _ := membershipWrapper(f, 0); ok {
		return true, ""
	}
	if f.Blocks == nil || len(f.Params) != 2 {
		return false, "not a two-parameter predicate"
	}
	if _, _, ok := predicateList(f); !ok {
		return false, "first parameter is neither a list nor a record with one list"
	}
	trueOnEq, nTrue, other := false, 0, true
	forEachInstr(f, func(b *ssa.BasicBlock, ins ssa.Instruction) {
		switch x := ins.(type) {
		case *ssa.BinOp:
			if x.Op != token.EQL && x.Op != token.NEQ {
				return
			}
			if stripIdentity(x.X) != ssa.Value(f.Params[1]) && stripIdentity(x.Y) != ssa.Value(f.Params[1]) {
				return
			}
			for _, ref := range *x.Referrers() {
				iff, ok := ref.(*ssa.If)
				if !ok {
					continue
				}
				eq := 0
				if x.Op == token.NEQ {
					eq = 1
				}
				for _, i2 := range iff.Block().Succs[eq].Instrs {
					if ret, ok := i2.(*ssa.Return); ok && len(ret.Results) == 1 {
						if k, ok := ret.Results[0].(*ssa.Const); ok && k.Value != nil && k.Value.Kind() == constant.Bool && constant.BoolVal(k.Value) {
							trueOnEq = true
						}
					}
				}
			}
		case *ssa.Return:
			if len(x.Results) != 1 {
				other = false
				return
			}
			k, ok := x.Results[0].(*ssa.Const)
			if !ok || k.Value == nil || k.Value.Kind() != constant.Bool {
				other = false
				return
			}
			if constant.BoolVal(k.Value) {
				// "an empty list accepts anything": a return of true dominated by the len(list) == 0 edge does not count
				if returnsUnderEmptyList(f, x) {
					return
				}
				nTrue++
			}
		}
	})
	if trueOnEq && nTrue == 1 && other {
		return true, ""
	}
	return false, fmt.Sprintf("returns-true-on-equal=%v true-returns=%d constant-returns-only=%v", trueOnEq, nTrue, other)
}

// c12OptionValidation: where an option's value is checked against the table's allowed values, the diagnostic sits on the
// "not a member" edge of a genuine membership predicate applied to (allowed values of that option, the given value).
func c12OptionValidation(w *World, r *Report, prop string) {
	rule := prop + "/option-values-validated"
	n := 0
	for _, fn := range parsePhaseFuncs(w) {
		if fn.Pkg != w.Model {
			continue
		}
		forEachInstr(fn, func(b *ssa.BasicBlock, ins ssa.Instruction) {
			c, ok := ins.(*ssa.Call)
			if !ok || len(c.Call.Args) != 2 {
				return
			}
			if bt, ok := c.Type().Underlying().(*types.Basic); !ok || bt.Kind() != types.Bool {
				return
			}
			// first argument: the allowed values looked up in a package-level map[string][]string
			ex, ok := stripIdentity(c.Call.Args[0]).(*ssa.Extract)
			var lk *ssa.Lookup
			if ok {
				lk, _ = ex.Tuple.(*ssa.Lookup)
			} else {
				lk, _ = stripIdentity(c.Call.Args[0]).(*ssa.Lookup)
			}
			// ... or the list member of the row a lookup by name has found in the package-level table of options
			_, ofRow := w.listOfFoundRow(c.Call.Args[0])
			// ... or that row itself, handed to a predicate that is about the row's list (`row.accepts(value)`)
			rowArg, isRowArg := w.foundRowWithList(c.Call.Args[0], c.Call.StaticCallee())
			if isRowArg {
				ofRow = true
			}
			if !ofRow {
				if lk == nil || lk.X.Type().Underlying().String() != "map[string][]string" {
					return
				}
				if _, isGlobal := valueRoot(lk.X).(*ssa.Global); !isGlobal {
					return
				}
			}
			n++
			key := fmt.Sprintf("%s rejects exactly the values that are not in the option's list", fnKey(fn))
			okPred, why := isMembershipPredicate(c.Call.StaticCallee())
			if !okPred {
				r.fail(rule, key, w.instrPos(ins), "the allowed values are tested with something that is not a membership predicate ("+why+")")
				return
			}
			if _, isParam := stripIdentity(c.Call.Args[1]).(*ssa.Parameter); !isParam {
				r.fail(rule, key, w.instrPos(ins), "the value tested against the list is not the option value handed in")
				return
			}
			// the branch on the predicate: diagnostic on the false edge only
			good, bad := false, false
			for _, bb := range fn.Blocks {
				cond := branchCond(bb)
				if cond == nil {
					continue
				}
				neg := false
				cv := cond
				for {
					if u, ok := cv.(*ssa.UnOp); ok && u.Op == token.NOT {
						neg = !neg
						cv = u.X
						continue
					}
					break
				}
				if cv != ssa.Value(c) {
					continue
				}
				member, notMember := 0, 1
				if neg {
					member, notMember = 1, 0
				}
				for _, b3 := range w.diagnosticBlocks(fn) {
					if edgeDominates(bb, notMember, b3) {
						good = true
					}
					if edgeDominates(bb, member, b3) {
						bad = true
					}
				}
			}
			// options whose list is empty accept anything: the test is made only for a non-empty list (or the predicate itself lets an
			// empty list pass)
			emptyOK := predicateAcceptsEmptyList(c.Call.StaticCallee())
			if !emptyOK {
				for _, bb := range fn.Blocks {
					cond := branchCond(bb)
					if cond == nil {
						continue
					}
					if op, nonEmptySucc, ok := lenGtZero(cond); ok && (stripIdentity(op) == stripIdentity(c.Call.Args[0]) || w.sameFoundRowList(op, c.Call.Args[0]) || isRowArg && w.isListOfRow(op, rowArg)) && edgeDominates(bb, nonEmptySucc, b) {
						emptyOK = true
					}
				}
			}
			switch {
			case good && !bad && emptyOK:
				r.pass(rule, key, w.instrPos(ins), "")
			case good && !bad:
				r.fail(rule, key, w.instrPos(ins), "the membership test is also applied to options whose list of allowed values is empty (package names, module paths): every value of such an option is rejected")
			default:
				r.fail(rule, key, w.instrPos(ins), fmt.Sprintf("diagnostic on the not-a-member edge: %v; diagnostic on the member edge: %v - a listed value is rejected or an unlisted one accepted", good, bad))
			}
		})
	}
	// inline form: a flag that becomes true when an element of the allowed list equals the value; diagnostic on the flag's false edge
	for _, fn := range parsePhaseFuncs(w) {
		if fn.Pkg != w.Model {
			continue
		}
		forEachInstr(fn, func(b *ssa.BasicBlock, ins ssa.Instruction) {
			bo, ok := ins.(*ssa.BinOp)
			if !ok || (bo.Op != token.EQL && bo.Op != token.NEQ) {
				return
			}
			var elem, val ssa.Value
			for _, pair := range [][2]ssa.Value{{bo.X, bo.Y}, {bo.Y, bo.X}} {
				if _, isParam := stripIdentity(pair[1]).(*ssa.Parameter); isParam {
					elem, val = pair[0], pair[1]
				}
			}
			if elem == nil || !isStringType(val.Type()) {
				return
			}
			// elem: element of the slice looked up in the package-level map[string][]string
			ld, ok := stripIdentity(elem).(*ssa.UnOp)
			if !ok {
				return
			}
			ia, ok := ld.X.(*ssa.IndexAddr)
			if !ok {
				return
			}
			var lk *ssa.Lookup
			switch x := stripIdentity(ia.X).(type) {
			case *ssa.Extract:
				lk, _ = x.Tuple.(*ssa.Lookup)
			case *ssa.Lookup:
				lk = x
			}
			if _, ofRow := w.listOfFoundRow(ia.X); !ofRow {
				if lk == nil || lk.X.Type().Underlying().String() != "map[string][]string" {
					return
				}
				if _, isGlobal := valueRoot(lk.X).(*ssa.Global); !isGlobal {
					return
				}
			}
			n++
			key := fmt.Sprintf("%s rejects exactly the values that are not in the option's list", fnKey(fn))
			// the flag: a boolean phi fed with `true` from the equal edge
			eq := 0
			if bo.Op == token.NEQ {
				eq = 1
			}
			var iff *ssa.If
			for _, ref := range *bo.Referrers() {
				if i2, ok := ref.(*ssa.If); ok {
					iff = i2
				}
			}
			good, bad := false, false
			if iff != nil {
				eqBlk := iff.Block().Succs[eq]
				for _, bb := range fn.Blocks {
					cond := branchCond(bb)
					if cond == nil {
						continue
					}
					neg := false
					cv := cond
					for {
						if u, ok := cv.(*ssa.UnOp); ok && u.Op == token.NOT {
							neg = !neg
							cv = u.X
							continue
						}
						break
					}
					phi, ok := cv.(*ssa.Phi)
					if !ok {
						continue
					}
					fed := false
					for i, e := range phi.Edges {
						k, isConst := e.(*ssa.Const)
						if isConst && k.Value != nil && k.Value.Kind() == constant.Bool && constant.BoolVal(k.Value) {
							p := phi.Block().Preds[i]
							if p == eqBlk || eqBlk.Dominates(p) {
								fed = true
							}
						}
					}
					if !fed {
						continue
					}
					member, notMember := 0, 1
					if neg {
						member, notMember = 1, 0
					}
					for _, b3 := range w.diagnosticBlocks(fn) {
						if edgeDominates(bb, notMember, b3) {
							good = true
						}
						if edgeDominates(bb, member, b3) {
							bad = true
						}
					}
				}
			}
			if good && !bad {
				r.pass(rule, key, w.instrPos(ins), "inline membership loop")
			} else {
				r.fail(rule, key, w.instrPos(ins), fmt.Sprintf("inline membership test: diagnostic on the not-a-member edge: %v; on the member edge: %v", good, bad))
			}
		})
	}
	if n == 0 {
		r.fail(rule, "option value check found", "internal/model/model.go", "no test of an option value against the option table's allowed values found: every value is accepted")
	}
}

// ---- C12: positions come from the first token of the construct ----

// c12PositionSource: every line/column the parse phase records (diagnostics, model positions) is read from a construct's start token
// or from a terminal's own symbol - never from its stop token, which lies on a later line when the construct spans lines.
func c12PositionSource(w *World, r *Report) {
	const rule = "C12/position-from-start-token"
	n := 0
	for _, fn := range parsePhaseFuncs(w) {
		cnt := 0
		forEachInstr(fn, func(b *ssa.BasicBlock, ins ssa.Instruction) {
			call, ok := ins.(*ssa.Call)
			if !ok || !call.Call.IsInvoke() {
				return
			}
			name := call.Call.Method.Name()
			if name != "GetLine" && name != "GetColumn" && name != "GetCharPositionInLine" {
				return
			}
			// walk the receiver chain to the token accessor
			v := call.Call.Value
			src := ""
			for i := 0; i < 6 && src == ""; i++ {
				c2, ok := stripIdentity(v).(*ssa.Call)
				if !ok {
					break
				}
				m := ""
				var recv ssa.Value
				if c2.Call.IsInvoke() {
					m, recv = c2.Call.Method.Name(), c2.Call.Value
				} else if f := c2.Call.StaticCallee(); f != nil && len(c2.Call.Args) > 0 {
					m, recv = f.Name(), c2.Call.Args[0]
				}
				switch m {
				case "GetStart", "GetStop", "GetSymbol":
					src = m
				case "GetTokenSource":
					v = recv
				default:
					i = 6
				}
			}
			if src == "" {
				return // a token handed in (listener callbacks, helper parameters): judged where it was obtained
			}
			n++
			cnt++
			key := fmt.Sprintf("%s position #%d is taken from the start of the construct", fnKey(fn), cnt)
			if src == "GetStop" {
				r.fail(rule, key, w.instrPos(ins), "the recorded line/column is that of the construct's LAST token: a declaration that spans lines is reported (and remembered) at the wrong line")
			} else {
				r.pass(rule, key, w.instrPos(ins), src+"()")
			}
		})
	}
	if n == 0 {
		r.fail(rule, "positions found", "internal/parser/packet_dsl_parser.go", "the parse phase records no source position at all")
	}
}

// ---- padding helpers: outcome signatures with polarity ----

// polarCond: a branch condition as a described fact plus the successor on which the fact holds.
func polarCond(w *World, cond ssa.Value) (desc string, trueSucc int, ok bool) {
	neg := false
	c := cond
	for {
		if u, isU := c.(*ssa.UnOp); isU && u.Op == token.NOT {
			neg = !neg
			c = u.X
			continue
		}
		break
	}
	succ := func(onTrue bool) int {
		if onTrue != neg {
			return 0
		}
		return 1
	}
	switch x := c.(type) {
	case *ssa.BinOp:
		if x.Op == token.EQL || x.Op == token.NEQ {
			if isNilConst(x.X) || isNilConst(x.Y) {
				o := x.X
				if isNilConst(o) {
					o = x.Y
				}
				return "nonnil(" + types.TypeString(o.Type(), shortQual) + ")", succ(x.Op == token.NEQ), true
			}
			cs, c1 := constString(x.X)
			other := x.Y
			if !c1 {
				cs, c1 = constString(x.Y)
				other = x.X
			}
			if c1 {
				what := "value"
				if ld, ok := stripIdentity(other).(*ssa.UnOp); ok {
					if fa, ok := ld.X.(*ssa.FieldAddr); ok {
						tn, f, _, _ := fieldOf(fa)
						what = tn + "." + f
					}
				}
				_ = cs
				return "equals-a-constant(" + what + ")", succ(x.Op == token.EQL), true
			}
		}
	case *ssa.Extract:
		if ta, ok := x.Tuple.(*ssa.TypeAssert); ok && x.Index == 1 {
			return "is(" + modelTypeName(ta.AssertedType) + ")", succ(true), true
		}
	case *ssa.UnOp:
		if x.Op == token.MUL {
			if fa, ok := x.X.(*ssa.FieldAddr); ok {
				tn, f, _, _ := fieldOf(fa)
				return tn + "." + f, succ(true), true
			}
		}
	case *ssa.Call:
		if f := x.Call.StaticCallee(); f != nil {
			return f.Name() + "()", succ(true), true
		}
	}
	return "", 0, false
}

func stripNot(v ssa.Value) ssa.Value {
	for {
		if u, ok := v.(*ssa.UnOp); ok && u.Op == token.NOT {
			v = u.X
			continue
		}
		return v
	}
}

// factsAt: the described facts that definitely hold (or definitely do not) when block blk is reached.
func factsAt(w *World, fn *ssa.Function, blk *ssa.BasicBlock) []string {
	set := map[string]bool{}
	for _, bb := range fn.Blocks {
		cond := branchCond(bb)
		if cond == nil {
			continue
		}
		d, ts, ok := polarCond(w, cond)
		if !ok || strings.HasPrefix(d, "equals-a-constant(") {
			continue // which spelling a value has is judged by the pad-spelling rule; here: presence and kind tests only
		}
		if c, isCall := stripNot(cond).(*ssa.Call); isCall {
			if f := c.Call.StaticCallee(); f != nil && w.isSubjectFunc(f) {
				continue // a repo predicate (e.g. "is the NUL spelling"): same reason
			}
		}
		if edgeDominates(bb, ts, blk) {
			set["+"+d] = true
		}
		if edgeDominates(bb, 1-ts, blk) {
			set["-"+d] = true
		}
	}
	return sortedBoolKeys(set)
}

// outcomeSignature: for a padding helper, every way a result is produced, with the facts known on that path:
// "returns nil / a fresh copy / the selected padding when [...]" and "selects <source> when [...]". Callee helpers are inlined.
func outcomeSignature(w *World, fn *ssa.Function, depth int) []string {
	return outcomeSignatureB(w, fn, depth, bindings{})
}

func outcomeSignatureB(w *World, fn *ssa.Function, depth int, bs bindings) []string {
	set := map[string]bool{}
	if fn == nil || fn.Blocks == nil || depth > 3 {
		return nil
	}
	srcOf := func(v ssa.Value) string {
		v = stripIdentity(v)
		for i := 0; i < 4; i++ {
			p, ok := v.(*ssa.Parameter)
			if !ok {
				break
			}
			a, bound := bs[p]
			if !bound {
				break
			}
			v = stripIdentity(a)
		}
		if c, ok := v.(*ssa.Const); ok && c.IsNil() {
			return "nil"
		}
		if _, ok := v.(*ssa.Alloc); ok {
			return "fresh copy"
		}
		if ld, ok := v.(*ssa.UnOp); ok {
			if fa, ok := ld.X.(*ssa.FieldAddr); ok {
				tn, f, _, _ := fieldOf(fa)
				return tn + "." + f
			}
		}
		return ""
	}
	var classify func(v ssa.Value, at *ssa.BasicBlock, verb string, d int)
	classify = func(v ssa.Value, at *ssa.BasicBlock, verb string, d int) {
		v = stripIdentity(v)
		if d > 6 {
			return
		}
		if phi, ok := v.(*ssa.Phi); ok {
			for i, e := range phi.Edges {
				classify(e, phi.Block().Preds[i], "selects", d+1)
			}
			set[verb+" the selected padding when ["+strings.Join(factsAt(w, fn, at), " ")+"]"] = true
			return
		}
		if c, ok := v.(*ssa.Call); ok {
			if g := c.Call.StaticCallee(); g != nil && w.isSubjectFunc(g) && g.Pkg == w.Parser && g != fn {
				nb := bindings{}
				for k, val := range bs {
					nb[k] = val
				}
				for i, p := range g.Params {
					if i < len(c.Call.Args) {
						nb[p] = c.Call.Args[i]
					}
				}
				for _, s := range outcomeSignatureB(w, g, depth+1, nb) {
					set[s] = true
				}
				return
			}
		}
		if s := srcOf(v); s != "" {
			set[verb+" "+s+" when ["+strings.Join(factsAt(w, fn, at), " ")+"]"] = true
			return
		}
		set[verb+" a computed value when ["+strings.Join(factsAt(w, fn, at), " ")+"]"] = true
	}
	for _, b := range fn.Blocks {
		ret, ok := b.Instrs[len(b.Instrs)-1].(*ssa.Return)
		if !ok || len(ret.Results) == 0 {
			continue
		}
		classify(ret.Results[0], b, "returns", 0)
	}
	// normal form: "return nil where the selected padding is nil" and "return the selected padding" are the same outcome, and
	// whether the nil case has a return of its own is a matter of style
	norm := map[string]bool{}
	for k := range set {
		switch {
		case strings.HasPrefix(k, "returns nil when [") && strings.Contains(k, "-nonnil(*model.Padding)"):
			k = "returns the selected padding"
		case strings.HasPrefix(k, "returns the selected padding when ["):
			if !strings.Contains(k, "-nonnil(*model.Padding)") {
				k = "returns the selected padding"
			}
		}
		norm[k] = true
	}
	return sortedBoolKeys(norm)
}

// wirePaddingOutcomes: the five padding helpers produce their results under the same facts, polarity included (a negated test in one
// language makes that language pad differently from the other four).
func wirePaddingOutcomes(wc *wireCtx, r *Report, prop string) {
	rule := prop + "/padding-outcomes"
	sigs := map[string]string{}
	var langs []string
	for _, l := range codecLangs {
		fns := wc.anchors[l]["padding"]
		if len(fns) != 1 {
			continue
		}
		sigs[l] = strings.Join(outcomeSignature(wc.m.w, fns[0], 0), "; ")
		langs = append(langs, l)
	}
	count := map[string]int{}
	for _, s := range sigs {
		count[s]++
	}
	best := ""
	for s, n := range count {
		if n > count[best] || (n == count[best] && s < best) {
			best = s
		}
	}
	for _, l := range langs {
		key := l + ": GetPadding produces its results under the same conditions as its siblings"
		if sigs[l] == best {
			r.pass(rule, key, wc.m.w.pos(wc.anchors[l]["padding"][0].Pos()), sigs[l])
		} else {
			r.fail(rule, key, wc.m.w.pos(wc.anchors[l]["padding"][0].Pos()), fmt.Sprintf("this generator: {%s}; %d sibling(s): {%s} - a test is inverted or a case is missing, so this language pads with a different character/side for some DSL", sigs[l], count[best], best))
		}
	}
}

// ---- C07/C17: bracket balance of the emitted text ----

type balance struct{ curly, round, square, block int } // block: Lua function/if/for ... end nesting (Lua emitters only)

func (a balance) add(b balance) balance {
	return balance{a.curly + b.curly, a.round + b.round, a.square + b.square, a.block + b.block}
}
func (a balance) String() string {
	s := fmt.Sprintf("{%+d (%+d [%+d", a.curly, a.round, a.square)
	if a.block != 0 {
		s += fmt.Sprintf(" block%+d", a.block)
	}
	return s
}

var (
	luaOpenRE    = regexp.MustCompile(`\bfunction\b|\bif\b|\bdo\b`)
	luaCloseRE   = regexp.MustCompile(`\bend\b`)
	luaCommentRE = regexp.MustCompile(`--[^\n]*`)
)

// luaBlocks: net count of Lua block openers (function, if, do) against `end` in a piece of text, comments removed.
func luaBlocks(s string) int {
	s = luaCommentRE.ReplaceAllString(s, "")
	return len(luaOpenRE.FindAllString(s, -1)) - len(luaCloseRE.FindAllString(s, -1))
}

// textBalance: net bracket count of a piece of constant text.
func textBalance(s string) balance {
	var b balance
	for _, c := range s {
		switch c {
		case '{':
			b.curly++
		case '}':
			b.curly--
		case '(':
			b.round++
		case ')':
			b.round--
		case '[':
			b.square++
		case ']':
			b.square--
		}
	}
	return b
}

type balanceCtx struct {
	w       *World
	m       *matrix
	memo    map[*ssa.Function]*balance // nil entry while in progress / undecidable
	state   map[*ssa.Function]int      // 0 unknown, 1 in progress, 2 done, 3 undecidable
	assumed map[*ssa.Function]bool     // assumed balanced while in progress (recursion)
	lua     bool                       // count Lua block keywords too
	why     map[*ssa.Function]string
}

// valueBalance: the net bracket count of the text a value denotes: constants, concatenations, Sprintf formats, and the result of
// repo helpers (their own net, when it is the same on every path). ok=false when a part cannot be judged.
func (bc *balanceCtx) valueBalance(v ssa.Value, depth int) (balance, bool) {
	if depth > 16 {
		return balance{}, false
	}
	switch x := v.(type) {
	case *ssa.Const:
		if s, ok := constString(x); ok {
			b := textBalance(s)
			return b, true
		}
		return balance{}, true
	case *ssa.BinOp:
		if x.Op == token.ADD {
			a, ok1 := bc.valueBalance(x.X, depth+1)
			b, ok2 := bc.valueBalance(x.Y, depth+1)
			return a.add(b), ok1 && ok2
		}
		return balance{}, true
	case *ssa.MakeInterface:
		return bc.valueBalance(x.X, depth+1)
	case *ssa.ChangeType:
		return bc.valueBalance(x.X, depth+1)
	case *ssa.Convert:
		return bc.valueBalance(x.X, depth+1)
	case *ssa.Phi:
		var first *balance
		for _, e := range x.Edges {
			b, ok := bc.valueBalance(e, depth+1)
			if !ok {
				return balance{}, false
			}
			if first == nil {
				first = &b
			} else if *first != b {
				return balance{}, false
			}
		}
		if first == nil {
			return balance{}, true
		}
		return *first, true
	case *ssa.Call:
		f := x.Call.StaticCallee()
		if f == nil {
			if x.Call.IsInvoke() {
				return balance{}, true // GetType(), GetText(): names and numbers
			}
			return balance{}, false
		}
		name := f.String()
		switch {
		case name == "(*strings.Builder).String" || name == "(*bytes.Buffer).String":
			// the content of a local builder: everything written into it in this function
			if al, ok := valueRoot(x.Call.Args[0]).(*ssa.Alloc); ok {
				if b := bc.builderBalance(x.Parent(), al); b != nil {
					return *b, true
				}
			}
			return balance{}, false
		case name == "fmt.Sprintf" || name == "fmt.Sprint" || name == "fmt.Sprintln":
			total := balance{}
			okAll := true
			for _, a := range x.Call.Args {
				b, ok := bc.valueBalance(a, depth+1)
				total = total.add(b)
				okAll = okAll && ok
			}
			return total, okAll
		case name == "strings.Join":
			// the pieces of the joined list are counted where they are collected; the separator must be neutral
			if len(x.Call.Args) == 2 {
				sep, ok := bc.valueBalance(x.Call.Args[1], depth+1)
				if ok && sep == (balance{}) {
					if isStringSlice(x.Call.Args[0].Type()) {
						if c2, isCall := stripIdentity(x.Call.Args[0]).(*ssa.Call); isCall {
							if g := c2.Call.StaticCallee(); g != nil && bc.w.isSubjectFunc(g) && g.Blocks != nil {
								if b := bc.funcBalance(g); b != nil {
									return *b, true // a helper returning the collected pieces
								}
								return balance{}, false
							}
						}
					}
					return balance{}, true
				}
			}
			return balance{}, false
		case strings.HasPrefix(name, "strings.") || strings.HasPrefix(name, "strconv.") || strings.Contains(name, "strcase."):
			total := balance{}
			okAll := true
			for _, a := range x.Call.Args {
				if !isStringish(a.Type()) {
					continue
				}
				b, ok := bc.valueBalance(a, depth+1)
				total = total.add(b)
				okAll = okAll && ok
			}
			return total, okAll
		case bc.w.isSubjectFunc(f) && f.Blocks != nil:
			if !isStringish(x.Type()) && !isStringSlice(x.Type()) {
				return balance{}, true
			}
			b := bc.funcBalance(f)
			if b == nil {
				return balance{}, false
			}
			total := *b
			// text handed in and passed through to the result (indent helpers and the like) counts once per use
			for i, p := range f.Params {
				if i >= len(x.Call.Args) || !isStringish(p.Type()) {
					continue
				}
				uses := bc.paramUses(f, p)
				if uses == 0 {
					continue
				}
				ab, ok := bc.valueBalance(x.Call.Args[i], depth+1)
				if !ok {
					return balance{}, false
				}
				if uses > 1 && ab != (balance{}) {
					return balance{}, false
				}
				total = total.add(ab)
			}
			return total, true
		}
		return balance{}, true
	case *ssa.Slice:
		// variadic argument array: sum of the stored elements
		if al, ok := x.X.(*ssa.Alloc); ok {
			total := balance{}
			okAll := true
			for _, ref := range *al.Referrers() {
				if ia, ok := ref.(*ssa.IndexAddr); ok {
					for _, r2 := range *ia.Referrers() {
						if st, ok := r2.(*ssa.Store); ok && st.Addr == ssa.Value(ia) {
							b, ok := bc.valueBalance(st.Val, depth+1)
							total = total.add(b)
							okAll = okAll && ok
						}
					}
				}
			}
			return total, okAll
		}
		return balance{}, true
	}
	return balance{}, true // loads, parameters, field reads: names, numbers, type spellings
}

// builderBalance: the net bracket count of what fn writes into one local builder, when it is the same on every path.
func (bc *balanceCtx) builderBalance(fn *ssa.Function, al *ssa.Alloc) *balance {
	delta := map[*ssa.BasicBlock]balance{}
	for _, s := range bc.m.sitesOfX(fn, true) {
		c, ok := s.instr.(ssa.CallInstruction)
		if !ok || len(c.Common().Args) == 0 || valueRoot(c.Common().Args[0]) != ssa.Value(al) {
			continue
		}
		b, okv := bc.valueBalance(s.val, 0)
		if !okv {
			return nil
		}
		delta[s.instr.Block()] = delta[s.instr.Block()].add(b)
	}
	return propagateBalance(fn, delta)
}

// propagateBalance: forward propagation of per-block deltas; nil when two paths disagree.
func propagateBalance(fn *ssa.Function, delta map[*ssa.BasicBlock]balance) *balance {
	in := map[*ssa.BasicBlock]*balance{}
	zero := balance{}
	in[fn.Blocks[0]] = &zero
	work := []*ssa.BasicBlock{fn.Blocks[0]}
	for len(work) > 0 {
		b := work[0]
		work = work[1:]
		out := in[b].add(delta[b])
		for _, sc := range b.Succs {
			if cur, seen := in[sc]; seen {
				if *cur != out {
					return nil
				}
				continue
			}
			o := out
			in[sc] = &o
			work = append(work, sc)
		}
	}
	var result *balance
	for _, b := range fn.Blocks {
		if _, isRet := b.Instrs[len(b.Instrs)-1].(*ssa.Return); !isRet || in[b] == nil {
			continue
		}
		out := in[b].add(delta[b])
		if result == nil {
			result = &out
		} else if *result != out {
			return nil
		}
	}
	if result == nil {
		result = &zero
	}
	return result
}

// paramUses: in how many emitted pieces of fn the parameter occurs.
func (bc *balanceCtx) paramUses(fn *ssa.Function, p *ssa.Parameter) int {
	n := 0
	for _, s := range bc.m.sitesOf(fn) {
		seen := map[ssa.Value]bool{}
		var has func(v ssa.Value, d int) bool
		has = func(v ssa.Value, d int) bool {
			if v == nil || seen[v] || d > 12 {
				return false
			}
			seen[v] = true
			if v == ssa.Value(p) {
				return true
			}
			switch x := v.(type) {
			case *ssa.BinOp:
				return has(x.X, d+1) || has(x.Y, d+1)
			case *ssa.Phi:
				for _, e := range x.Edges {
					if has(e, d+1) {
						return true
					}
				}
			case *ssa.Call:
				for _, a := range x.Call.Args {
					if has(a, d+1) {
						return true
					}
				}
			case *ssa.MakeInterface:
				return has(x.X, d+1)
			case *ssa.Convert:
				return has(x.X, d+1)
			case *ssa.Slice:
				if al, ok := x.X.(*ssa.Alloc); ok {
					for _, ref := range *al.Referrers() {
						if ia, ok := ref.(*ssa.IndexAddr); ok {
							for _, r2 := range *ia.Referrers() {
								if st, ok := r2.(*ssa.Store); ok && has(st.Val, d+1) {
									return true
								}
							}
						}
					}
				}
			}
			return false
		}
		if has(s.val, 0) {
			n++
		}
	}
	return n
}

// funcBalance: the net bracket count of everything fn emits (into its builder / accumulator / result), provided it is the same on
// every path; nil when it is path dependent or cannot be judged.
func (bc *balanceCtx) funcBalance(fn *ssa.Function) *balance {
	switch bc.state[fn] {
	case 2:
		return bc.memo[fn]
	case 1:
		// recursion: induction hypothesis "the recursive call is balanced"; checked when the outer computation finishes
		bc.assumed[fn] = true
		z := balance{}
		return &z
	case 3:
		return nil
	}
	bc.state[fn] = 1
	delta := map[*ssa.BasicBlock]balance{}
	ok := true
	for _, s := range bc.m.sitesOfX(fn, true) {
		b, okv := bc.valueBalance(s.val, 0)
		if !okv {
			ok = false
			bc.why[fn] = "a piece of text at " + bc.w.instrPos(s.instr) + " cannot be judged"
		}
		delta[s.instr.Block()] = delta[s.instr.Block()].add(b)
	}
	if !ok {
		bc.state[fn] = 3
		return nil
	}
	// forward propagation: all paths into a block must agree
	in := map[*ssa.BasicBlock]*balance{}
	zero := balance{}
	in[fn.Blocks[0]] = &zero
	work := []*ssa.BasicBlock{fn.Blocks[0]}
	for len(work) > 0 {
		b := work[0]
		work = work[1:]
		out := in[b].add(delta[b])
		for _, sc := range b.Succs {
			if cur, seen := in[sc]; seen {
				if *cur != out {
					bc.state[fn] = 3
					bc.why[fn] = fmt.Sprintf("the paths into the block at %s have emitted %s and %s", bc.w.instrPos(sc.Instrs[0]), cur, out)
					return nil
				}
				continue
			}
			o := out
			in[sc] = &o
			work = append(work, sc)
		}
	}
	var result *balance
	for _, b := range fn.Blocks {
		if _, isRet := b.Instrs[len(b.Instrs)-1].(*ssa.Return); !isRet || in[b] == nil {
			continue
		}
		out := in[b].add(delta[b])
		if result == nil {
			result = &out
		} else if *result != out {
			bc.state[fn] = 3
			bc.why[fn] = fmt.Sprintf("two returns have emitted %s and %s", result, out)
			return nil
		}
	}
	if result == nil {
		result = &zero
	}
	if bc.assumed[fn] && *result != zero {
		bc.state[fn] = 3
		bc.why[fn] = "a recursive emitter whose own text has a net bracket count of " + result.String()
		return nil
	}
	bc.state[fn] = 2
	bc.memo[fn] = result
	return result
}

// wireBracketBalance: every function under a generator that emits text emits the same net number of brackets on all of its paths
// (an if/else whose arms differ, or a loop body that is not neutral, produces unbalanced output for some input), and the functions
// that produce whole files are balanced.
func wireBracketBalance(w *World, wc *wireCtx, r *Report, prop string, roles map[string]bool) {
	rule := prop + "/bracket-balance"
	newCtx := func(lua bool) *balanceCtx {
		return &balanceCtx{w: w, m: wc.m, memo: map[*ssa.Function]*balance{}, state: map[*ssa.Function]int{}, why: map[*ssa.Function]string{}, assumed: map[*ssa.Function]bool{}, lua: lua}
	}
	ctxOf := map[bool]*balanceCtx{false: newCtx(false), true: newCtx(true)}
	bc := ctxOf[false]
	n := 0
	for _, ga := range anchorTable {
		if roles["only-lua"] && ga.Lang != "lua" {
			continue
		}
		bc = ctxOf[ga.Lang == "lua"]
		for _, fn := range wc.anchors[ga.Lang]["own"] {
			if len(wc.m.sitesOf(fn)) == 0 {
				continue
			}
			isTest := roleOf(fn) == "test"
			if !(roles["test"] && roles["code"]) && isTest != roles["test"] {
				continue
			}
			n++
			key := fmt.Sprintf("%s: %s emits the same brackets on every path", ga.Lang, fnKey(fn))
			if b := bc.funcBalance(fn); b != nil {
				r.pass(rule, key, w.pos(fn.Pos()), b.String())
			} else if bc.state[fn] == 3 && strings.HasPrefix(bc.why[fn], "a piece") {
				r.pass(rule, key, w.pos(fn.Pos()), "not judged: "+bc.why[fn])
			} else {
				r.fail(rule, key, w.pos(fn.Pos()), "the emitted text is not bracket-balanced in the same way on all paths: "+bc.why[fn])
			}
		}
	}
	_ = n
	// every file handed back by a generator (an entry of its map[string][]byte) is balanced
	nFiles := 0
	for _, ga := range anchorTable {
		if roles["only-lua"] && ga.Lang != "lua" {
			continue
		}
		bc = ctxOf[ga.Lang == "lua"]
		for _, fn := range wc.anchors[ga.Lang]["own"] {
			cnt := 0
			forEachInstr(fn, func(b *ssa.BasicBlock, ins ssa.Instruction) {
				var muKey, muValue ssa.Value
				if mu, ok := ins.(*ssa.MapUpdate); ok && mu.Map.Type().Underlying().String() == "map[string][]byte" {
					muKey, muValue = mu.Key, mu.Value
				} else if c, ok := ins.(*ssa.Call); ok {
					// the store sits in a shared helper (`out.add(name, code)`): the call is the store, with the arguments that reach the
					// helper's key and value
					if h := c.Call.StaticCallee(); h != nil {
						if ki, vi, ok := fileAdder(w, h); ok && ki < len(c.Call.Args) && vi < len(c.Call.Args) {
							muKey, muValue = c.Call.Args[ki], c.Call.Args[vi]
						}
					}
				}
				if muKey == nil {
					return
				}
				mu := struct{ Key, Value ssa.Value }{muKey, muValue}
				isTestFile := false
				for _, c := range stringConsts(mu.Key) {
					if strings.Contains(strings.ToLower(c), "test") {
						isTestFile = true
					}
				}
				if !(roles["test"] && roles["code"]) && isTestFile != roles["test"] {
					return
				}
				cnt++
				nFiles++
				key := fmt.Sprintf("%s: file #%d written by %s is bracket-balanced", ga.Lang, cnt, fnKey(fn))
				v := stripIdentity(mu.Value)
				if cv, ok := v.(*ssa.Convert); ok {
					v = stripIdentity(cv.X)
				}
				bal, okv := bc.valueBalance(v, 0)
				switch {
				case !okv:
					r.pass(rule, key, w.instrPos(ins), "not judged: the file's text is assembled in a way the balance count cannot follow")
				case bal == (balance{}):
					r.pass(rule, key, w.instrPos(ins), "")
				default:
					r.fail(rule, key, w.instrPos(ins), "the text of this file has a net bracket count of "+bal.String()+" on every path: a closing or opening bracket is missing from the emitted program")
				}
			})
		}
	}
	if nFiles == 0 {
		r.fail(rule, "generated files found", "internal/parser", "no store into a map[string][]byte found under the generators")
	}
}

// returnsUnderEmptyList: the return is dominated by the edge on which len(the predicate's list) is 0.
func returnsUnderEmptyList(f *ssa.Function, ret *ssa.Return) bool {
	isList, _, ok := predicateList(f)
	if !ok {
		return false
	}
	for _, b := range f.Blocks {
		cond := branchCond(b)
		if cond == nil {
			continue
		}
		val := true
		for {
			if u, ok := cond.(*ssa.UnOp); ok && u.Op == token.NOT {
				cond, val = u.X, !val
				continue
			}
			break
		}
		bo, ok := cond.(*ssa.BinOp)
		if !ok {
			continue
		}
		call, ok := stripIdentity(bo.X).(*ssa.Call)
		k, ok2 := bo.Y.(*ssa.Const)
		if !ok || !ok2 || k.Value == nil || k.Value.Kind() != constant.Int {
			continue
		}
		bi, ok := call.Call.Value.(*ssa.Builtin)
		if !ok || bi.Name() != "len" || len(call.Call.Args) != 1 || !isList(call.Call.Args[0]) {
			continue
		}
		n, _ := constant.Int64Val(k.Value)
		emptyWhenTrue, known := false, false
		switch {
		case bo.Op == token.EQL && n == 0, bo.Op == token.LEQ && n == 0, bo.Op == token.LSS && n == 1:
			emptyWhenTrue, known = true, true
		case bo.Op == token.NEQ && n == 0, bo.Op == token.GTR && n == 0, bo.Op == token.GEQ && n == 1:
			emptyWhenTrue, known = false, true
		}
		if !known {
			continue
		}
		succ := 0
		if emptyWhenTrue != val {
			succ = 1
		}
		if edgeDominates(b, succ, ret.Block()) {
			return true
		}
	}
	return false
}

// predicateAcceptsEmptyList: the membership predicate returns true when its list is empty.
func predicateAcceptsEmptyList(f *ssa.Function) bool {
	if f == nil || f.Blocks == nil || len(f.Params) != 2 {
		return false
	}
	if ok, acceptsEmpty := membershipWrapper(f, 0); ok {
		return acceptsEmpty
	}
	ok := false
	forEachInstr(f, func(_ *ssa.BasicBlock, ins ssa.Instruction) {
		ret, isRet := ins.(*ssa.Return)
		if !isRet || len(ret.Results) != 1 {
			return
		}
		if k, isK := ret.Results[0].(*ssa.Const); isK && k.Value != nil && k.Value.Kind() == constant.Bool && constant.BoolVal(k.Value) && returnsUnderEmptyList(f, ret) {
			ok = true
		}
	})
	return ok
}

var fileAdderMemo = map[*ssa.Function][3]int{}

// fileAdder: h is a parser helper (not an emitter of a generator) whose body stores, into a map[string][]byte, under a key that is
// one of its parameters, a value that is (the []byte conversion of) another parameter. Returns the two parameter indices.
func fileAdder(w *World, h *ssa.Function) (int, int, bool) {
	if m, ok := fileAdderMemo[h]; ok {
		return m[0], m[1], m[2] == 1
	}
	res := [3]int{0, 0, 0}
	if h.Blocks != nil && h.Pkg == w.Parser {
		forEachInstr(h, func(_ *ssa.BasicBlock, ins ssa.Instruction) {
			mu, ok := ins.(*ssa.MapUpdate)
			if !ok || mu.Map.Type().Underlying().String() != "map[string][]byte" {
				return
			}
			k := stripIdentity(mu.Key)
			v := stripIdentity(mu.Value)
			if cv, ok := v.(*ssa.Convert); ok {
				v = stripIdentity(cv.X)
			}
			ki, vi := -1, -1
			for i, p := range h.Params {
				if k == ssa.Value(p) {
					ki = i
				}
				if v == ssa.Value(p) {
					vi = i
				}
			}
			if ki >= 0 && vi >= 0 {
				res = [3]int{ki, vi, 1}
			}
		})
	}
	fileAdderMemo[h] = res
	return res[0], res[1], res[2] == 1
}

// predicateList: the list a two-parameter predicate f(list, x) is about: its first parameter, or - when the first parameter is a
// record (or the address of one) - the one list member of that record that f reads and never writes (`func (row *spec) accepts(x)`
// is `contains(row.allowed, x)` with the record standing for its list). isList tells whether a value inside f is that list; field
// is the member's index (-1: the parameter itself).
func predicateList(f *ssa.Function) (isList func(ssa.Value) bool, field int, ok bool) {
	if f == nil || f.Blocks == nil || len(f.Params) != 2 {
		return nil, 0, false
	}
	p0 := f.Params[0]
	if _, isSlice := p0.Type().Underlying().(*types.Slice); isSlice {
		return func(v ssa.Value) bool { return stripIdentity(v) == ssa.Value(p0) }, -1, true
	}
	rt := p0.Type().Underlying()
	if pt, isPtr := rt.(*types.Pointer); isPtr {
		rt = pt.Elem().Underlying()
	}
	if _, isStruct := rt.(*types.Struct); !isStruct {
		return nil, 0, false
	}
	// member `m` of the record handed in, read through its address, its value or the local copy of its value
	memberRead := func(v ssa.Value) (int, bool) {
		switch x := stripIdentity(v).(type) {
		case *ssa.Field:
			if stripIdentity(x.X) == ssa.Value(p0) {
				return x.Field, true
			}
		case *ssa.UnOp:
			fa, isFA := x.X.(*ssa.FieldAddr)
			if x.Op != token.MUL || !isFA {
				return 0, false
			}
			base := stripIdentity(fa.X)
			if al, isAl := base.(*ssa.Alloc); isAl {
				if val := recordAssignedOnce(al); val != nil {
					base = stripIdentity(val)
				}
			}
			if base == ssa.Value(p0) {
				return fa.Field, true
			}
		}
		return 0, false
	}
	field = -1
	good := true
	forEachInstr(f, func(_ *ssa.BasicBlock, ins ssa.Instruction) {
		switch x := ins.(type) {
		case *ssa.FieldAddr:
			// a member of the record is only read here
			if stripIdentity(x.X) == ssa.Value(p0) && x.Referrers() != nil {
				for _, ref := range *x.Referrers() {
					switch ref.(type) {
					case *ssa.UnOp, *ssa.DebugRef:
					default:
						good = false
					}
				}
			}
		}
		v, isVal := ins.(ssa.Value)
		if !isVal {
			return
		}
		if _, isSlice := v.Type().Underlying().(*types.Slice); !isSlice {
			return
		}
		if m, isM := memberRead(v); isM {
			if field >= 0 && field != m {
				good = false
			}
			field = m
		}
	})
	if !good || field < 0 {
		return nil, 0, false
	}
	want := field
	return func(v ssa.Value) bool {
		m, isM := memberRead(v)
		return isM && m == want
	}, field, true
}

// membershipWrapper: f(list, x) bool is written in terms of another membership predicate: its one return value is
// `member(list, x)`, or `len(list) == 0 || member(list, x)` (an empty list accepts anything). Reports whether it is one and
// whether it lets the empty list pass.
func membershipWrapper(f *ssa.Function, depth int) (bool, bool) {
	if f == nil || f.Blocks == nil || len(f.Params) != 2 || depth > 2 {
		return false, false
	}
	isList, _, ok := predicateList(f)
	if !ok {
		return false, false
	}
	var rets []*ssa.Return
	forEachInstr(f, func(_ *ssa.BasicBlock, ins ssa.Instruction) {
		if r, ok := ins.(*ssa.Return); ok {
			rets = append(rets, r)
		}
	})
	if len(rets) != 1 || len(rets[0].Results) != 1 {
		return false, false
	}
	acceptsEmpty := false
	// is the edge from pred into blk the "list is empty" edge of a len(list) test?
	emptyEdge := func(pred, blk *ssa.BasicBlock) bool {
		cond := branchCond(pred)
		if cond == nil {
			return false
		}
		op, nonEmptySucc, ok := lenGtZero(cond)
		if !ok || !isList(op) {
			return false
		}
		return pred.Succs[1-nonEmptySucc] == blk && pred.Succs[0] != pred.Succs[1]
	}
	var member func(v ssa.Value, d int) bool
	member = func(v ssa.Value, d int) bool {
		if d > 4 {
			return false
		}
		switch x := v.(type) {
		case *ssa.Call:
			g := x.Call.StaticCallee()
			if g == nil || len(x.Call.Args) != 2 || stripIdentity(x.Call.Args[1]) != ssa.Value(f.Params[1]) {
				return false
			}
			if !isList(x.Call.Args[0]) {
				return false
			}
			if strings.HasPrefix(g.String(), "slices.Contains[") || strings.HasPrefix(g.String(), "slices.Contains(") || g.String() == "slices.Contains" {
				return true
			}
			if g == f {
				return false
			}
			ok, _ := isMembershipPredicateD(g, depth+1)
			return ok
		case *ssa.Phi:
			for i, e := range x.Edges {
				if k, ok := e.(*ssa.Const); ok && k.Value != nil && k.Value.Kind() == constant.Bool && constant.BoolVal(k.Value) && emptyEdge(x.Block().Preds[i], x.Block()) {
					acceptsEmpty = true
					continue
				}
				if !member(e, d+1) {
					return false
				}
			}
			return true
		}
		return false
	}
	if !member(rets[0].Results[0], 0) {
		return false, false
	}
	return true, acceptsEmpty
}

func isMembershipPredicateD(f *ssa.Function, depth int) (bool, string) {
	if depth > 2 {
		return false, "too deep"
	}
	return isMembershipPredicate(f)
}

// resolveParamChain: v with parameters replaced by what the call sites on the way bound them to.
func resolveParamChain(v ssa.Value, bs bindings) ssa.Value {
	for i := 0; i < 8; i++ {
		p, ok := stripIdentity(v).(*ssa.Parameter)
		if !ok {
			return v
		}
		a, bound := bs[p]
		if !bound {
			return v
		}
		v = a
	}
	return v
}

// diagnosticBlocks: the blocks of fn in which the input is rejected: a diagnostic is recorded there, or fn returns there a message
// that every caller records as a diagnostic exactly when it is not empty (the validation split into "decide" and "report").
func (w *World) diagnosticBlocks(fn *ssa.Function) []*ssa.BasicBlock {
	var out []*ssa.BasicBlock
	for _, b := range fn.Blocks {
		for _, ins := range b.Instrs {
			if isAddSyntaxError(ins) {
				out = append(out, b)
				break
			}
		}
	}
	res := fn.Signature.Results()
	for i := 0; i < res.Len(); i++ {
		if !isStringType(res.At(i).Type()) || !w.messageResultReported(fn, i) {
			continue
		}
		for _, b := range fn.Blocks {
			ret, ok := b.Instrs[len(b.Instrs)-1].(*ssa.Return)
			if !ok || i >= len(ret.Results) {
				continue
			}
			switch x := stripIdentity(ret.Results[i]).(type) {
			case *ssa.Const:
				if s, ok := constString(x); !ok || s != "" {
					out = append(out, b)
				}
			case *ssa.Phi:
				for j, e := range x.Edges {
					if s, ok := constString(e); ok && s == "" {
						continue
					}
					out = append(out, x.Block().Preds[j])
				}
			default:
				out = append(out, b)
			}
		}
	}
	// ... or puts there a message into a list (a result, or a member of a result record) of which every caller reports every element
	out = append(out, w.problemBlocks(fn)...)
	return out
}

// messageResultReported: every call site of fn hands result i to the diagnostics on the edge where it is not the empty string.
func (w *World) messageResultReported(fn *ssa.Function, i int) bool {
	n := w.CallGraph().Nodes[fn]
	if n == nil || len(n.In) == 0 {
		return false
	}
	for _, e := range n.In {
		c, ok := e.Site.(*ssa.Call)
		if !ok {
			return false
		}
		var msg ssa.Value = c
		if fn.Signature.Results().Len() > 1 {
			msg = nil
			for _, ref := range *c.Referrers() {
				if ex, ok := ref.(*ssa.Extract); ok && ex.Index == i {
					msg = ex
				}
			}
		}
		if msg == nil || msg.Referrers() == nil {
			return false
		}
		reported := false
		for _, ref := range *msg.Referrers() {
			bo, ok := ref.(*ssa.BinOp)
			if !ok || (bo.Op != token.NEQ && bo.Op != token.EQL) || bo.Referrers() == nil {
				continue
			}
			other := bo.Y
			if stripIdentity(bo.Y) == msg {
				other = bo.X
			}
			if s, ok := constString(other); !ok || s != "" {
				continue
			}
			nonEmpty := 0
			if bo.Op == token.EQL {
				nonEmpty = 1
			}
			for _, r2 := range *bo.Referrers() {
				iff, ok := r2.(*ssa.If)
				if !ok {
					continue
				}
				for _, b3 := range c.Parent().Blocks {
					for _, i3 := range b3.Instrs {
						if isAddSyntaxError(i3) && edgeDominates(iff.Block(), nonEmpty, b3) && usesValue(i3, msg) {
							reported = true
						}
					}
				}
			}
		}
		if !reported {
			return false
		}
	}
	return true
}

// usesValue: the instruction's operands reach v through records, conversions and concatenation built in the same function.
func usesValue(ins ssa.Instruction, v ssa.Value) bool {
	seen := map[ssa.Value]bool{}
	var walk func(x ssa.Value, depth int) bool
	walk = func(x ssa.Value, depth int) bool {
		if x == nil || depth > 8 || seen[x] {
			return false
		}
		seen[x] = true
		if x == v {
			return true
		}
		switch y := x.(type) {
		case *ssa.Alloc:
			if y.Referrers() != nil {
				for _, ref := range *y.Referrers() {
					switch z := ref.(type) {
					case *ssa.Store:
						if z.Addr == ssa.Value(y) && walk(z.Val, depth+1) {
							return true
						}
					case *ssa.FieldAddr:
						if z.Referrers() != nil {
							for _, r2 := range *z.Referrers() {
								if st, ok := r2.(*ssa.Store); ok && st.Addr == ssa.Value(z) && walk(st.Val, depth+1) {
									return true
								}
							}
						}
					}
				}
			}
			return false
		}
		if in, ok := x.(ssa.Instruction); ok {
			for _, op := range in.Operands(nil) {
				if *op != nil && walk(*op, depth+1) {
					return true
				}
			}
		}
		return false
	}
	for _, op := range ins.Operands(nil) {
		if *op != nil && walk(*op, 0) {
			return true
		}
	}
	return false
}
