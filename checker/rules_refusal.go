package main

// C07/attribute-refusal-reported: "A construct ... is reported as a compile-time diagnostic, never silently dropped."
//
// The model visitor decorates a declared field with the attributes written in front of it: a loop over the attribute children that
// replaces the field's Attr (checksum, length) or sets other members (padding, tag). An attribute that cannot be applied to the
// field - a checksum in front of a string, a padding in front of a number - is refused by a test of the field's kind. Decided: in such
// a loop, neither edge of a test of the decorated field leads round to the next attribute without either writing a member of the field
// or recording a diagnostic (directly, through a wrapper, or inside the helper the test was delegated to). An edge that does neither
// drops what the author wrote without a word.

import (
	"fmt"
	"go/constant"
	"go/token"
	"go/types"
	"strings"

	"golang.org/x/tools/go/ssa"
)

func attributeRefusalReported(w *World, r *Report, prop string) {
	rule := prop + "/attribute-refusal-reported"
	n := 0
	nScopes := 0
	ctxs := w.ctxTable()
	for _, fn := range parsePhaseFuncs(w) {
		if fn.Pkg != w.Parser {
			continue
		}
		type scope struct {
			blocks map[*ssa.BasicBlock]bool
			header *ssa.BasicBlock // loop scope: the next attribute starts here; nil for a function scope (the exits are the returns)
			holder ssa.Value
		}
		var scopes []scope
		attrHolders := func(blocks map[*ssa.BasicBlock]bool, outsideOnly bool) []ssa.Value {
			var out []ssa.Value
			seen := map[ssa.Value]bool{}
			for b := range blocks {
				for _, ins := range b.Instrs {
					st, ok := ins.(*ssa.Store)
					if !ok {
						continue
					}
					fa, ok := st.Addr.(*ssa.FieldAddr)
					if !ok || !isFieldPtr(fa.X.Type()) {
						continue
					}
					if _, f, _, _ := fieldOf(fa); f != "Attr" {
						continue
					}
					hv := canonField(fa.X)
					if in, ok := hv.(ssa.Instruction); ok && outsideOnly && blocks[in.Block()] {
						continue
					}
					if !seen[hv] {
						seen[hv] = true
						out = append(out, hv)
					}
				}
			}
			return out
		}
		// a loop that decorates a field defined outside it
		for _, h := range fn.Blocks {
			isHeader := false
			for _, p := range h.Preds {
				if h.Dominates(p) {
					isHeader = true
				}
			}
			if !isHeader {
				continue
			}
			loop := naturalLoop(h)
			// ... while walking a list of parse-tree children (the attributes written in front of it)
			overChildren := false
			for b := range loop {
				for _, ins := range b.Instrs {
					if ia, ok := ins.(*ssa.IndexAddr); ok {
						base := stripIdentity(ia.X)
						if sv := cellSingleValue(base); sv != nil {
							base = sv
						}
						if c, ok := base.(*ssa.Call); ok {
							if _, ai, ok := w.accessorOf(c, ctxs); ok && ai.Known && strings.HasSuffix(ai.What, "*") {
								overChildren = true
							}
						}
					}
				}
			}
			if !overChildren {
				continue
			}
			for _, hv := range attrHolders(loop, true) {
				scopes = append(scopes, scope{loop, h, hv})
			}
		}
		// a helper that applies one attribute (a parse-tree node it is handed) to the field it is handed
		all := map[*ssa.BasicBlock]bool{}
		for _, b := range fn.Blocks {
			all[b] = true
		}
		// (handed: as parameters of their own, or as members of a record the routine is handed or is a method of)
		takesNode := false
		for i, p := range fn.Params {
			if i >= min(1, len(fn.Params)) && grammarCtxName(p.Type()) != "" {
				takesNode = true
			}
			if recordCarriesNode(p.Type()) {
				takesNode = true
			}
		}
		for _, hv := range attrHolders(all, false) {
			if isCarriedField(hv) && takesNode {
				scopes = append(scopes, scope{all, nil, hv})
			}
		}
		nScopes += len(scopes)
		cnt := 0
		for _, sc := range scopes {
			loop, h, holder := sc.blocks, sc.header, sc.holder
			effect := func(b *ssa.BasicBlock) bool {
				for _, ins := range b.Instrs {
					if isAddSyntaxError(ins) {
						return true
					}
					if st, ok := ins.(*ssa.Store); ok {
						if fa, ok := st.Addr.(*ssa.FieldAddr); ok && isFieldPtr(fa.X.Type()) && canonField(fa.X) == holder {
							return true
						}
					}
					// a helper handed the field that reports or applies on its own
					if c, ok := ins.(ssa.CallInstruction); ok {
						for _, g := range calleesOfAll(c) {
							if g == nil || g.Blocks == nil || !w.isSubjectFunc(g) {
								continue
							}
							for _, a := range c.Common().Args {
								handed := isFieldPtr(a.Type()) && canonField(a) == holder
								// ... or the record that carries the field
								if rp := recordParamOf(holder); rp != nil && stripIdentity(a) == ssa.Value(rp) {
									handed = true
								}
								if handed && reachesDiagnostic(g, map[*ssa.Function]bool{}, 0) {
									return true
								}
							}
						}
					}
				}
				return false
			}
			for _, bb := range fn.Blocks {
				if !loop[bb] {
					continue
				}
				cond := branchCond(bb)
				if cond == nil {
					continue
				}
				tf, _ := fieldTest(cond)
				if tf == nil || canonField(tf) != holder {
					continue
				}
				if effect(bb) {
					continue // the test's own block already reports (the helper that made the test)
				}
				n++
				cnt++
				key := fmt.Sprintf("%s: an attribute the field's kind refuses is reported, not dropped #%d", fnKey(fn), cnt)
				bad := ""
				for s, start := range bb.Succs {
					if !loop[start] {
						continue
					}
					// can the next attribute (the end of the helper) be reached from this edge without an effect?
					seen := map[*ssa.BasicBlock]bool{}
					stack := []*ssa.BasicBlock{start}
					silent := false
					for len(stack) > 0 && !silent {
						b := stack[len(stack)-1]
						stack = stack[:len(stack)-1]
						if seen[b] || !loop[b] {
							continue
						}
						seen[b] = true
						if h != nil && b == h {
							silent = true
							break
						}
						if effect(b) {
							continue
						}
						if _, isRet := b.Instrs[len(b.Instrs)-1].(*ssa.Return); isRet && h == nil {
							silent = true
							break
						}
						stack = append(stack, b.Succs...)
					}
					if silent {
						bad = fmt.Sprintf("from the %s edge of the test at %s the routine goes on to the next attribute without writing the field or recording a diagnostic: the attribute is silently dropped", []string{"true", "false"}[s], w.instrPos(bb.Instrs[len(bb.Instrs)-1]))
					}
				}
				if bad == "" {
					r.pass(rule, key, w.instrPos(bb.Instrs[len(bb.Instrs)-1]), "")
				} else {
					r.fail(rule, key, w.instrPos(bb.Instrs[len(bb.Instrs)-1]), bad)
				}
			}
		}
	}
	if n == 0 && nScopes > 0 {
		r.pass(rule, "kind tests in an attribute loop found", "internal/parser/packet_dsl_parser.go", fmt.Sprintf("%d decorating routines, every test of the field's kind is made by a helper that reports on its own", nScopes))
	} else if n == 0 {
		r.fail(rule, "kind tests in an attribute loop found", "internal/parser/packet_dsl_parser.go", "no loop that decorates a declared field under tests of its kind found in the model visitor")
	}
}

// recordCarriesNode: t is a record (or a pointer to one) with a member that is a parse-tree node.
func recordCarriesNode(t types.Type) bool {
	if pt, ok := t.Underlying().(*types.Pointer); ok {
		t = pt.Elem()
	}
	st, ok := t.Underlying().(*types.Struct)
	if !ok || grammarCtxName(t) != "" {
		return false
	}
	for i := 0; i < st.NumFields(); i++ {
		if grammarCtxName(st.Field(i).Type()) != "" {
			return true
		}
	}
	return false
}

// recordParamOf: the record parameter a carried field is a member of (nil: the field is a parameter of its own, or not carried).
func recordParamOf(f ssa.Value) *ssa.Parameter {
	switch x := f.(type) {
	case *ssa.Field:
		p, _ := x.X.(*ssa.Parameter)
		return p
	case *ssa.UnOp:
		if fa, ok := x.X.(*ssa.FieldAddr); ok && x.Op == token.MUL {
			switch b := fa.X.(type) {
			case *ssa.Parameter:
				return b
			case *ssa.Alloc:
				if b.Comment != "" {
					for _, p := range b.Parent().Params {
						if p.Name() == b.Comment {
							return p
						}
					}
				}
			}
		}
	}
	return nil
}

// reachesDiagnostic: g records a diagnostic, itself or in a subject function it calls.
func reachesDiagnostic(g *ssa.Function, seen map[*ssa.Function]bool, depth int) bool {
	if g == nil || g.Blocks == nil || seen[g] || depth > 4 {
		return false
	}
	seen[g] = true
	found := false
	forEachInstr(g, func(_ *ssa.BasicBlock, ins ssa.Instruction) {
		if found {
			return
		}
		if isAddSyntaxError(ins) {
			found = true
			return
		}
		if c, ok := ins.(ssa.CallInstruction); ok {
			if f := c.Common().StaticCallee(); f != nil && theWorld != nil && theWorld.isSubjectFunc(f) && reachesDiagnostic(f, seen, depth+1) {
				found = true
			}
		}
	})
	return found
}

// C07/collected-is-used: the model visitor collects what it finds in local tables (fields by name, match pairs by key field) and hands
// them to the packet it builds. A table that is filled and then only measured (`len(m) > 0`) - never looked up, ranged over, stored or
// passed on - means what was collected is dropped; a table that is only ever read - never filled, never handed to anybody who could fill it - means the
// same from the other side. Both are shapes of "the declaration is there, its consequence in the model is not".
func collectedIsUsed(w *World, r *Report, prop string) {
	rule := prop + "/collected-is-used"
	n := 0
	for _, fn := range parsePhaseFuncs(w) {
		if fn.Pkg != w.Parser {
			continue
		}
		cnt := 0
		forEachInstr(fn, func(_ *ssa.BasicBlock, ins ssa.Instruction) {
			mm, ok := ins.(*ssa.MakeMap)
			if !ok || mm.Referrers() == nil {
				return
			}
			// the map value itself or, when a closure captures the variable, the loads of its cell
			vals := []ssa.Value{mm}
			for _, ref := range *mm.Referrers() {
				if st, ok := ref.(*ssa.Store); ok && st.Val == ssa.Value(mm) {
					if al, ok := st.Addr.(*ssa.Alloc); ok {
						if stores, esc := cellStores(al); !esc && len(stores) == 1 {
							vals = append(vals, cellLoads(al)...)
						} else {
							vals = nil // escapes or is re-assigned: not judged
						}
					}
				}
			}
			if vals == nil {
				return
			}
			written, used, readOnly := false, false, true
			for _, v := range vals {
				if v.Referrers() == nil {
					continue
				}
				for _, ref := range *v.Referrers() {
					switch x := ref.(type) {
					case *ssa.MapUpdate:
						if x.Map == v {
							written = true
						} else {
							used = true
						}
					case *ssa.DebugRef:
					case *ssa.Store:
						if _, isCell := x.Addr.(*ssa.Alloc); !isCell || x.Val != v {
							used, readOnly = true, false
						} else if len(vals) == 1 {
							used, readOnly = true, false
						}
					case *ssa.Call:
						if bi, ok := x.Call.Value.(*ssa.Builtin); ok && bi.Name() == "len" {
							continue
						}
						used, readOnly = true, false // handed to somebody who may fill or read it
					case *ssa.Lookup, *ssa.Range:
						used = true
					default:
						used, readOnly = true, false
					}
				}
			}
			n++
			cnt++
			key := fmt.Sprintf("%s: local table #%d is filled and used", fnKey(fn), cnt)
			switch {
			case written && !used:
				r.fail(rule, key, w.instrPos(mm), "the table is filled but never looked up, ranged over, stored or passed on (only measured): what the routine collected in it is dropped")
			case !written && used && readOnly:
				r.fail(rule, key, w.instrPos(mm), "the table is looked up or ranged over but nothing is ever put into it (and it is handed to nobody who could): the declarations it should hold are never found")
			default:
				r.pass(rule, key, w.instrPos(mm), "")
			}
		})
	}
	if n == 0 {
		r.pass(rule, "local tables found", "internal/parser/packet_dsl_parser.go", "the model visitor keeps no local tables")
	}
}

// cellLoads: every load of a local variable's cell - in the declaring function and in the closures that capture it.
func cellLoads(al *ssa.Alloc) []ssa.Value {
	var out []ssa.Value
	var walk func(addr ssa.Value, depth int)
	walk = func(addr ssa.Value, depth int) {
		if addr.Referrers() == nil || depth > 6 {
			return
		}
		for _, ref := range *addr.Referrers() {
			switch x := ref.(type) {
			case *ssa.UnOp:
				if x.X == addr {
					out = append(out, x)
				}
			case *ssa.MakeClosure:
				if g, ok := x.Fn.(*ssa.Function); ok {
					for j, b := range x.Bindings {
						if b == addr && j < len(g.FreeVars) {
							walk(g.FreeVars[j], depth+1)
						}
					}
				}
			}
		}
	}
	walk(al, 0)
	return out
}

// <prop>/kind-arm-does-something: the generators dispatch on the kind of a field (`switch c := f.Attr.(type)`). An arm that is there
// but does nothing - the checked assertion's value is unused and both of its outcomes lead to the same place - drops every field of
// that kind from whatever the routine emits (its member, its sample value, its encode step), while the routine still looks
// exhaustive. go/ssa keeps exactly this remnant of an emptied `case`.
func kindArmDoesSomething(w *World, wc *wireCtx, r *Report, prop string, roles map[string]bool) {
	rule := prop + "/kind-arm-does-something"
	n := 0
	for _, ga := range anchorTable {
		for _, fn := range wc.anchors[ga.Lang]["own"] {
			if roles != nil && !roles[roleOf(fn)] {
				continue
			}
			cnt := 0
			forEachInstr(fn, func(_ *ssa.BasicBlock, ins ssa.Instruction) {
				ta, ok := ins.(*ssa.TypeAssert)
				if !ok || !ta.CommaOk || ta.Referrers() == nil {
					return
				}
				kn := modelTypeName(ta.AssertedType)
				if _, isKind := kindTypes[kn]; !isKind {
					return
				}
				decides, valueUsed := false, false
				for _, ref := range *ta.Referrers() {
					ex, ok := ref.(*ssa.Extract)
					if !ok || ex.Referrers() == nil {
						continue
					}
					for _, r2 := range *ex.Referrers() {
						if _, isDbg := r2.(*ssa.DebugRef); isDbg {
							continue
						}
						if ex.Index == 0 {
							valueUsed = true
							continue
						}
						if iff, ok := r2.(*ssa.If); ok {
							if b := iff.Block(); len(b.Succs) == 2 && !sameDestination(b, b.Succs[0], b.Succs[1]) {
								decides = true
							}
						} else {
							decides = true
						}
					}
				}
				n++
				cnt++
				key := fmt.Sprintf("%s: %s: the arm for %s #%d does something", ga.Lang, fnKey(fn), kn, cnt)
				if decides || valueUsed {
					r.pass(rule, key, w.instrPos(ta), "")
				} else {
					r.fail(rule, key, w.instrPos(ta), fmt.Sprintf("the routine tests the field for being a %s and does nothing on either outcome: fields of that kind are dropped from what it emits", kn))
				}
			})
		}
	}
	if n == 0 {
		r.fail(rule, "kind tests found", "", "no checked assertion of a field's attribute found in the generators examined")
	}
}

// C07/row-used-where-found: `row, ok := table[key]` - every use of the row lies behind the ok edge. On the miss edge the row is the
// zero value (empty type names, empty accessor suffixes): text made from it is emitted into the target file as `write(...)` / an empty
// type. A negated test (`if row, ok := m[k]; !ok { use(row) }`) keeps the routine's shape and empties what it emits.
func rowUsedWhereFound(w *World, wc *wireCtx, r *Report, prop string) {
	rule := prop + "/row-used-where-found"
	n := 0
	for _, ga := range anchorTable {
		for _, fn := range wc.anchors[ga.Lang]["own"] {
			cnt := 0
			tests := membershipTests(fn)
			forEachInstr(fn, func(_ *ssa.BasicBlock, ins ssa.Instruction) {
				lk, ok := ins.(*ssa.Lookup)
				if !ok || !lk.CommaOk || lk.Referrers() == nil {
					return
				}
				if _, isMap := lk.X.Type().Underlying().(*types.Map); !isMap {
					return
				}
				var val *ssa.Extract
				for _, ref := range *lk.Referrers() {
					if ex, ok := ref.(*ssa.Extract); ok && ex.Index == 0 {
						val = ex
					}
				}
				if val == nil || val.Referrers() == nil {
					return
				}
				for _, t := range tests {
					if t.lookup != lk {
						continue
					}
					uses, onMiss := 0, ""
					// a record-valued row is kept in a local and read member by member: those reads are the uses
					refs := append([]ssa.Instruction{}, (*val.Referrers())...)
					for _, ref := range *val.Referrers() {
						st, ok := ref.(*ssa.Store)
						if !ok || st.Val != ssa.Value(val) {
							continue
						}
						al, ok := st.Addr.(*ssa.Alloc)
						if !ok || al.Referrers() == nil {
							continue
						}
						for _, r2 := range *al.Referrers() {
							switch y := r2.(type) {
							case *ssa.FieldAddr:
								if y.Referrers() != nil {
									refs = append(refs, (*y.Referrers())...)
								}
							case *ssa.UnOp:
								// the whole record read back: what is done with the copy
								if y.Referrers() != nil {
									refs = append(refs, (*y.Referrers())...)
								}
							}
						}
					}
					for _, ref := range refs {
						if _, isDbg := ref.(*ssa.DebugRef); isDbg {
							continue
						}
						if st, isSt := ref.(*ssa.Store); isSt && st.Val == ssa.Value(val) {
							if _, isAl := st.Addr.(*ssa.Alloc); isAl {
								continue // the spill itself
							}
						}
						if ret, isRet := ref.(*ssa.Return); isRet {
							// handed back together with "not found" (`return row, "", false`): the caller is told
							told := false
							for _, rv := range ret.Results {
								if k, ok := rv.(*ssa.Const); ok && k.Value != nil && k.Value.Kind() == constant.Bool && !constant.BoolVal(k.Value) {
									told = true
								}
							}
							if told {
								continue
							}
						}
						blk := ref.Block()
						if phi, isPhi := ref.(*ssa.Phi); isPhi {
							for i, e := range phi.Edges {
								if e == ssa.Value(val) {
									blk = phi.Block().Preds[i]
								}
							}
						}
						uses++
						if edgeDominates(t.branch, 1-t.presentSucc, blk) {
							onMiss = w.instrPos(ref)
						}
					}
					if uses == 0 {
						continue
					}
					n++
					cnt++
					key := fmt.Sprintf("%s: %s uses table row #%d only where the key was found", ga.Lang, fnKey(fn), cnt)
					if onMiss == "" {
						r.pass(rule, key, w.instrPos(lk), "")
					} else {
						r.fail(rule, key, onMiss, "the row looked up at "+w.instrPos(lk)+" is used on the edge where the key was NOT found: it is the zero value there, and what is made of it (a type name, an accessor) is emitted empty")
					}
				}
			})
		}
	}
	if n == 0 {
		r.pass(rule, "checked table lookups found", "", "the generators make no checked lookup whose row they use")
	}
}

// C12/diagnostic-at-the-element: "...rejected with a diagnostic naming the offence and the line of the offending declaration". The
// declarations of a packet are checked in loops (over the parse tree's children, over the collected fields); a diagnostic raised
// inside such a loop is about the declaration of the current iteration, so the position it records has to come from the iteration:
// the Line of the SyntaxError it builds - or, when it is raised through a helper, one of the helper's non-text arguments - derives
// from the loop's element. A position taken from the enclosing construct (`reportAt(ctx, ..)` where `fctx` was meant) reports every
// offence in a multi-line inline object at the object's first line.
func diagnosticAtTheElement(w *World, r *Report, prop string) {
	rule := prop + "/diagnostic-at-the-element"
	n := 0
	for _, fn := range parsePhaseFuncs(w) {
		if fn.Pkg != w.Parser {
			continue
		}
		cnt := 0
		for _, h := range fn.Blocks {
			isHeader := false
			for _, p := range h.Preds {
				if h.Dominates(p) {
					isHeader = true
				}
			}
			if !isHeader {
				continue
			}
			loop := naturalLoop(h)
			// the loop's elements: what is read at an index that changes with the iteration, or handed out by a range
			elems := map[ssa.Value]bool{}
			for b := range loop {
				for _, ins := range b.Instrs {
					switch x := ins.(type) {
					case *ssa.UnOp:
						if ia, ok := x.X.(*ssa.IndexAddr); ok && x.Op == token.MUL {
							if in, ok := ia.Index.(ssa.Instruction); ok && loop[in.Block()] {
								elems[x] = true
							}
						}
					case *ssa.Extract:
						if _, ok := x.Tuple.(*ssa.Next); ok {
							elems[x] = true
						}
					}
				}
			}
			if len(elems) == 0 {
				continue
			}
			var variant func(v ssa.Value, depth int, seen map[ssa.Value]bool) bool
			variant = func(v ssa.Value, depth int, seen map[ssa.Value]bool) bool {
				if v == nil || depth > 12 || seen[v] {
					return false
				}
				seen[v] = true
				if elems[v] {
					return true
				}
				// a variable of the iteration kept in a cell (a closure captures it): what was stored
				if ld, ok := v.(*ssa.UnOp); ok && ld.Op == token.MUL {
					if al, ok := ld.X.(*ssa.Alloc); ok && loop[al.Block()] {
						if st, esc := cellStores(al); !esc {
							for _, s := range st {
								if variant(s.Val, depth+1, seen) {
									return true
								}
							}
						}
					}
				}
				// a local of the iteration (the element copied into a variable): what is stored into it, whole or member by member
				if al, ok := v.(*ssa.Alloc); ok && loop[al.Block()] && al.Referrers() != nil {
					for _, ref := range *al.Referrers() {
						if st, ok := ref.(*ssa.Store); ok && st.Addr == ssa.Value(al) && variant(st.Val, depth+1, seen) {
							return true
						}
					}
				}
				in, ok := v.(ssa.Instruction)
				if !ok {
					return false
				}
				for _, op := range in.Operands(nil) {
					if *op != nil && variant(*op, depth+1, seen) {
						return true
					}
				}
				return false
			}
			for b := range loop {
				// innermost loop only: a block of a nested loop is judged with that loop
				inner := false
				for _, h2 := range fn.Blocks {
					if h2 == h || !loop[h2] {
						continue
					}
					back := false
					for _, p := range h2.Preds {
						if h2.Dominates(p) {
							back = true
						}
					}
					if back && naturalLoop(h2)[b] {
						inner = true
					}
				}
				if inner {
					continue
				}
				for _, ins := range b.Instrs {
					if !isAddSyntaxError(ins) {
						continue
					}
					c := ins.(ssa.CallInstruction)
					var carriers []ssa.Value
					if f := c.Common().StaticCallee(); f != nil && f.Name() == "AddSyntaxError" {
						// the literal handed over: its Line
						if len(c.Common().Args) >= 2 {
							if al, ok := stripIdentity(c.Common().Args[1]).(*ssa.Alloc); ok && al.Referrers() != nil {
								for _, ref := range *al.Referrers() {
									fa, ok := ref.(*ssa.FieldAddr)
									if !ok || fa.Referrers() == nil {
										continue
									}
									if _, fname, _, _ := fieldOf(fa); fname != "Line" {
										continue
									}
									for _, r2 := range *fa.Referrers() {
										if st, ok := r2.(*ssa.Store); ok && st.Addr == ssa.Value(fa) {
											carriers = append(carriers, st.Val)
										}
									}
								}
							}
						}
					} else {
						args := c.Common().Args
						if g := c.Common().StaticCallee(); g != nil && g.Signature.Recv() != nil && len(args) > 0 {
							args = args[1:]
						}
						for _, a := range args {
							if !isStringType(a.Type()) {
								carriers = append(carriers, a)
							}
						}
					}
					if len(carriers) == 0 {
						continue
					}
					n++
					cnt++
					key := fmt.Sprintf("%s: diagnostic #%d raised inside a loop over declarations is positioned at the declaration of the iteration", fnKey(fn), cnt)
					ok := false
					for _, cv := range carriers {
						if variant(cv, 0, map[ssa.Value]bool{}) {
							ok = true
						}
					}
					if ok {
						r.pass(rule, key, w.instrPos(ins), "")
					} else {
						r.fail(rule, key, w.instrPos(ins), "the position this diagnostic records does not depend on the loop's element (it is taken from something fixed before the loop - the enclosing construct): every offence found in the loop is reported at that one line, not at the line of the offending declaration")
					}
				}
			}
		}
	}
	if n == 0 {
		r.pass(rule, "diagnostics inside loops found", "internal/parser/packet_dsl_parser.go", "no diagnostic is raised inside a loop over declarations")
	}
}

// <prop>/visitor-keeps-no-packet-state: the model visitor is re-entered - an inline object is visited while the packet that contains it
// is still being visited. A member of the visitor that a visiting routine assigns (a table "of the packet being visited") is
// replaced by the nested visit and not given back, unless the routine restores what it found. Decided: no routine of the visitor
// that runs during the tree walk stores into a member of the visitor itself, except to restore a value it loaded from that member
// before.
func visitorKeepsNoPacketState(w *World, r *Report, prop string) {
	rule := prop + "/visitor-keeps-no-packet-state"
	n := 0
	bad := 0
	for _, fn := range parsePhaseFuncs(w) {
		if fn.Pkg != w.Parser || recvNamedCore(fn) != "PacketDslVisitorImpl" || len(fn.Params) == 0 {
			continue
		}
		n++
		forEachInstr(fn, func(_ *ssa.BasicBlock, ins ssa.Instruction) {
			st, ok := ins.(*ssa.Store)
			if !ok {
				return
			}
			fa, ok := st.Addr.(*ssa.FieldAddr)
			if !ok {
				return
			}
			base := stripIdentity(fa.X)
			if sv := cellSingleValue(base); sv != nil {
				base = sv
			}
			if base != ssa.Value(fn.Params[0]) {
				return
			}
			// restoring what was there: the value is a load of the same member
			if ld, ok := stripIdentity(st.Val).(*ssa.UnOp); ok && ld.Op == token.MUL {
				if fa2, ok := ld.X.(*ssa.FieldAddr); ok && fa2.Field == fa.Field && stripIdentity(fa2.X) == base {
					return
				}
			}
			_, fname, _, _ := fieldOf(fa)
			bad++
			r.fail(rule, fmt.Sprintf("%s assigns no member of the visitor (%s)", fnKey(fn), fname), w.instrPos(ins), "a routine that runs during the tree walk assigns the visitor's own member "+fname+": the walk is re-entered for inline objects, the nested visit replaces the value and the enclosing packet goes on with the wrong one (its tables are lost or mixed with the inline object's)")
		})
	}
	if bad == 0 {
		r.pass(rule, "the visiting routines assign no member of the visitor", "internal/parser/packet_dsl_parser.go", fmt.Sprintf("%d routines", n))
	}
}

// <prop>/fields-with-their-packet: where a routine is handed a packet together with a list of fields to work through, the list is
// that packet's own (`f(p, p.Fields)`, `f(q.RefPacket, q.RefPacket.Fields)`): names the routine derives from the packet (factories,
// registries, tables keyed by the packet) then belong to the fields it walks. `f(p, inner.RefPacket.Fields)` pairs the fields of an
// inline object with the enclosing packet.
func fieldsWithTheirPacket(w *World, wc *wireCtx, r *Report, prop string) {
	rule := prop + "/fields-with-their-packet"
	n := 0
	for _, ga := range anchorTable {
		for _, fn := range wc.anchors[ga.Lang]["own"] {
			cnt := 0
			forEachInstr(fn, func(_ *ssa.BasicBlock, ins ssa.Instruction) {
				c, ok := ins.(ssa.CallInstruction)
				if !ok {
					return
				}
				g := c.Common().StaticCallee()
				if g == nil || !w.isSubjectFunc(g) {
					return
				}
				var pk ssa.Value
				var lists []ssa.Value
				for _, a := range c.Common().Args {
					if pt, isPtr := a.Type().Underlying().(*types.Pointer); isPtr && modelTypeName(pt.Elem()) == "Packet" {
						pk = a
					}
					if sl, isSl := a.Type().Underlying().(*types.Slice); isSl && isFieldPtr(sl.Elem()) {
						lists = append(lists, a)
					}
				}
				if pk == nil || len(lists) == 0 {
					return
				}
				for _, l := range lists {
					ld, ok := stripIdentity(l).(*ssa.UnOp)
					if !ok || ld.Op != token.MUL {
						continue
					}
					fa, ok := ld.X.(*ssa.FieldAddr)
					if !ok {
						continue
					}
					if tn, fname, _, _ := fieldOf(fa); tn != "Packet" || fname != "Fields" {
						continue
					}
					n++
					cnt++
					key := fmt.Sprintf("%s: %s hands %s a packet and that packet's own fields #%d", ga.Lang, fnKey(fn), fnKey(g), cnt)
					if sameValue(fa.X, pk) || sameCellValue(fa.X, pk) || keyPath(fa.X) == keyPath(pk) && keyPath(pk) != "expr" && keyPath(pk) != "var" {
						r.pass(rule, key, w.instrPos(ins), "")
					} else {
						r.fail(rule, key, w.instrPos(ins), "the field list handed over is the Fields of a different packet than the packet handed over with it: what the callee names after the packet (factories, registries) is attached to fields that are not that packet's")
					}
				}
			})
		}
	}
	if n == 0 {
		r.pass(rule, "calls with a packet and a field list found", "", "no generator routine is handed a packet together with a field list")
	}
}
