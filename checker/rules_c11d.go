package main

// C11/D-divisor-nonzero: an integer division or remainder whose divisor can be zero is a run-time panic.
//
// For every integer `/` and `%` in subject code the divisor must be one of
//   - a constant other than zero;
//   - a value that is positive by construction: len()/cap() or another non-negative value plus a positive constant, max(.., k>0);
//   - a value tested against zero (or one) by a comparison whose edge dominates the division: v != 0, v > 0, v >= 1 and the false
//     edges of their negations;
//   - a parameter for which each of the above holds at every call site in the program text (followed four levels up).
// Anything else is reported: which value, and why it is not known to be non-zero.
//
// C11/H-join-before-receive: a goroutine that sends on an unbuffered channel needs a receiver that is running. When the function
// that started it waits for it to finish (sync.WaitGroup.Wait) before it reaches its first receive - and nobody else receives - the
// first send that executes never completes, Wait never returns: the entry point hangs (or the runtime aborts with "all goroutines
// are asleep"). This is a definite defect, reported whenever the shape occurs; concurrency as such is not judged.

import (
	"fmt"
	"go/constant"
	"go/token"
	"go/types"

	"golang.org/x/tools/go/ssa"
)

func c11RuleD(w *World, r *Report, subjects []*ssa.Function) {
	const rule = "C11/D-divisor-nonzero"
	isInt := func(t types.Type) bool {
		b, ok := t.Underlying().(*types.Basic)
		return ok && b.Info()&types.IsInteger != 0
	}
	constInt := func(v ssa.Value) (int64, bool) {
		if c, ok := stripIdentity(v).(*ssa.Const); ok && c.Value != nil && c.Value.Kind() == constant.Int {
			n, exact := constant.Int64Val(c.Value)
			return n, exact
		}
		return 0, false
	}
	var nonNeg, positive func(v ssa.Value, depth int, seen map[ssa.Value]bool) bool
	nonNeg = func(v ssa.Value, depth int, seen map[ssa.Value]bool) bool {
		v = stripIdentity(v)
		if depth > 8 {
			return false
		}
		if seen[v] {
			return true
		}
		seen[v] = true
		if n, ok := constInt(v); ok {
			return n >= 0
		}
		switch x := v.(type) {
		case *ssa.Call:
			if bi, ok := x.Call.Value.(*ssa.Builtin); ok && (bi.Name() == "len" || bi.Name() == "cap") {
				return true
			}
			if bi, ok := x.Call.Value.(*ssa.Builtin); ok && bi.Name() == "max" {
				for _, a := range x.Call.Args {
					if nonNeg(a, depth+1, seen) {
						return true
					}
				}
			}
		case *ssa.Phi:
			for _, e := range x.Edges {
				if !nonNeg(e, depth+1, seen) {
					return false
				}
			}
			return true
		case *ssa.BinOp:
			if x.Op == token.ADD || x.Op == token.MUL {
				return nonNeg(x.X, depth+1, seen) && nonNeg(x.Y, depth+1, seen)
			}
		case *ssa.Convert:
			if isInt(x.X.Type()) {
				return nonNeg(x.X, depth+1, seen)
			}
		}
		if b, ok := v.Type().Underlying().(*types.Basic); ok && b.Info()&types.IsUnsigned != 0 {
			return true
		}
		return false
	}
	positive = func(v ssa.Value, depth int, seen map[ssa.Value]bool) bool {
		v = stripIdentity(v)
		if depth > 8 {
			return false
		}
		if n, ok := constInt(v); ok {
			return n > 0
		}
		if seen[v] {
			return true
		}
		seen[v] = true
		switch x := v.(type) {
		case *ssa.Phi:
			for _, e := range x.Edges {
				if !positive(e, depth+1, seen) {
					return false
				}
			}
			return true
		case *ssa.BinOp:
			if x.Op == token.ADD {
				return positive(x.X, depth+1, seen) && nonNeg(x.Y, depth+1, map[ssa.Value]bool{}) ||
					positive(x.Y, depth+1, seen) && nonNeg(x.X, depth+1, map[ssa.Value]bool{})
			}
			if x.Op == token.MUL {
				return positive(x.X, depth+1, seen) && positive(x.Y, depth+1, seen)
			}
		case *ssa.Call:
			if bi, ok := x.Call.Value.(*ssa.Builtin); ok && bi.Name() == "max" {
				for _, a := range x.Call.Args {
					if positive(a, depth+1, seen) {
						return true
					}
				}
			}
		case *ssa.Convert:
			if isInt(x.X.Type()) && sizeOfBasic(x.Type()) >= sizeOfBasic(x.X.Type()) {
				return positive(x.X, depth+1, seen)
			}
		}
		return false
	}
	// guarded: a comparison of v with 0 / 1 whose edge dominates blk establishes v != 0
	guarded := func(v ssa.Value, blk *ssa.BasicBlock) bool {
		v = stripIdentity(v)
		fn := blk.Parent()
		ok := false
		forEachInstr(fn, func(_ *ssa.BasicBlock, ins ssa.Instruction) {
			bo, isB := ins.(*ssa.BinOp)
			if !isB || ok || bo.Referrers() == nil {
				return
			}
			var k int64
			var op token.Token
			if stripIdentity(bo.X) == v {
				n, isC := constInt(bo.Y)
				if !isC {
					return
				}
				k, op = n, bo.Op
			} else if stripIdentity(bo.Y) == v {
				n, isC := constInt(bo.X)
				if !isC {
					return
				}
				k = n
				switch bo.Op { // k op v  ==  v op' k
				case token.LSS:
					op = token.GTR
				case token.LEQ:
					op = token.GEQ
				case token.GTR:
					op = token.LSS
				case token.GEQ:
					op = token.LEQ
				default:
					op = bo.Op
				}
			} else {
				return
			}
			// which edge makes v != 0 ?
			trueEdge, falseEdge := false, false
			switch op {
			case token.NEQ:
				trueEdge = k == 0
			case token.EQL:
				falseEdge = k == 0
				trueEdge = k != 0
			case token.GTR:
				trueEdge = k >= 0
			case token.GEQ:
				trueEdge = k >= 1
			case token.LSS:
				falseEdge = k >= 1 // !(v < 1) -> v >= 1
				trueEdge = k <= 0  // v < 0
			case token.LEQ:
				falseEdge = k >= 0 // !(v <= 0) -> v > 0
				trueEdge = k < 0
			}
			for _, ref := range *bo.Referrers() {
				iff, isIf := ref.(*ssa.If)
				if !isIf {
					continue
				}
				if trueEdge && edgeDominates(iff.Block(), 0, blk) || falseEdge && edgeDominates(iff.Block(), 1, blk) {
					ok = true
				}
			}
		})
		return ok
	}
	var nonZero func(v ssa.Value, blk *ssa.BasicBlock, depth int) (bool, string)
	nonZero = func(v ssa.Value, blk *ssa.BasicBlock, depth int) (bool, string) {
		v = stripIdentity(v)
		if n, ok := constInt(v); ok {
			if n != 0 {
				return true, ""
			}
			return false, "the constant 0"
		}
		if positive(v, 0, map[ssa.Value]bool{}) {
			return true, ""
		}
		if guarded(v, blk) {
			return true, ""
		}
		if cv, ok := v.(*ssa.Convert); ok && isInt(cv.X.Type()) && sizeOfBasic(cv.Type()) >= sizeOfBasic(cv.X.Type()) {
			return nonZero(cv.X, blk, depth)
		}
		if ph, ok := v.(*ssa.Phi); ok && depth < 4 {
			for i, e := range ph.Edges {
				if ok, why := nonZero(e, ph.Block().Preds[i], depth+1); !ok {
					return false, why
				}
			}
			return true, ""
		}
		if p, ok := v.(*ssa.Parameter); ok && depth < 4 {
			fn := p.Parent()
			idx := -1
			for i, q := range fn.Params {
				if q == p {
					idx = i
				}
			}
			n := w.CallGraph().Nodes[fn]
			real := 0
			if idx >= 0 && n != nil {
				for _, e := range n.In {
					if e.Caller.Func.Synthetic != "" {
						continue
					}
					if e.Site == nil || e.Site.Common().IsInvoke() {
						return false, "parameter " + p.Name() + " of " + fnKey(fn) + ", called through an interface"
					}
					args := e.Site.Common().Args
					if idx >= len(args) {
						return false, "parameter " + p.Name() + " of " + fnKey(fn)
					}
					real++
					if ok, why := nonZero(args[idx], e.Site.Block(), depth+1); !ok {
						return false, fmt.Sprintf("parameter %s of %s, which receives %s at %s", p.Name(), fnKey(fn), why, w.instrPos(e.Site))
					}
				}
			}
			if real > 0 {
				return true, ""
			}
			return false, "parameter " + p.Name() + " of " + fnKey(fn) + " (no call site in the program text)"
		}
		return false, operandShort(v) + " (" + v.Type().String() + "), not compared with zero on the way"
	}
	n := 0
	cnt := map[string]int{}
	for _, fn := range subjects {
		forEachInstr(fn, func(b *ssa.BasicBlock, ins ssa.Instruction) {
			bo, ok := ins.(*ssa.BinOp)
			if !ok || (bo.Op != token.QUO && bo.Op != token.REM) || !isInt(bo.Type()) {
				return
			}
			n++
			k := fnKey(fn)
			cnt[k]++
			key := fmt.Sprintf("%s: divisor #%d is not zero", k, cnt[k])
			if ok, why := nonZero(bo.Y, b, 0); ok {
				r.pass(rule, key, w.instrPos(bo), "")
			} else {
				r.fail(rule, key, w.instrPos(bo), "integer "+bo.Op.String()+" by "+why+": a zero divisor is a run-time panic (integer divide by zero) that nothing between the visitor and the entry points recovers")
			}
		})
	}
	r.note("%s: %d integer divisions / remainders in subject code", rule, n)
}

func sizeOfBasic(t types.Type) int {
	b, ok := t.Underlying().(*types.Basic)
	if !ok {
		return 0
	}
	switch b.Kind() {
	case types.Int8, types.Uint8:
		return 1
	case types.Int16, types.Uint16:
		return 2
	case types.Int32, types.Uint32:
		return 4
	}
	return 8
}

func c11RuleH(w *World, r *Report, subjects []*ssa.Function) {
	const rule = "C11/H-join-before-receive"
	isWG := func(c ssa.CallInstruction, name string) bool {
		f := c.Common().StaticCallee()
		return f != nil && f.Name() == name && f.Signature.Recv() != nil && types.TypeString(f.Signature.Recv().Type(), nil) == "*sync.WaitGroup"
	}
	// chanRoot: the MakeChan a channel operand comes from (through the cell of a captured variable, a free variable, a binding)
	var chanRoot func(v ssa.Value, depth int) *ssa.MakeChan
	chanRoot = func(v ssa.Value, depth int) *ssa.MakeChan {
		v = stripIdentity(v)
		if depth > 6 {
			return nil
		}
		switch x := v.(type) {
		case *ssa.MakeChan:
			return x
		case *ssa.UnOp:
			if x.Op == token.MUL {
				return chanRoot(x.X, depth+1)
			}
		case *ssa.Alloc:
			var mc *ssa.MakeChan
			if x.Referrers() != nil {
				for _, ref := range *x.Referrers() {
					if st, ok := ref.(*ssa.Store); ok && st.Addr == ssa.Value(x) {
						if m := chanRoot(st.Val, depth+1); m != nil {
							if mc != nil && mc != m {
								return nil
							}
							mc = m
						} else {
							return nil
						}
					}
				}
			}
			return mc
		case *ssa.FreeVar:
			fn := x.Parent()
			idx := -1
			for i, fv := range fn.FreeVars {
				if fv == x {
					idx = i
				}
			}
			if fn.Parent() == nil || idx < 0 {
				return nil
			}
			var mc *ssa.MakeChan
			forEachInstr(fn.Parent(), func(_ *ssa.BasicBlock, ins ssa.Instruction) {
				if mk, ok := ins.(*ssa.MakeClosure); ok && mk.Fn == ssa.Value(fn) && idx < len(mk.Bindings) {
					mc = chanRoot(mk.Bindings[idx], depth+1)
				}
			})
			return mc
		case *ssa.ChangeType:
			return chanRoot(x.X, depth+1)
		}
		return nil
	}
	n := 0
	for _, fn := range subjects {
		forEachInstr(fn, func(_ *ssa.BasicBlock, ins ssa.Instruction) {
			mc, ok := ins.(*ssa.MakeChan)
			if !ok {
				return
			}
			n++
			key := fmt.Sprintf("%s: a goroutine's send on an unbuffered channel has a receiver before the join", fnKey(fn))
			if sz, isC := mc.Size.(*ssa.Const); !isC || sz.Value == nil || constant.Sign(sz.Value) != 0 {
				r.pass(rule, key, w.instrPos(mc), "buffered")
				return
			}
			// goroutines started by fn (closures), the sends and receives on mc anywhere under fn
			started := map[*ssa.Function]bool{}
			var waits []ssa.Instruction
			var all []*ssa.Function
			var collect func(f *ssa.Function)
			collect = func(f *ssa.Function) {
				all = append(all, f)
				for _, a := range f.AnonFuncs {
					collect(a)
				}
			}
			collect(fn)
			forEachInstr(fn, func(_ *ssa.BasicBlock, i2 ssa.Instruction) {
				if g, ok := i2.(*ssa.Go); ok {
					if mk, ok := g.Call.Value.(*ssa.MakeClosure); ok {
						if f, ok := mk.Fn.(*ssa.Function); ok {
							started[f] = true
						}
					} else if f := g.Call.StaticCallee(); f != nil {
						started[f] = true
					}
				}
				if c, ok := i2.(ssa.CallInstruction); ok && isWG(c, "Wait") {
					if _, isDefer := i2.(*ssa.Defer); !isDefer {
						waits = append(waits, i2)
					}
				}
			})
			var sendsInGo []ssa.Instruction
			var recvs []ssa.Instruction
			escapes := false
			for _, f := range all {
				signals := false
				forEachInstr(f, func(_ *ssa.BasicBlock, i2 ssa.Instruction) {
					if c, ok := i2.(ssa.CallInstruction); ok && isWG(c, "Done") {
						signals = true
					}
				})
				forEachInstr(f, func(_ *ssa.BasicBlock, i2 ssa.Instruction) {
					switch x := i2.(type) {
					case *ssa.Send:
						if chanRoot(x.Chan, 0) == mc && started[f] && signals {
							sendsInGo = append(sendsInGo, i2)
						}
					case *ssa.UnOp:
						if x.Op == token.ARROW && chanRoot(x.X, 0) == mc {
							recvs = append(recvs, i2)
						}
					case *ssa.Select:
						for _, st := range x.States {
							if chanRoot(st.Chan, 0) == mc {
								if st.Dir == types.RecvOnly {
									recvs = append(recvs, i2)
								} else if !x.Blocking {
									escapes = true // a send with a default branch does not block
								}
							}
						}
					case ssa.CallInstruction:
						// the channel handed to some other function: receivers unknown
						for _, a := range x.Common().Args {
							if chanRoot(a, 0) == mc {
								if bi, ok := x.Common().Value.(*ssa.Builtin); ok && (bi.Name() == "close" || bi.Name() == "len" || bi.Name() == "cap") {
									continue
								}
								escapes = true
							}
						}
					case *ssa.Return:
						for _, res := range x.Results {
							if chanRoot(res, 0) == mc {
								escapes = true
							}
						}
					case *ssa.Store:
						if _, isAl := x.Addr.(*ssa.Alloc); !isAl && chanRoot(x.Val, 0) == mc {
							escapes = true
						}
					}
				})
			}
			if len(sendsInGo) == 0 || len(waits) == 0 || escapes {
				r.pass(rule, key, w.instrPos(mc), "")
				return
			}
			allAfter := true
			for _, rc := range recvs {
				if rc.Parent() != fn {
					allAfter = false // a receiver in another goroutine
					break
				}
				dom := false
				for _, wt := range waits {
					if wt.Block() == rc.Block() {
						dom = dom || indexIn(wt) < indexIn(rc)
					} else if wt.Block().Dominates(rc.Block()) {
						dom = true
					}
				}
				if !dom {
					allAfter = false
				}
			}
			if allAfter {
				r.fail(rule, key, w.instrPos(sendsInGo[0]), fmt.Sprintf("the channel made at %s has no buffer, the goroutine sending on it is waited for (WaitGroup.Wait at %s) before the first receive is reached: the send never completes, Wait never returns - the entry point hangs, or the runtime aborts with \"all goroutines are asleep\", instead of reporting the error that was to be sent", w.instrPos(mc), w.instrPos(waits[0])))
			} else {
				r.pass(rule, key, w.instrPos(mc), "")
			}
		})
	}
	if n == 0 {
		r.pass(rule, "no channel is made in subject code", "internal, cmd", "nothing to join")
	}
	r.note("%s: %d channels made in subject code", rule, n)
}

func indexIn(ins ssa.Instruction) int {
	for i, x := range ins.Block().Instrs {
		if x == ins {
			return i
		}
	}
	return -1
}

// cellStores: every store to a local variable's cell - in the function that declares it and, through the captured reference, in the
// closures (nested to any depth) that capture it. escaped is true when the cell's address goes anywhere else (passed to a call,
// stored), so the list may be incomplete.
func cellStores(al *ssa.Alloc) (stores []*ssa.Store, escaped bool) {
	var walk func(addr ssa.Value, depth int)
	walk = func(addr ssa.Value, depth int) {
		refs := addr.Referrers()
		if refs == nil || depth > 6 {
			return
		}
		for _, ref := range *refs {
			switch x := ref.(type) {
			case *ssa.Store:
				if x.Addr == addr {
					stores = append(stores, x)
				} else {
					escaped = true
				}
			case *ssa.UnOp, *ssa.DebugRef:
			case *ssa.MakeClosure:
				g, _ := x.Fn.(*ssa.Function)
				if g == nil {
					escaped = true
					continue
				}
				for j, b := range x.Bindings {
					if b == addr && j < len(g.FreeVars) {
						walk(g.FreeVars[j], depth+1)
					}
				}
			default:
				escaped = true
			}
		}
	}
	walk(al, 0)
	return
}

// cellSingleValue: v is a load of a variable that lives in a cell and is assigned exactly once anywhere (declaring function and
// closures): the assigned value. nil otherwise.
func cellSingleValue(v ssa.Value) ssa.Value {
	al := cellOf(v)
	if al == nil {
		return nil
	}
	st, esc := cellStores(al)
	if esc || len(st) != 1 {
		return nil
	}
	return stripIdentity(st[0].Val)
}

// sameElemLoad: a and b read the same element: identical values, or loads of base[idx] with the same list value (or the same
// once-assigned / append-only variable) and the same index value.
func sameElemLoad(a, b ssa.Value) bool {
	a, b = stripIdentity(a), stripIdentity(b)
	if a == b {
		return true
	}
	la, ok1 := a.(*ssa.UnOp)
	lb, ok2 := b.(*ssa.UnOp)
	if !ok1 || !ok2 || la.Op != token.MUL || lb.Op != token.MUL {
		return false
	}
	ia, ok1 := la.X.(*ssa.IndexAddr)
	ib, ok2 := lb.X.(*ssa.IndexAddr)
	if !ok1 || !ok2 || stripIdentity(ia.Index) != stripIdentity(ib.Index) {
		return false
	}
	xa, xb := stripIdentity(ia.X), stripIdentity(ib.X)
	if xa == xb {
		return true
	}
	ca, cb := cellOf(xa), cellOf(xb)
	return ca != nil && ca == cb
}

// guardTypesOf: the block is entered only over ok edges of checked assertions (the arms of a type switch) of the value `same`
// recognises: the asserted types. nil when some way in is not such an edge.
func guardTypesOf(b *ssa.BasicBlock, same func(ssa.Value) bool, depth int, seen map[*ssa.BasicBlock]bool) []types.Type {
	if depth > 12 || seen[b] || len(b.Preds) == 0 {
		return nil
	}
	seen[b] = true
	var out []types.Type
	for _, p := range b.Preds {
		last := p.Instrs[len(p.Instrs)-1]
		if iff, ok := last.(*ssa.If); ok {
			if p.Succs[0] != b || p.Succs[1] == b {
				return nil
			}
			ex, ok := iff.Cond.(*ssa.Extract)
			if !ok || ex.Index != 1 {
				return nil
			}
			ta, ok := ex.Tuple.(*ssa.TypeAssert)
			if !ok || !ta.CommaOk || !same(ta.X) {
				return nil
			}
			out = append(out, ta.AssertedType)
			continue
		}
		if _, ok := last.(*ssa.Jump); ok {
			sub := guardTypesOf(p, same, depth+1, seen)
			if sub == nil {
				return nil
			}
			out = append(out, sub...)
			continue
		}
		return nil
	}
	return out
}

// elemOfTypeFilteredList: ta asserts an element of a local list (a variable of the function or of the enclosing one) that is only
// ever extended by append, every appended value under the ok edge of a checked assertion (type switch arm) of that very value; the
// asserted type is one of those types and every other one is excluded at the assertion by the failed edge of a checked assertion of
// the same element. The list is read only by indexing, len and range, so no other value can enter it.
func (w *World) elemOfTypeFilteredList(ta *ssa.TypeAssert) string {
	ld, ok := stripIdentity(ta.X).(*ssa.UnOp)
	if !ok || ld.Op != token.MUL {
		return ""
	}
	ia, ok := ld.X.(*ssa.IndexAddr)
	if !ok {
		return ""
	}
	if _, isSlice := ia.X.Type().Underlying().(*types.Slice); !isSlice {
		return ""
	}
	var appends []*ssa.Call
	listVals := map[ssa.Value]bool{}
	cells := map[*ssa.Alloc]bool{}
	var walk func(x ssa.Value, depth int) bool
	walk = func(x ssa.Value, depth int) bool {
		x = stripIdentity(x)
		if depth > 10 {
			return false
		}
		if listVals[x] {
			return true
		}
		listVals[x] = true
		switch y := x.(type) {
		case *ssa.Const:
			return y.IsNil()
		case *ssa.MakeSlice:
			c, ok := y.Len.(*ssa.Const)
			return ok && c.Int64() == 0
		case *ssa.Phi:
			for _, e := range y.Edges {
				if !walk(e, depth+1) {
					return false
				}
			}
			return true
		case *ssa.Call:
			if bi, ok := y.Call.Value.(*ssa.Builtin); ok && bi.Name() == "append" && len(y.Call.Args) == 2 {
				appends = append(appends, y)
				return walk(y.Call.Args[0], depth+1)
			}
		case *ssa.UnOp:
			al := cellOf(y)
			if al == nil {
				return false
			}
			if cells[al] {
				return true
			}
			cells[al] = true
			st, esc := cellStores(al)
			if esc {
				return false
			}
			for _, s := range st {
				if !walk(s.Val, depth+1) {
					return false
				}
			}
			return true
		}
		return false
	}
	if !walk(ia.X, 0) || len(appends) == 0 {
		return ""
	}
	// the list values are used only to index for reading, measure, range, extend and be stored back into the variable
	isListVal := func(v ssa.Value) bool {
		v = stripIdentity(v)
		if listVals[v] {
			return true
		}
		if al := cellOf(v); al != nil && cells[al] {
			return true
		}
		return false
	}
	fns := map[*ssa.Function]bool{}
	for v := range listVals {
		if in, ok := v.(ssa.Instruction); ok && in.Parent() != nil {
			fns[in.Parent()] = true
			for _, a := range in.Parent().AnonFuncs {
				fns[a] = true
			}
			if p := in.Parent().Parent(); p != nil {
				fns[p] = true
			}
		}
	}
	fns[ta.Parent()] = true
	okUse := true
	for fn := range fns {
		forEachInstr(fn, func(_ *ssa.BasicBlock, ins ssa.Instruction) {
			if !okUse {
				return
			}
			for _, op := range ins.Operands(nil) {
				if *op == nil || !isListVal(*op) {
					continue
				}
				switch x := ins.(type) {
				case *ssa.IndexAddr:
					if x.X != *op {
						okUse = false
					}
					for _, ref := range *x.Referrers() {
						if st, ok := ref.(*ssa.Store); ok && st.Addr == ssa.Value(x) {
							okUse = false
						}
					}
				case *ssa.Call:
					bi, ok := x.Call.Value.(*ssa.Builtin)
					if !ok || !(bi.Name() == "len" || bi.Name() == "cap" || (bi.Name() == "append" && x.Call.Args[0] == *op)) {
						okUse = false
					}
				case *ssa.Range, *ssa.Phi, *ssa.DebugRef:
				case *ssa.Store:
					if al := cellOfAddr(x.Addr); al == nil || !cells[al] {
						okUse = false
					}
				case *ssa.ChangeType, *ssa.MakeInterface:
					okUse = false
				default:
					okUse = false
				}
			}
		})
	}
	if !okUse {
		return ""
	}
	var allowed []types.Type
	for _, ap := range appends {
		ops := variadicOperands(ap.Call.Args[1])
		if len(ops) == 0 {
			return ""
		}
		for _, o := range ops {
			if o == nil {
				return ""
			}
			o := o
			ts := guardTypesOf(ap.Block(), func(v ssa.Value) bool { return sameElemLoad(v, o) }, 0, map[*ssa.BasicBlock]bool{})
			if len(ts) == 0 {
				return ""
			}
			allowed = append(allowed, ts...)
		}
	}
	in := false
	for _, t := range allowed {
		if types.Identical(t, ta.AssertedType) {
			in = true
		}
	}
	if !in {
		return ""
	}
	// every other admitted type is excluded by a failed checked assertion of the same element
	fn := ta.Parent()
	for _, t := range allowed {
		if types.Identical(t, ta.AssertedType) {
			continue
		}
		excluded := false
		forEachInstr(fn, func(_ *ssa.BasicBlock, ins ssa.Instruction) {
			o, ok := ins.(*ssa.TypeAssert)
			if !ok || !o.CommaOk || !types.Identical(o.AssertedType, t) || !sameElemLoad(o.X, ta.X) || o.Referrers() == nil {
				return
			}
			for _, r2 := range *o.Referrers() {
				ex, ok := r2.(*ssa.Extract)
				if !ok || ex.Index != 1 || ex.Referrers() == nil {
					continue
				}
				for _, r3 := range *ex.Referrers() {
					if iff, ok := r3.(*ssa.If); ok && edgeDominates(iff.Block(), 1, ta.Block()) {
						excluded = true
					}
				}
			}
		})
		if !excluded {
			return ""
		}
	}
	return fmt.Sprintf("element of a list that is filled only under checked assertions to %d types; the other ones are excluded by failed checked assertions of the same element", len(allowed))
}

// C11/K-checked-assertion-result: `x, ok := v.(*T)` (or `v.(I)` for an interface I) yields a nil x when the assertion fails. Every
// place that dereferences x - a member access, a copy of the pointed-to record, a call of a method that reads its receiver, any
// method call on the interface value - lies behind the ok edge of that very
// assertion (or behind a non-nil test of x). A diagnostic on the failed edge that forgets to leave (`if !ok { report }` without the
// `continue`) makes the compiler panic on exactly the inputs it meant to reject.
func c11RuleK(w *World, r *Report, subjects []*ssa.Function, derefs map[*ssa.Function]map[int]string) {
	const rule = "C11/K-checked-assertion-result"
	n := 0
	for _, fn := range subjects {
		counts := map[string]int{}
		forEachInstr(fn, func(_ *ssa.BasicBlock, ins ssa.Instruction) {
			ta, ok := ins.(*ssa.TypeAssert)
			if !ok || !ta.CommaOk || ta.Referrers() == nil {
				return
			}
			_, isPtr := ta.AssertedType.Underlying().(*types.Pointer)
			_, isIface := ta.AssertedType.Underlying().(*types.Interface)
			if !isPtr && !isIface {
				return
			}
			var val, okv *ssa.Extract
			for _, ref := range *ta.Referrers() {
				if ex, isEx := ref.(*ssa.Extract); isEx {
					if ex.Index == 0 {
						val = ex
					} else {
						okv = ex
					}
				}
			}
			if val == nil || val.Referrers() == nil {
				return
			}
			// the edges on which the assertion is known to have succeeded
			type edge struct {
				b    *ssa.BasicBlock
				succ int
			}
			var okEdges []edge
			if okv != nil && okv.Referrers() != nil {
				var follow func(c ssa.Value, neg bool, depth int)
				follow = func(c ssa.Value, neg bool, depth int) {
					if depth > 3 || c.Referrers() == nil {
						return
					}
					for _, ref := range *c.Referrers() {
						switch x := ref.(type) {
						case *ssa.If:
							s := 0
							if neg {
								s = 1
							}
							okEdges = append(okEdges, edge{x.Block(), s})
						case *ssa.UnOp:
							if x.Op == token.NOT {
								follow(x, !neg, depth+1)
							}
						}
					}
				}
				follow(okv, false, 0)
			}
			var derefAt []ssa.Instruction
			for _, ref := range *val.Referrers() {
				switch x := ref.(type) {
				case *ssa.FieldAddr:
					if x.X == ssa.Value(val) {
						derefAt = append(derefAt, x)
					}
				case *ssa.UnOp:
					if x.Op == token.MUL && x.X == ssa.Value(val) {
						derefAt = append(derefAt, x)
					}
				case ssa.CallInstruction:
					cc := x.Common()
					if cc.IsInvoke() && cc.Value == ssa.Value(val) {
						derefAt = append(derefAt, x) // a method call on a nil interface value
					}
					if f := cc.StaticCallee(); f != nil && len(cc.Args) > 0 && cc.Args[0] == ssa.Value(val) && f.Signature.Recv() != nil {
						if derefs[f] != nil && derefs[f][0] != "" {
							derefAt = append(derefAt, x)
						}
					}
				}
			}
			if len(derefAt) == 0 {
				return
			}
			n++
			at := types.TypeString(ta.AssertedType, shortQual)
			kb := fmt.Sprintf("%s uses the result of the checked assertion to %s only where it succeeded", fnKey(fn), at)
			counts[kb]++
			key := kb
			if counts[kb] > 1 {
				key = fmt.Sprintf("%s #%d", kb, counts[kb])
			}
			for _, d := range derefAt {
				good := guardedByNil(d.Block(), val, true)
				for _, e := range okEdges {
					if edgeDominates(e.b, e.succ, d.Block()) {
						good = true
					}
				}
				if !good {
					r.fail(rule, key, w.instrPos(d), fmt.Sprintf("the result of %s is dereferenced at %s on a path where the assertion may have failed (the value is nil there): nil pointer dereference on an input the check was meant to reject", w.instrPos(ta), w.instrPos(d)))
					return
				}
			}
			r.pass(rule, key, w.instrPos(ta), fmt.Sprintf("%d dereferences, all behind the ok edge", len(derefAt)))
		})
	}
	if n == 0 {
		r.fail(rule, "checked assertions to pointer types found", "internal/parser", "no checked assertion whose result is dereferenced found in subject code: the rule lost its sites")
	}
}
