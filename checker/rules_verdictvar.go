package main

import (
	"go/constant"
	"go/token"

	"golang.org/x/tools/go/ssa"
)

// Decide here, report there - within one function.
//
// A routine may judge a declaration in several branches and act on the judgement once:
//
//	rejected := ""
//	if <length-of> { rejected = "..." } else if _, exists := names[n]; exists { rejected = "duplicate " + n }
//	if rejected != "" { report(rejected); continue }
//	names[n] = f
//
// The control-flow graph joins the branches before the one report site, so neither "the insertion is only reached over the
// not-present edge" nor "the present edge reaches the diagnostic" holds for plain dominance - they hold for the paths that can be
// executed: the join carries a local variable whose value on each incoming edge is known (a constant, a non-empty string, a
// non-nil pointer), and the later branch on that variable can only go one way for each of them.
//
// verdictFlow follows such variables: the phis of a function that a branch condition tests against a constant. A path is described
// by the block it is in and, for every such phi, the incoming edge over which its block was entered last. A branch whose condition
// is decided by that is followed in one direction only. Everything that is not known stays two-way: the walk visits a superset of
// the executable paths, so a dominance that it establishes holds.

type verdictVars struct {
	phis    []*ssa.Phi
	idx     map[*ssa.Phi]int
	byBlock map[*ssa.BasicBlock][]int
	local   []bool // tested only in the block that defines it: its record is dropped on leaving the block
}

var verdictVarsCache = map[*ssa.Function]*verdictVars{}

const maxVerdictVars = 24

// condPhi: the phi a condition tests (`p`, `!p`, `p == c`, `p != c`), nil when the condition is of another shape.
func condPhi(cond ssa.Value) *ssa.Phi {
	c := cond
	for {
		if u, ok := c.(*ssa.UnOp); ok && u.Op == token.NOT {
			c = u.X
			continue
		}
		break
	}
	switch x := c.(type) {
	case *ssa.Phi:
		return x
	case *ssa.BinOp:
		if x.Op != token.EQL && x.Op != token.NEQ {
			return nil
		}
		if p, ok := x.X.(*ssa.Phi); ok {
			if _, isC := x.Y.(*ssa.Const); isC {
				return p
			}
		}
		if p, ok := x.Y.(*ssa.Phi); ok {
			if _, isC := x.X.(*ssa.Const); isC {
				return p
			}
		}
	}
	return nil
}

func verdictVarsOf(fn *ssa.Function) *verdictVars {
	if vv, ok := verdictVarsCache[fn]; ok {
		return vv
	}
	vv := &verdictVars{idx: map[*ssa.Phi]int{}, byBlock: map[*ssa.BasicBlock][]int{}}
	verdictVarsCache[fn] = vv
	for _, b := range fn.Blocks {
		cond := branchCond(b)
		if cond == nil {
			continue
		}
		p := condPhi(cond)
		if p == nil {
			continue
		}
		i, seen := vv.idx[p]
		if !seen {
			if len(vv.phis) >= maxVerdictVars {
				continue
			}
			i = len(vv.phis)
			vv.idx[p] = i
			vv.phis = append(vv.phis, p)
			vv.local = append(vv.local, true)
			vv.byBlock[p.Block()] = append(vv.byBlock[p.Block()], i)
		}
		if p.Block() != b {
			vv.local[i] = false
		}
	}
	return vv
}

// nonEmptyString: v is a string that cannot be empty (a non-empty constant, or a concatenation with one).
func nonEmptyString(v ssa.Value, depth int) bool {
	if depth > 6 {
		return false
	}
	if s, ok := constString(v); ok {
		return s != ""
	}
	if bo, ok := v.(*ssa.BinOp); ok && bo.Op == token.ADD {
		return nonEmptyString(bo.X, depth+1) || nonEmptyString(bo.Y, depth+1)
	}
	return false
}

// freshNonNil: v is a value that was just made (an allocation, a boxed value, a function).
func freshNonNil(v ssa.Value) bool {
	switch stripIdentity(v).(type) {
	case *ssa.Alloc, *ssa.MakeInterface, *ssa.MakeMap, *ssa.MakeSlice, *ssa.MakeClosure, *ssa.MakeChan, *ssa.Function:
		return true
	}
	return false
}

// equalsConst: is the (non-phi) value v equal to the constant c? known is false when that cannot be told.
func equalsConst(v ssa.Value, c *ssa.Const) (eq, known bool) {
	if vc, ok := v.(*ssa.Const); ok {
		if vc.Value == nil || c.Value == nil {
			if vc.Value == nil && c.Value == nil {
				return true, true
			}
			return false, false
		}
		if vc.Value.Kind() != c.Value.Kind() {
			return false, false
		}
		return constant.Compare(vc.Value, token.EQL, c.Value), true
	}
	if s, ok := constString(c); ok && s == "" && nonEmptyString(v, 0) {
		return false, true
	}
	if isNilConst(c) && nilableType(c.Type()) && freshNonNil(v) {
		return false, true
	}
	return false, false
}

// decide: the value of the branch condition of a block for the path described by st; known is false when it can go both ways.
func (vv *verdictVars) decide(cond ssa.Value, st []int8) (val, known bool) {
	neg := false
	c := cond
	for {
		if u, ok := c.(*ssa.UnOp); ok && u.Op == token.NOT {
			neg = !neg
			c = u.X
			continue
		}
		break
	}
	edgeOf := func(p *ssa.Phi) ssa.Value {
		i, ok := vv.idx[p]
		if !ok || st[i] < 0 || int(st[i]) >= len(p.Edges) {
			return nil
		}
		e := p.Edges[st[i]]
		if _, nested := e.(*ssa.Phi); nested {
			return nil
		}
		return e
	}
	switch x := c.(type) {
	case *ssa.Phi:
		e := edgeOf(x)
		if e == nil {
			return false, false
		}
		b, ok := constBoolValue(e)
		if !ok {
			return false, false
		}
		return b != neg, true
	case *ssa.BinOp:
		if x.Op != token.EQL && x.Op != token.NEQ {
			return false, false
		}
		var p *ssa.Phi
		var k *ssa.Const
		if pp, ok := x.X.(*ssa.Phi); ok {
			p = pp
			k, _ = x.Y.(*ssa.Const)
		} else if pp, ok := x.Y.(*ssa.Phi); ok {
			p = pp
			k, _ = x.X.(*ssa.Const)
		}
		if p == nil || k == nil {
			return false, false
		}
		e := edgeOf(p)
		if e == nil {
			return false, false
		}
		eq, ok := equalsConst(e, k)
		if !ok {
			return false, false
		}
		v := eq
		if x.Op == token.NEQ {
			v = !eq
		}
		return v != neg, true
	}
	return false, false
}

// enter: the path description after entering blk from pred.
func (vv *verdictVars) enter(st []int8, pred, blk *ssa.BasicBlock) []int8 {
	is := vv.byBlock[blk]
	if len(is) == 0 {
		return st
	}
	out := append([]int8(nil), st...)
	pi, n := -1, 0
	for i, p := range blk.Preds {
		if p == pred {
			pi = i
			n++
		}
	}
	if n != 1 || pi > 120 {
		pi = -1
	}
	for _, i := range is {
		out[i] = int8(pi)
	}
	return out
}

// leave: the successors of blk that the path can take, with the description it carries on.
func (vv *verdictVars) leave(st []int8, blk *ssa.BasicBlock) (succs []int, carry []int8) {
	for i := range blk.Succs {
		succs = append(succs, i)
	}
	if cond := branchCond(blk); cond != nil && len(blk.Succs) == 2 {
		if val, known := vv.decide(cond, st); known {
			if val {
				succs = []int{0}
			} else {
				succs = []int{1}
			}
		}
	}
	carry = st
	for _, i := range vv.byBlock[blk] {
		if vv.local[i] && st[i] >= 0 {
			if &carry[0] == &st[0] {
				carry = append([]int8(nil), st...)
			}
			carry[i] = -1
		}
	}
	return succs, carry
}

func (vv *verdictVars) fresh() []int8 {
	st := make([]int8, len(vv.phis)+1)
	for i := range st {
		st[i] = -1
	}
	return st
}

type vfState struct {
	b  *ssa.BasicBlock
	st string
}

type edgeKey struct {
	from *ssa.BasicBlock
	succ int
}

var avoidReachCache = map[edgeKey]map[*ssa.BasicBlock]bool{}

// edgeDominatesV: edgeDominates over the paths that can be executed with respect to the function's verdict variables: every such
// path from the entry to blk passes through the edge from -> from.Succs[succ].
func edgeDominatesV(from *ssa.BasicBlock, succ int, blk *ssa.BasicBlock) bool {
	if edgeDominates(from, succ, blk) {
		return true
	}
	if succ >= len(from.Succs) || (len(from.Succs) == 2 && from.Succs[0] == from.Succs[1]) {
		return false
	}
	fn := from.Parent()
	vv := verdictVarsOf(fn)
	if len(vv.phis) == 0 {
		return false
	}
	k := edgeKey{from, succ}
	reach, ok := avoidReachCache[k]
	if !ok {
		reach = map[*ssa.BasicBlock]bool{}
		avoidReachCache[k] = reach
		type item struct {
			b  *ssa.BasicBlock
			st []int8
		}
		seen := map[vfState]bool{}
		stack := []item{{fn.Blocks[0], vv.fresh()}}
		for len(stack) > 0 {
			it := stack[len(stack)-1]
			stack = stack[:len(stack)-1]
			key := vfState{it.b, string(int8Bytes(it.st))}
			if seen[key] {
				continue
			}
			seen[key] = true
			reach[it.b] = true
			if noReturnBlock(it.b) {
				continue
			}
			succs, carry := vv.leave(it.st, it.b)
			for _, i := range succs {
				if it.b == from && i == succ {
					continue
				}
				s := it.b.Succs[i]
				stack = append(stack, item{s, vv.enter(carry, it.b, s)})
			}
		}
	}
	return !reach[blk]
}

func int8Bytes(st []int8) []byte {
	out := make([]byte, len(st))
	for i, v := range st {
		out[i] = byte(v)
	}
	return out
}

// edgeReports: the diagnostic calls that the edge from -> from.Succs[succ] leads to: those in blocks that the edge dominates
// and, when there is none, those that every executable path over the edge meets before it leaves the function or starts the next
// round of the loop that holds the test (the judgement is kept in a verdict variable and reported at one later site). nil when some
// path over the edge reports nothing.
func edgeReports(from *ssa.BasicBlock, succ int) []ssa.CallInstruction {
	if succ >= len(from.Succs) {
		return nil
	}
	fn := from.Parent()
	var out []ssa.CallInstruction
	for _, bb := range fn.Blocks {
		if !edgeDominates(from, succ, bb) {
			continue
		}
		for _, ins := range bb.Instrs {
			if isAddSyntaxError(ins) {
				out = append(out, ins.(ssa.CallInstruction))
			}
		}
	}
	if len(out) > 0 {
		return out
	}
	if len(from.Succs) == 2 && from.Succs[0] == from.Succs[1] {
		return nil
	}
	vv := verdictVarsOf(fn)
	if len(vv.phis) == 0 {
		return nil
	}
	type item struct {
		b  *ssa.BasicBlock
		st []int8
	}
	seen := map[vfState]bool{}
	first := from.Succs[succ]
	_, carry := vv.leave(vv.fresh(), from)
	stack := []item{{first, vv.enter(carry, from, first)}}
	for len(stack) > 0 {
		it := stack[len(stack)-1]
		stack = stack[:len(stack)-1]
		key := vfState{it.b, string(int8Bytes(it.st))}
		if seen[key] {
			continue
		}
		seen[key] = true
		reported := false
		for _, ins := range it.b.Instrs {
			if isAddSyntaxError(ins) {
				out = append(out, ins.(ssa.CallInstruction))
				reported = true
			}
		}
		if reported || noReturnBlock(it.b) {
			continue
		}
		if len(it.b.Succs) == 0 {
			return nil // the function is left without a report
		}
		succs, carry := vv.leave(it.st, it.b)
		for _, i := range succs {
			s := it.b.Succs[i]
			if s.Dominates(from) && s.Dominates(it.b) && s != first {
				return nil // next round of the loop around the test (or the test is met again) without a report
			}
			stack = append(stack, item{s, vv.enter(carry, it.b, s)})
		}
	}
	return out
}
