package main

// */tables-complete-before-use: phase order of the model builder.
//
// The grammar lets MetaData blocks, option blocks and packets appear in any order. The model builder therefore fills each of the
// model's tables (BinaryModel's map members: MetaData entries, packets, options ...) completely before anything consults it -
// today by walking all MetaData blocks, then all option blocks, then all packets, and by resolving packet references only after
// the last packet was added. A builder that consults a table while it is still being filled classifies a declaration by what
// happens to stand above it in the file: `Price px,` is a MetaData-typed field below the MetaData block and an unknown packet
// above it (C08: meaning depends on layout; C12: a well-formed DSL is rejected).
//
// Decided per parse-phase function F and table M:
//   W-site  a call (or instruction) of F whose callee closure updates M;
//   R-site  a call of F whose callee closure consults M (lookup, range, len) and does not update it, and whose result does not
//           flow into an argument of a W-site (a read whose result *is what gets stored* - an alias entry defined in terms of an
//           earlier entry - belongs to the filling of the table);
//   demand  no control-flow path leads from an R-site to a W-site (loop back edges included).
// Callees are resolved statically, through closures and through the generated Accept dispatch (ctx.Accept(v) -> v.Visit<Rule>(ctx)).

import (
	"fmt"
	"go/constant"
	"go/token"
	"go/types"
	"sort"
	"strings"

	"golang.org/x/tools/go/ssa"
)

type tableUse struct {
	reads, writes map[string]bool
}

func modelTableOf(v ssa.Value) string {
	// a value loaded from (or the address of) a map-typed member of BinaryModel
	v = stripIdentity(v)
	if ld, ok := v.(*ssa.UnOp); ok && ld.Op == token.MUL {
		v = ld.X
	}
	fa, ok := v.(*ssa.FieldAddr)
	if !ok {
		return ""
	}
	tn, f, _, _ := fieldOf(fa)
	if tn != "BinaryModel" {
		return ""
	}
	p, ok := fa.Type().(*types.Pointer)
	if !ok {
		return ""
	}
	if _, isMap := p.Elem().Underlying().(*types.Map); !isMap {
		return ""
	}
	return f
}

func (w *World) phaseCallees(c ssa.CallInstruction) []*ssa.Function {
	cc := c.Common()
	if f := cc.StaticCallee(); f != nil {
		if f.Name() == "Accept" && f.Pkg == w.Grammar && len(cc.Args) == 2 {
			if ctx := grammarCtxName(cc.Args[0].Type()); ctx != "" {
				if n := namedOf(stripIdentity(cc.Args[1]).Type()); n != nil {
					if m := lookupFunc(w.Parser, n.Obj().Name(), "Visit"+strings.TrimSuffix(ctx, "Context")); m != nil {
						return []*ssa.Function{m}
					}
				}
			}
		}
		return []*ssa.Function{f}
	}
	if cc.IsInvoke() {
		if cc.Method.Name() == "Accept" && len(cc.Args) == 1 {
			if ctx := grammarCtxName(cc.Value.Type()); ctx != "" {
				if n := namedOf(stripIdentity(cc.Args[0]).Type()); n != nil {
					if m := lookupFunc(w.Parser, n.Obj().Name(), "Visit"+strings.TrimSuffix(ctx, "Context")); m != nil {
						return []*ssa.Function{m}
					}
				}
			}
		}
		return nil
	}
	if t := closureTarget(cc.Value, 0); t != nil {
		return []*ssa.Function{t}
	}
	return nil
}

func phaseTables(w *World, r *Report, prop string) {
	rule := prop + "/tables-complete-before-use"
	fns := parsePhaseFuncs(w)
	in := map[*ssa.Function]bool{}
	for _, f := range fns {
		in[f] = true
		for _, a := range f.AnonFuncs {
			if !in[a] {
				in[a] = true
				fns = append(fns, a)
			}
		}
	}
	use := map[*ssa.Function]*tableUse{}
	tables := map[string]bool{}
	for _, fn := range fns {
		u := &tableUse{map[string]bool{}, map[string]bool{}}
		use[fn] = u
		forEachInstr(fn, func(_ *ssa.BasicBlock, ins ssa.Instruction) {
			switch x := ins.(type) {
			case *ssa.MapUpdate:
				if t := modelTableOf(x.Map); t != "" {
					u.writes[t] = true
					tables[t] = true
				}
			case *ssa.Lookup:
				if t := modelTableOf(x.X); t != "" {
					u.reads[t] = true
					tables[t] = true
				}
			case *ssa.Range:
				if t := modelTableOf(x.X); t != "" {
					u.reads[t] = true
					tables[t] = true
				}
			case *ssa.Store:
				// replacing the table wholesale
				if fa, ok := x.Addr.(*ssa.FieldAddr); ok {
					if t := modelTableOf(fa); t != "" && fn.Name() != "NewBinaryModel" {
						if _, fresh := stripIdentity(x.Val).(*ssa.MakeMap); !fresh || !isConstructor(fn) {
							u.writes[t] = true
							tables[t] = true
						}
					}
				}
			case ssa.CallInstruction:
				if b, ok := x.Common().Value.(*ssa.Builtin); ok && len(x.Common().Args) > 0 {
					if t := modelTableOf(x.Common().Args[0]); t != "" {
						switch b.Name() {
						case "delete", "clear":
							u.writes[t] = true
							tables[t] = true
						case "len":
							u.reads[t] = true
							tables[t] = true
						}
					}
				}
			}
		})
	}
	// closure
	for changed := true; changed; {
		changed = false
		for _, fn := range fns {
			u := use[fn]
			forEachInstr(fn, func(_ *ssa.BasicBlock, ins ssa.Instruction) {
				c, ok := ins.(ssa.CallInstruction)
				if !ok {
					return
				}
				for _, g := range w.phaseCallees(c) {
					gu := use[g]
					if gu == nil || g == fn {
						continue
					}
					for t := range gu.reads {
						if !u.reads[t] {
							u.reads[t] = true
							changed = true
						}
					}
					for t := range gu.writes {
						if !u.writes[t] {
							u.writes[t] = true
							changed = true
						}
					}
				}
			})
		}
	}
	// closures made in a function count for their parent too when they are called there (handled by phaseCallees); a closure that is
	// only stored is not followed.
	type site struct {
		ins    ssa.Instruction
		r, w   map[string]bool
		callee string
	}
	nSites := 0
	sort.Slice(fns, func(i, j int) bool { return fnKey(fns[i]) < fnKey(fns[j]) })
	for _, t := range sortedBoolKeys(tables) {
		judged := 0
		for _, fn := range fns {
			var sites []site
			forEachInstr(fn, func(_ *ssa.BasicBlock, ins ssa.Instruction) {
				switch x := ins.(type) {
				case *ssa.MapUpdate:
					if modelTableOf(x.Map) == t {
						sites = append(sites, site{ins, nil, map[string]bool{t: true}, "map update"})
					}
				case ssa.CallInstruction:
					rs, ws := map[string]bool{}, map[string]bool{}
					name := ""
					for _, g := range w.phaseCallees(x) {
						if gu := use[g]; gu != nil {
							if gu.reads[t] {
								rs[t] = true
							}
							if gu.writes[t] {
								ws[t] = true
							}
							name = fnKey(g)
						}
					}
					if b, ok := x.Common().Value.(*ssa.Builtin); ok && len(x.Common().Args) > 0 && modelTableOf(x.Common().Args[0]) == t && (b.Name() == "delete" || b.Name() == "clear") {
						ws[t] = true
						name = b.Name()
					}
					if rs[t] || ws[t] {
						sites = append(sites, site{ins, rs, ws, name})
					}
				}
			})
			var wsites, rsites []site
			for _, s := range sites {
				if s.w[t] {
					wsites = append(wsites, s)
				} else if s.r[t] {
					rsites = append(rsites, s)
				}
			}
			if len(wsites) == 0 || len(rsites) == 0 {
				continue
			}
			nSites += len(wsites) + len(rsites)
			var winstrs []ssa.Instruction
			for _, ws := range wsites {
				winstrs = append(winstrs, ws.ins)
			}
			for _, rs := range rsites {
				// a read whose result is what a W-site stores belongs to the filling
				if v, ok := rs.ins.(ssa.Value); ok && flowsToArgOf(v, winstrs) {
					continue
				}
				judged++
				key := fmt.Sprintf("%s: %s is complete before %s consults it", fnKey(fn), t, rs.callee)
				var hit *site
				for i := range wsites {
					if instrReaches(rs.ins, wsites[i].ins) {
						// the read is the duplicate test of this very insertion (made by a checking helper whose verdict decides it)
						if readIsGuardOfInsertion(rs.ins, wsites[i].ins, t, func(g *ssa.Function) bool { return use[g] != nil && use[g].reads[t] }, w) {
							continue
						}
						hit = &wsites[i]
						break
					}
				}
				if hit == nil {
					r.pass(rule, key, w.instrPos(rs.ins), "")
				} else {
					r.fail(rule, key, w.instrPos(rs.ins), fmt.Sprintf("%s consults the model's %s, and on some path %s (at %s) adds to that table afterwards: what a declaration means then depends on whether it is written above or below the entries it refers to", rs.callee, t, hit.callee, w.instrPos(hit.ins)))
				}
			}
		}
		_ = judged
	}
	r.note("%s: tables %s; call sites classified: %d", rule, strings.Join(sortedBoolKeys(tables), ","), nSites)
	if len(tables) == 0 {
		r.fail(rule, "model tables found", "internal/model", "no map-typed member of BinaryModel is read or written by the parse phase")
	}
}

func isConstructor(fn *ssa.Function) bool { return strings.HasPrefix(fn.Name(), "New") }

// instrReaches: can control flow from a (after it executed) reach b?
func instrReaches(a, b ssa.Instruction) bool {
	ab, bb := a.Block(), b.Block()
	if ab == bb {
		ia, ib := -1, -1
		for i, ins := range ab.Instrs {
			if ins == a {
				ia = i
			}
			if ins == b {
				ib = i
			}
		}
		if ia < ib {
			return true
		}
	}
	seen := map[*ssa.BasicBlock]bool{}
	stack := append([]*ssa.BasicBlock(nil), ab.Succs...)
	for len(stack) > 0 {
		x := stack[len(stack)-1]
		stack = stack[:len(stack)-1]
		if seen[x] {
			continue
		}
		seen[x] = true
		if x == bb {
			return true
		}
		if noReturnBlock(x) {
			continue
		}
		stack = append(stack, x.Succs...)
	}
	return false
}

// flowsToArgOf: does v (through assertions, extracts, phis, interface boxing, local variables and field reads) reach an argument
// of one of the given call instructions?
func flowsToArgOf(v ssa.Value, targets []ssa.Instruction) bool {
	tset := map[ssa.Instruction]bool{}
	for _, t := range targets {
		tset[t] = true
	}
	seen := map[ssa.Value]bool{}
	var work []ssa.Value
	push := func(x ssa.Value) {
		if x != nil && !seen[x] {
			seen[x] = true
			work = append(work, x)
		}
	}
	push(v)
	for len(work) > 0 {
		x := work[len(work)-1]
		work = work[:len(work)-1]
		refs := x.Referrers()
		if refs == nil {
			continue
		}
		for _, ref := range *refs {
			if tset[ref] {
				if c, ok := ref.(ssa.CallInstruction); ok {
					for _, a := range c.Common().Args {
						if a == x {
							return true
						}
					}
				}
				if mu, ok := ref.(*ssa.MapUpdate); ok && (mu.Value == x || mu.Key == x) {
					return true
				}
			}
			switch y := ref.(type) {
			case *ssa.TypeAssert, *ssa.Extract, *ssa.Phi, *ssa.MakeInterface, *ssa.ChangeInterface, *ssa.ChangeType, *ssa.Convert, *ssa.Field:
				push(y.(ssa.Value))
			case *ssa.FieldAddr:
				push(y)
			case *ssa.UnOp:
				if y.Op == token.MUL {
					push(y)
				}
			case *ssa.Store:
				if y.Val == x {
					if al, ok := addrRoot(y.Addr).(*ssa.Alloc); ok {
						push(al)
					}
				}
			}
		}
	}
	return false
}

// C12/position-recorded: a diagnostic that reports "the line of the offending declaration" through a position kept in the model
// (`Line: f.Line`) is only as good as the code that filled that position in. For every diagnostic whose line is read from
// Field.Line, every Field the parse phase constructs with an attribute of the kind the diagnostic is raised for (the type switch /
// assertion on f.Attr that dominates it; any kind if there is none) must have its Line assigned from a non-constant value.
func c12PositionRecorded(w *World, r *Report) {
	const rule = "C12/position-recorded"
	fns := parsePhaseFuncs(w)
	type alloc struct {
		al      *ssa.Alloc
		fn      *ssa.Function
		attr    string
		hasLine bool
	}
	var allocs []alloc
	for _, fn := range fns {
		forEachInstr(fn, func(_ *ssa.BasicBlock, ins ssa.Instruction) {
			al, ok := ins.(*ssa.Alloc)
			if !ok || !al.Heap || modelTypeName(al.Type().(*types.Pointer).Elem()) != "Field" || al.Referrers() == nil {
				return
			}
			a := alloc{al: al, fn: fn}
			for _, ref := range *al.Referrers() {
				fa, ok := ref.(*ssa.FieldAddr)
				if !ok || fa.Referrers() == nil {
					continue
				}
				_, fname, _, _ := fieldOf(fa)
				for _, r2 := range *fa.Referrers() {
					st, ok := r2.(*ssa.Store)
					if !ok || st.Addr != ssa.Value(fa) {
						continue
					}
					switch fname {
					case "Attr":
						if mi, ok := st.Val.(*ssa.MakeInterface); ok {
							a.attr = modelTypeName(mi.X.Type())
						} else if _, isConst := st.Val.(*ssa.Const); !isConst {
							a.attr = "?"
						}
					case "Line":
						if _, isConst := st.Val.(*ssa.Const); !isConst {
							a.hasLine = true
						}
					}
				}
			}
			allocs = append(allocs, a)
		})
	}
	n := 0
	seenKind := map[string]bool{}
	for _, fn := range fns {
		forEachInstr(fn, func(b *ssa.BasicBlock, ins ssa.Instruction) {
			// the line of a diagnostic: stored into the record here, or handed to the routine that builds the record (a reporter
			// made for a position)
			holder := diagLineHolder(ins)
			if holder == nil {
				return
			}
			// the kind under which the diagnostic is raised: a checked assertion on holder.Attr that dominates the block - here or,
			// when the field is a parameter, at every call site
			var kindAt func(fn *ssa.Function, holder ssa.Value, b *ssa.BasicBlock, depth int) string
			kindAt = func(fn *ssa.Function, holder ssa.Value, b *ssa.BasicBlock, depth int) string {
				kind := "*"
				forEachInstr(fn, func(b2 *ssa.BasicBlock, i2 ssa.Instruction) {
					ta, ok := i2.(*ssa.TypeAssert)
					if !ok || !ta.CommaOk {
						return
					}
					l2, ok := stripIdentity(ta.X).(*ssa.UnOp)
					if !ok || l2.Op != token.MUL {
						return
					}
					afa, ok := l2.X.(*ssa.FieldAddr)
					if !ok {
						return
					}
					if tn, f, _, _ := fieldOf(afa); tn != "Field" || f != "Attr" || stripIdentity(afa.X) != holder {
						return
					}
					if ta.Referrers() == nil {
						return
					}
					for _, ref := range *ta.Referrers() {
						ex, ok := ref.(*ssa.Extract)
						if !ok || ex.Index != 1 || ex.Referrers() == nil {
							continue
						}
						for _, r3 := range *ex.Referrers() {
							if iff, ok := r3.(*ssa.If); ok && edgeDominates(iff.Block(), 0, b) {
								kind = modelTypeName(ta.AssertedType)
							}
						}
					}
				})
				if kind != "*" || depth > 2 {
					return kind
				}
				p, isParam := holder.(*ssa.Parameter)
				if !isParam {
					return kind
				}
				idx := -1
				for i, q := range fn.Params {
					if q == p {
						idx = i
					}
				}
				agreed := ""
				for _, g := range fns {
					forEachInstr(g, func(b3 *ssa.BasicBlock, i3 ssa.Instruction) {
						c, ok := i3.(ssa.CallInstruction)
						if !ok || c.Common().StaticCallee() != fn || idx < 0 || idx >= len(c.Common().Args) {
							return
						}
						k := kindAt(g, stripIdentity(c.Common().Args[idx]), b3, depth+1)
						switch {
						case agreed == "":
							agreed = k
						case agreed != k:
							agreed = "*"
						}
					})
				}
				if agreed != "" {
					return agreed
				}
				return kind
			}
			kind := kindAt(fn, holder, b, 0)
			if seenKind[kind] {
				return
			}
			seenKind[kind] = true
			n++
			key := fmt.Sprintf("fields of kind %s are constructed with the line their diagnostics report", kind)
			var missing []string
			for _, a := range allocs {
				if a.attr == "" {
					continue // a stand-in that only carries a name
				}
				if kind != "*" && a.attr != kind && a.attr != "?" {
					continue
				}
				if !a.hasLine {
					missing = append(missing, fnKey(a.fn)+" ("+w.instrPos(a.al)+")")
				}
			}
			if len(missing) == 0 {
				r.pass(rule, key, w.instrPos(ins), "")
			} else {
				sort.Strings(missing)
				r.fail(rule, key, w.instrPos(ins), "the diagnostic takes its line from Field.Line, but "+strings.Join(uniqStrings(missing), ", ")+" construct(s) such a field without assigning Line: the offence is reported at line 0")
			}
		})
	}
	r.note("%s: %d Field constructions, %d diagnostics read their line from Field.Line", rule, len(allocs), n)
	// positions kept in a side table: `Line: fieldLine[f.Name]` needs fieldLine to be filled from token positions
	cnt := map[string]int{}
	for _, fn := range fns {
		forEachInstr(fn, func(b *ssa.BasicBlock, ins ssa.Instruction) {
			st, ok := ins.(*ssa.Store)
			if !ok {
				return
			}
			fa, ok := st.Addr.(*ssa.FieldAddr)
			if !ok {
				return
			}
			tn, member, _, _ := fieldOf(fa)
			if tn != "SyntaxError" || (member != "Line" && member != "Column") {
				return
			}
			lk, ok := stripIdentity(st.Val).(*ssa.Lookup)
			if !ok || lk.CommaOk {
				return
			}
			if _, isMap := lk.X.Type().Underlying().(*types.Map); !isMap {
				return
			}
			root := valueRoot(lk.X)
			skey := structFieldKey(lk.X)
			// a table handed in by the callers: the maps they pass
			roots := map[ssa.Value]bool{root: true}
			if p, isParam := root.(*ssa.Parameter); isParam {
				pidx := -1
				for i, q := range fn.Params {
					if q == p {
						pidx = i
					}
				}
				for _, g := range fns {
					forEachInstr(g, func(_ *ssa.BasicBlock, i2 ssa.Instruction) {
						if c, ok := i2.(ssa.CallInstruction); ok && c.Common().StaticCallee() == fn && pidx >= 0 && pidx < len(c.Common().Args) {
							roots[valueRoot(c.Common().Args[pidx])] = true
						}
					})
				}
			}
			filled := false
			// the maps themselves (make(map..) sites) the looked-up table can be: through local cells, captured variables, parameters
			lkMaps := makeMapOrigins(lk.X, 0, map[ssa.Value]bool{})
			for _, g := range fns {
				forEachInstr(g, func(_ *ssa.BasicBlock, i2 ssa.Instruction) {
					mu, ok := i2.(*ssa.MapUpdate)
					if !ok {
						return
					}
					same := false
					if mr := valueRoot(mu.Map); roots[mr] {
						if _, isMk := mr.(*ssa.MakeMap); isMk {
							same = true
						}
					}
					if !same && len(lkMaps) > 0 {
						for mk := range makeMapOrigins(mu.Map, 0, map[ssa.Value]bool{}) {
							if lkMaps[mk] {
								same = true
							}
						}
					}
					if skey != "" && structFieldKey(mu.Map) == skey {
						same = true
					}
					if !same {
						return
					}
					if derivesFromPosition(mu.Value, 0) {
						filled = true
					}
				})
			}
			cnt[fnKey(fn)+member]++
			key := fmt.Sprintf("%s: the table a diagnostic takes its %s from is filled from token positions #%d", fnKey(fn), strings.ToLower(member), cnt[fnKey(fn)+member])
			if filled {
				r.pass(rule, key, w.instrPos(ins), "")
			} else {
				r.fail(rule, key, w.instrPos(ins), "the diagnostic's "+strings.ToLower(member)+" is looked up in a side table that no code fills from a token position: the offence is reported at "+strings.ToLower(member)+" 0")
			}
		})
	}
}

// derivesFromPosition: v is (computed from) a GetLine / GetColumn / GetCharPositionInLine result.
func derivesFromPosition(v ssa.Value, depth int) bool {
	if depth > 6 || v == nil {
		return false
	}
	switch x := stripIdentity(v).(type) {
	case *ssa.Call:
		name := ""
		if x.Call.IsInvoke() {
			name = x.Call.Method.Name()
		} else if f := x.Call.StaticCallee(); f != nil {
			name = f.Name()
		}
		return name == "GetLine" || name == "GetColumn" || name == "GetCharPositionInLine"
	case *ssa.Phi:
		for _, e := range x.Edges {
			if derivesFromPosition(e, depth+1) {
				return true
			}
		}
	case *ssa.BinOp:
		return derivesFromPosition(x.X, depth+1) || derivesFromPosition(x.Y, depth+1)
	case *ssa.Convert:
		return derivesFromPosition(x.X, depth+1)
	case *ssa.Parameter:
		return isInt(x.Type()) // a position handed in: judged where it was taken
	case *ssa.UnOp:
		if x.Op == token.MUL {
			if al, ok := x.X.(*ssa.Alloc); ok && al.Referrers() != nil {
				for _, ref := range *al.Referrers() {
					if st, ok := ref.(*ssa.Store); ok && st.Addr == ssa.Value(al) && derivesFromPosition(st.Val, depth+1) {
						return true
					}
				}
			}
		}
	}
	return false
}

func isInt(t types.Type) bool {
	b, ok := t.Underlying().(*types.Basic)
	return ok && b.Info()&types.IsInteger != 0
}

// */whole-input: everything the author wrote is parsed.
//
// ANTLR stops a start rule where it can no longer match; unless the rule ends in EOF (or the caller checks that the next token is
// EOF) the rest of the input is dropped without a word: `packet A {..} garbage packet B {..}` formats to packet A alone - and
// `format -f` writes that back over the file - and compiles to A's code with exit status 0. Decided per entry function that
// calls a start-rule method of the generated parser:
//   the grammar's start rule ends in EOF in every alternative, or
//   between that call and every use of the tree (Accept) lies a comparison of the parser's current / look-ahead token type with
//   antlr.TokenEOF (in the function or in a helper handed the parser) whose "not EOF" edge reaches the recording of a syntax error
//   (an append to the listener's errors, AddSyntaxError, or a non-nil error return).
func wholeInputRule(w *World, r *Report, prop string) {
	rule := prop + "/whole-input"
	ruleOf := map[string]*PRule{}
	for _, pr := range w.G4.PRules {
		ruleOf[title(pr.Name)] = pr
	}
	endsInEOF := func(pr *PRule) bool {
		if len(pr.Alts) == 0 {
			return false
		}
		for _, a := range pr.Alts {
			if len(a.Elems) == 0 {
				return false
			}
			last := a.Elems[len(a.Elems)-1]
			if last.Kind != ekToken || last.Name != "EOF" || last.Suffix != 0 {
				return false
			}
		}
		return true
	}
	// functions that test the current token against EOF and record an error otherwise
	isEOFConst := func(v ssa.Value) bool {
		k, ok := v.(*ssa.Const)
		if !ok || k.Value == nil {
			return false
		}
		n, ok := constant.Int64Val(constant.ToInt(k.Value))
		return ok && n == -1
	}
	tokenTypeOfCurrent := func(v ssa.Value) bool {
		c, ok := stripIdentity(v).(*ssa.Call)
		if !ok {
			return false
		}
		name := ""
		var recv ssa.Value
		if c.Call.IsInvoke() {
			name, recv = c.Call.Method.Name(), c.Call.Value
		} else if f := c.Call.StaticCallee(); f != nil && len(c.Call.Args) > 0 {
			name, recv = f.Name(), c.Call.Args[0]
		}
		switch name {
		case "LA":
			return true
		case "GetTokenType":
			if c2, ok := stripIdentity(recv).(*ssa.Call); ok {
				n2 := ""
				if c2.Call.IsInvoke() {
					n2 = c2.Call.Method.Name()
				} else if f := c2.Call.StaticCallee(); f != nil {
					n2 = f.Name()
				}
				return n2 == "GetCurrentToken" || n2 == "LT"
			}
		}
		return false
	}
	isRecording := func(ins ssa.Instruction) bool {
			switch x := ins.(type) {
			case ssa.CallInstruction:
				if f := x.Common().StaticCallee(); f != nil {
					if f.Name() == "SyntaxError" || f.Name() == "AddSyntaxError" || f.String() == "fmt.Errorf" || f.String() == "errors.New" {
						return true
					}
					if recordsSyntaxError(w, f, 0) {
						return true
					}
				}
				if x.Common().IsInvoke() && x.Common().Method.Name() == "SyntaxError" {
					return true
				}
			case *ssa.Store:
				if fa, ok := x.Addr.(*ssa.FieldAddr); ok {
					if tn, f, _, _ := fieldOf(fa); tn == "SyntaxErrorListener" && f == "Errors" {
						return true
					}
				}
			}
			return false
	}
	recordsError := func(fn *ssa.Function, from *ssa.BasicBlock) bool {
		return blockReaches(from, isRecording)
	}
	eofCheckIn := func(fn *ssa.Function) (ssa.Instruction, bool) {
		var at ssa.Instruction
		for _, b := range fn.Blocks {
			cond := branchCond(b)
			if cond == nil {
				continue
			}
			val := true
			for {
				if u, ok := cond.(*ssa.UnOp); ok && u.Op == token.NOT {
					cond, val = u.X, !val
					continue
				}
				break
			}
			bo, ok := cond.(*ssa.BinOp)
			if !ok || (bo.Op != token.EQL && bo.Op != token.NEQ) {
				continue
			}
			var other ssa.Value
			if isEOFConst(bo.X) {
				other = bo.Y
			} else if isEOFConst(bo.Y) {
				other = bo.X
			} else {
				continue
			}
			if !tokenTypeOfCurrent(other) {
				continue
			}
			// successor on which the token is NOT EOF
			ne := 0
			if (bo.Op == token.EQL) == val {
				ne = 1
			}
			if recordsError(fn, b.Succs[ne]) && checkIsUnavoidable(fn, b, b.Succs[ne], isRecording) {
				at = b.Instrs[len(b.Instrs)-1]
			}
		}
		return at, at != nil
	}
	n := 0
	// entry points: parser-package functions that run a start rule in their unit and are not themselves helpers of another one
	var units []*parseUnit
	helper := map[*ssa.Function]bool{}
	for _, fn := range w.srcFuncs {
		if fn.Pkg != w.Parser || fn.Parent() != nil {
			continue
		}
		u := newParseUnit(w, fn)
		if !u.contains(fn, func(ins ssa.Instruction) bool { _, ok := u.isStartRuleCall(ins); return ok }, map[*ssa.Function]bool{}) {
			continue
		}
		units = append(units, u)
		for g := range u.fns {
			if g != fn {
				helper[g] = true
			}
		}
	}
	for _, u := range units {
		fn := u.entry
		if helper[fn] {
			continue // judged as part of the entry point that calls it
		}
		var pr *PRule
		var startIns ssa.Instruction
		for _, f := range u.funcs() {
			forEachInstr(f, func(_ *ssa.BasicBlock, ins ssa.Instruction) {
				if r2, ok := u.isStartRuleCall(ins); ok && pr == nil {
					pr, startIns = r2, ins
				}
			})
		}
		if pr == nil {
			continue
		}
		n++
		key := fmt.Sprintf("%s: input left over after rule '%s' is a syntax error", fnKey(fn), pr.Name)
		if endsInEOF(pr) {
			r.pass(rule, key, w.instrPos(startIns), "the grammar rule ends in EOF")
			continue
		}
		isStart := func(ins ssa.Instruction) bool { _, ok := u.isStartRuleCall(ins); return ok }
		isEOF := func(ins ssa.Instruction) bool {
			// the branch instruction of an EOF comparison whose not-EOF edge records an error
			if _, isIf := ins.(*ssa.If); !isIf {
				return false
			}
			at, ok := eofCheckIn(ins.Parent())
			return ok && at == ins
		}
		// every function of the unit that contains an EOF check counts through eofCheckIn; ExpectEndOfInput-like helpers outside the
		// unit's helper filter (methods of the listener) are unit members as well (parser package, no visitor receiver)
		hasEOF := u.contains(fn, isEOF, map[*ssa.Function]bool{})
		ordered := hasEOF && u.orderedBefore(fn, isStart, isEOF, 0) && u.orderedBefore(fn, isEOF, isAcceptCall, 0)
		if ordered {
			r.pass(rule, key, w.instrPos(startIns), "the current token is compared with EOF before the tree is used")
		} else {
			r.fail(rule, key, w.instrPos(startIns), fmt.Sprintf("grammar rule '%s' does not end in EOF and %s never checks that the parser stopped at the end of the input before the tree is used: whatever follows the last declaration the parser could match is silently dropped (formatting deletes it, compiling ignores it, exit status 0)", pr.Name, fn.Name()))
		}
	}
	if n == 0 {
		r.fail(rule, "start-rule calls found", "internal/parser", "no function of the parser package invokes a start rule of the generated parser")
	}
}

// checkIsUnavoidable: the end-of-input comparison in block b decides for every call of fn - b dominates every return of fn (no way
// out of the function in front of the comparison: `if tok is ';' { return }` ahead of it lets input behind a ';' go unread), and
// from the not-at-the-end successor no return is reached without passing a recording instruction.
func checkIsUnavoidable(fn *ssa.Function, b, notEOF *ssa.BasicBlock, isRecording func(ssa.Instruction) bool) bool {
	for _, rb := range fn.Blocks {
		if _, isRet := rb.Instrs[len(rb.Instrs)-1].(*ssa.Return); isRet && !b.Dominates(rb) {
			return false
		}
	}
	seen := map[*ssa.BasicBlock]bool{}
	var escapes func(x *ssa.BasicBlock) bool
	escapes = func(x *ssa.BasicBlock) bool {
		if seen[x] {
			return false
		}
		seen[x] = true
		for _, ins := range x.Instrs {
			if isRecording(ins) {
				return false
			}
			if _, isRet := ins.(*ssa.Return); isRet {
				return true
			}
		}
		for _, s := range x.Succs {
			if escapes(s) {
				return true
			}
		}
		return false
	}
	return !escapes(notEOF)
}

// */computed-fields-are-single: a length or checksum field is one number.
//
// No generator has an emission for "repeat" combined with a length-of or checksum attribute (the wire matrix treats those cells as
// not producible; the Go emitter falls into its "is not supported" marker line). The parse phase therefore has to make the
// combination impossible: wherever it turns an existing field into a length / checksum field (a store of a LengthFieldAttribute or
// CheckSumFieldAttribute into Field.Attr of a field it did not just construct with IsRepeat false), the store is dominated by
// the edge on which the field's IsRepeat is false.
func computedFieldsSingle(w *World, r *Report, prop string) {
	rule := prop + "/computed-fields-are-single"
	n := 0
	for _, fn := range parsePhaseFuncs(w) {
		cnt := 0
		forEachInstr(fn, func(b *ssa.BasicBlock, ins ssa.Instruction) {
			st, ok := ins.(*ssa.Store)
			if !ok {
				return
			}
			fa, ok := st.Addr.(*ssa.FieldAddr)
			if !ok {
				return
			}
			if tn, f, _, _ := fieldOf(fa); tn != "Field" || f != "Attr" {
				return
			}
			mi, ok := st.Val.(*ssa.MakeInterface)
			if !ok {
				return
			}
			kind := modelTypeName(mi.X.Type())
			if kind != "LengthFieldAttribute" && kind != "CheckSumFieldAttribute" {
				return
			}
			n++
			cnt++
			key := fmt.Sprintf("%s makes a %s #%d only of a field that is not repeated", fnKey(fn), kind, cnt)
			holder := stripIdentity(fa.X)
			if al, ok := holder.(*ssa.Alloc); ok && al.Referrers() != nil {
				// a freshly constructed field: IsRepeat must not be assigned anything but false
				bad := false
				for _, ref := range *al.Referrers() {
					f2, ok := ref.(*ssa.FieldAddr)
					if !ok || f2.Referrers() == nil {
						continue
					}
					if _, fname, _, _ := fieldOf(f2); fname != "IsRepeat" {
						continue
					}
					for _, r2 := range *f2.Referrers() {
						if s2, ok := r2.(*ssa.Store); ok && s2.Addr == ssa.Value(f2) {
							if k, ok := s2.Val.(*ssa.Const); !ok || k.Value == nil || constant.BoolVal(k.Value) {
								bad = true
							}
						}
					}
				}
				if bad {
					r.fail(rule, key, w.instrPos(st), "the field is constructed with an IsRepeat that may be true")
				} else {
					r.pass(rule, key, w.instrPos(st), "constructed with IsRepeat false")
				}
				return
			}
			// the field already is of this kind (a resolved attribute replaces the provisional one): nothing new is made
			already := false
			forEachInstr(fn, func(_ *ssa.BasicBlock, i2 ssa.Instruction) {
				ta, ok := i2.(*ssa.TypeAssert)
				if !ok || !ta.CommaOk || modelTypeName(ta.AssertedType) != kind || ta.Referrers() == nil {
					return
				}
				l2, ok := stripIdentity(ta.X).(*ssa.UnOp)
				if !ok || l2.Op != token.MUL {
					return
				}
				afa, ok := l2.X.(*ssa.FieldAddr)
				if !ok {
					return
				}
				if tn, fname, _, _ := fieldOf(afa); tn != "Field" || fname != "Attr" || !sameCellValue(afa.X, holder) {
					return
				}
				for _, ref := range *ta.Referrers() {
					if ex, ok := ref.(*ssa.Extract); ok && ex.Index == 1 && ex.Referrers() != nil {
						for _, r3 := range *ex.Referrers() {
							if iff, ok := r3.(*ssa.If); ok && edgeDominates(iff.Block(), 0, b) {
								already = true
							}
						}
					}
				}
			})
			if already {
				r.pass(rule, key, w.instrPos(st), "the field already is a "+kind)
				return
			}
			// an existing field: a dominating test of its IsRepeat
			guarded := false
			for _, bb := range fn.Blocks {
				cond := branchCond(bb)
				if cond == nil {
					continue
				}
				// the conditions of a short-circuit chain are separate branches; look at each
				val := true
				c := cond
				for {
					if u, ok := c.(*ssa.UnOp); ok && u.Op == token.NOT {
						c, val = u.X, !val
						continue
					}
					break
				}
				ld, ok := stripIdentity(c).(*ssa.UnOp)
				if !ok || ld.Op != token.MUL {
					continue
				}
				f3, ok := ld.X.(*ssa.FieldAddr)
				if !ok {
					continue
				}
				if tn, fname, _, _ := fieldOf(f3); tn != "Field" || fname != "IsRepeat" || !sameCellValue(f3.X, holder) {
					continue
				}
				// successor on which IsRepeat is false
				succ := 1
				if !val {
					succ = 0
				}
				if edgeDominates(bb, succ, b) {
					guarded = true
				}
			}
			if !guarded {
				// the test lives in a helper handed the field: `typ, ok := v.numericTypeOf(f, ..); if !ok {continue}` - every return of
				// the helper whose bool result can be true is dominated, inside the helper, by the !IsRepeat edge
				for _, bb := range fn.Blocks {
					cond := branchCond(bb)
					if cond == nil {
						continue
					}
					val := true
					c := cond
					for {
						if u, ok := c.(*ssa.UnOp); ok && u.Op == token.NOT {
							c, val = u.X, !val
							continue
						}
						break
					}
					var call *ssa.Call
					resIdx := 0
					switch x := c.(type) {
					case *ssa.Call:
						call = x
					case *ssa.Extract:
						if cc, ok := x.Tuple.(*ssa.Call); ok {
							call, resIdx = cc, x.Index
						}
					}
					if call == nil {
						continue
					}
					h := call.Call.StaticCallee()
					if h == nil || h.Blocks == nil || !w.isSubjectFunc(h) {
						continue
					}
					pidx := -1
					for i, a := range call.Call.Args {
						if sameCellValue(a, holder) && i < len(h.Params) {
							pidx = i
						}
					}
					if pidx < 0 {
						continue
					}
					succ := 0
					if !val {
						succ = 1
					}
					if !edgeDominates(bb, succ, b) {
						continue
					}
					// inside h: returns with result resIdx possibly true need !param.IsRepeat
					allOK, any := true, false
					for _, hb := range h.Blocks {
						ret, ok := hb.Instrs[len(hb.Instrs)-1].(*ssa.Return)
						if !ok || resIdx >= len(ret.Results) {
							continue
						}
						if k, ok := ret.Results[resIdx].(*ssa.Const); ok && k.Value != nil && k.Value.Kind() == constant.Bool && !constant.BoolVal(k.Value) {
							continue
						}
						any = true
						okRet := false
						for _, h2 := range h.Blocks {
							hc := branchCond(h2)
							if hc == nil {
								continue
							}
							hv := true
							for {
								if u, ok := hc.(*ssa.UnOp); ok && u.Op == token.NOT {
									hc, hv = u.X, !hv
									continue
								}
								break
							}
							ld, ok := stripIdentity(hc).(*ssa.UnOp)
							if !ok || ld.Op != token.MUL {
								continue
							}
							f3, ok := ld.X.(*ssa.FieldAddr)
							if !ok {
								continue
							}
							if tn, fname, _, _ := fieldOf(f3); tn != "Field" || fname != "IsRepeat" || stripIdentity(f3.X) != ssa.Value(h.Params[pidx]) {
								continue
							}
							s2 := 1
							if !hv {
								s2 = 0
							}
							if edgeDominates(h2, s2, hb) {
								okRet = true
							}
						}
						if !okRet && !valueImpliesNotRepeat(ret.Results[resIdx], h.Params[pidx], 0) {
							allOK = false
						}
					}
					if any && allOK {
						guarded = true
					}
				}
			}
			if !guarded {
				// the test stands where this function is entered from: fn is only reached through calls (by name, through the
				// closure a guarding wrapper returns, through the row of a table) that are under the !IsRepeat edge
				guarded = w.notRepeatedAtEveryCall(fn, holder)
			}
			// ... and only of a field that is a plain number *now*: the test of the field's kind is made in the same iteration as the
			// replacement (the loop over the attributes replaces f.Attr itself; a test hoisted out of it lets a second attribute
			// silently overwrite the first)
			{
				fresh, stale := false, ""
				var loops []map[*ssa.BasicBlock]bool
				for _, hb := range fn.Blocks {
					isHeader := false
					for _, p := range hb.Preds {
						if hb.Dominates(p) {
							isHeader = true
						}
					}
					if isHeader {
						if lp := naturalLoop(hb); lp[b] {
							loops = append(loops, lp)
						}
					}
				}
				for _, bb := range fn.Blocks {
					cond := branchCond(bb)
					if cond == nil {
						continue
					}
					tf, refine := fieldTest(cond)
					if tf == nil || canonField(tf) != canonField(holder) {
						continue
					}
					for succ := 0; succ < 2; succ++ {
						if refine(stTop, succ == 0).K != 1<<kBasic || !edgeDominates(bb, succ, b) {
							continue
						}
						// where was the field looked at? the instruction the condition is computed by
						c := cond
						for {
							if u, ok := c.(*ssa.UnOp); ok && u.Op == token.NOT {
								c = u.X
								continue
							}
							break
						}
						var at ssa.Instruction
						switch x := c.(type) {
						case *ssa.Extract:
							at, _ = x.Tuple.(ssa.Instruction)
						case ssa.Instruction:
							at = x
						}
						if at == nil {
							continue
						}
						inAll := true
						for _, lp := range loops {
							if !lp[at.Block()] {
								inAll = false
							}
						}
						if inAll {
							fresh = true
						} else {
							stale = w.instrPos(at)
						}
					}
				}
				if !fresh && stale == "" && w.plainNumberAtEveryCall(fn, b, holder) {
					fresh = true // tested by whoever calls this function, in the same iteration
				}
				fkey := fmt.Sprintf("%s makes a %s #%d only of a field that is a plain number at that moment", fnKey(fn), kind, cnt)
				switch {
				case fresh:
					r.pass(rule, fkey, w.instrPos(st), "")
				case stale != "":
					r.fail(rule, fkey, w.instrPos(st), "the field's kind is tested once ("+stale+"), outside the loop that replaces the field's attribute: a second @lengthOf / @calculatedFrom on the same field passes the stale test and silently overwrites the first (the length link or the checksum disappears from every target, no diagnostic)")
				default:
					r.fail(rule, fkey, w.instrPos(st), "no test that the field's attribute is a BasicFieldAttribute dominates the replacement: a string, object or already computed field becomes a "+kind)
				}
			}
			if guarded {
				r.pass(rule, key, w.instrPos(st), "dominated by !IsRepeat")
			} else {
				r.fail(rule, key, w.instrPos(st), "a field written with `repeat` in front of it can become a "+kind+": no generator emits anything sensible for a repeated length / checksum field (the Go emitter prints its 'is not supported' marker into the source, the others treat it as a single number) and compilation still succeeds")
			}
		})
	}
	if n == 0 {
		r.fail(rule, "computed-field constructions found", "internal/parser/packet_dsl_parser.go", "no store of a length / checksum attribute into a field found in the parse phase")
	}
}

// C08/type-mapping-siblings: "a MetaData-typed field versus the inlined type ... produce byte-identical outputs".
//
// A type written in a MetaData entry and the same type written on a field are turned into attributes by two separate routines.
// Whatever one of them does for a spelling - which attribute it constructs, under which tests of the type context, with which
// length, pad character and pad side - the other has to do as well. Decided as a sibling cross-check: every parse-phase function that
// constructs at least two of the scalar / fixed-string / dynamic-string attributes under tests of a `type` context is a type mapper;
// all type mappers must have the same set of (attribute, members set and how, facts on the path) outcomes.
func c08TypeMappingSiblings(w *World, r *Report) {
	const rule = "C08/type-mapping-siblings"
	kinds := map[string]bool{"BasicFieldAttribute": true, "FixedStringFieldAttribute": true, "DynamicStringFieldAttribute": true}
	valueClass := func(v ssa.Value) string {
		v = stripIdentity(v)
		switch x := v.(type) {
		case *ssa.Const:
			if s, ok := constString(x); ok {
				return fmt.Sprintf("%q", s)
			}
			if x.Value != nil {
				return x.Value.String()
			}
			return "nil"
		case *ssa.Alloc:
			// a nested literal (Padding{...}): its members
			var parts []string
			if x.Referrers() != nil {
				for _, ref := range *x.Referrers() {
					if fa, ok := ref.(*ssa.FieldAddr); ok && fa.Referrers() != nil {
						_, fname, _, _ := fieldOf(fa)
						for _, r2 := range *fa.Referrers() {
							if st, ok := r2.(*ssa.Store); ok && st.Addr == ssa.Value(fa) {
								if k, ok := st.Val.(*ssa.Const); ok {
									if s, ok := constString(k); ok {
										parts = append(parts, fmt.Sprintf("%s:%q", fname, s))
									} else if k.Value != nil {
										parts = append(parts, fname+":"+k.Value.String())
									}
								} else {
									parts = append(parts, fname+":computed")
								}
							}
						}
					}
				}
			}
			sort.Strings(parts)
			return "{" + strings.Join(parts, ",") + "}"
		case *ssa.Extract:
			if c, ok := x.Tuple.(*ssa.Call); ok && c.Call.StaticCallee() != nil {
				return c.Call.StaticCallee().Name() + "(..)"
			}
		case *ssa.Call:
			if x.Call.IsInvoke() {
				return x.Call.Method.Name() + "()"
			}
			if f := x.Call.StaticCallee(); f != nil {
				return f.Name() + "(..)"
			}
		}
		return "computed"
	}
	// facts: the tests that dominate a block, described by what is tested (accessor / call with its constant arguments) and polarity
	describeTest := func(cond ssa.Value) (string, int, bool) {
		val := true
		for {
			if u, ok := cond.(*ssa.UnOp); ok && u.Op == token.NOT {
				cond, val = u.X, !val
				continue
			}
			break
		}
		succ := func(holdsWhenTrue bool) int {
			if holdsWhenTrue == val {
				return 0
			}
			return 1
		}
		callDesc := func(v ssa.Value) string {
			c, ok := stripIdentity(v).(*ssa.Call)
			if !ok {
				return ""
			}
			name := ""
			var args []ssa.Value
			if c.Call.IsInvoke() {
				name, args = c.Call.Method.Name(), c.Call.Args
			} else if f := c.Call.StaticCallee(); f != nil {
				name, args = f.Name(), c.Call.Args
			}
			var ks []string
			for _, a := range args {
				if s, ok := constString(a); ok {
					ks = append(ks, fmt.Sprintf("%q", s))
				}
			}
			return name + "(" + strings.Join(ks, ",") + ")"
		}
		switch x := cond.(type) {
		case *ssa.BinOp:
			if x.Op == token.EQL || x.Op == token.NEQ {
				var o ssa.Value
				if isNilConst(x.X) {
					o = x.Y
				} else if isNilConst(x.Y) {
					o = x.X
				}
				if o != nil {
					if d := callDesc(o); d != "" {
						return "present:" + d, succ(x.Op == token.NEQ), true
					}
				}
			}
		case *ssa.Call:
			if d := callDesc(x); d != "" {
				return d, succ(true), true
			}
		}
		return "", 0, false
	}
	type mapper struct {
		fn   *ssa.Function
		sigs map[string]bool
		made map[string]bool
	}
	var mappers []*mapper
	for _, fn := range parsePhaseFuncs(w) {
		m := &mapper{fn: fn, sigs: map[string]bool{}, made: map[string]bool{}}
		typeTested := false
		forEachInstr(fn, func(b *ssa.BasicBlock, ins ssa.Instruction) {
			al, ok := ins.(*ssa.Alloc)
			if !ok || !al.Heap {
				return
			}
			kind := modelTypeName(al.Type().(*types.Pointer).Elem())
			if !kinds[kind] {
				return
			}
			// members
			var members []string
			if al.Referrers() != nil {
				for _, ref := range *al.Referrers() {
					if fa, ok := ref.(*ssa.FieldAddr); ok && fa.Referrers() != nil {
						_, fname, _, _ := fieldOf(fa)
						for _, r2 := range *fa.Referrers() {
							if st, ok := r2.(*ssa.Store); ok && st.Addr == ssa.Value(fa) {
								members = append(members, fname+"="+valueClass(st.Val))
							}
						}
					}
				}
			}
			sort.Strings(members)
			var facts []string
			for _, bb := range fn.Blocks {
				cond := branchCond(bb)
				if cond == nil {
					continue
				}
				d, ts, ok := describeTest(cond)
				if !ok {
					continue
				}
				if edgeDominates(bb, ts, b) {
					facts = append(facts, "+"+d)
				}
				if edgeDominates(bb, 1-ts, b) {
					facts = append(facts, "-"+d)
				}
			}
			sort.Strings(facts)
			for _, f := range facts {
				if strings.Contains(f, "BasicType") || strings.Contains(f, "FixedString") || strings.Contains(f, "DynamicString") {
					typeTested = true
				}
			}
			m.made[kind] = true
			m.sigs[kind+"{"+strings.Join(members, ",")+"} when ["+strings.Join(facts, " ")+"]"] = true
		})
		if typeTested && len(m.made) >= 2 {
			mappers = append(mappers, m)
		}
	}
	if len(mappers) == 0 {
		r.fail(rule, "type mappers found", "internal/parser/packet_dsl_parser.go", "no parse-phase routine turns a type context into scalar / fixed-string / dynamic-string attributes")
		return
	}
	if len(mappers) == 1 {
		r.pass(rule, fnKey(mappers[0].fn)+" is the only routine that maps types to attributes", w.pos(mappers[0].fn.Pos()), strings.Join(sortedBoolKeys(mappers[0].sigs), "; "))
		return
	}
	// reference: the signature set shared by most mappers
	count := map[string]int{}
	sigOf := map[*mapper]string{}
	for _, m := range mappers {
		s := strings.Join(sortedBoolKeys(m.sigs), "; ")
		sigOf[m] = s
		count[s]++
	}
	best := ""
	for s, n := range count {
		if n > count[best] || (n == count[best] && s < best) {
			best = s
		}
	}
	allSame := len(count) == 1
	for _, m := range mappers {
		key := fnKey(m.fn) + " maps a written type to the same attribute as its sibling(s)"
		if allSame || (sigOf[m] == best && count[best] > 1) {
			r.pass(rule, key, w.pos(m.fn.Pos()), sigOf[m])
			continue
		}
		// name the differences
		other := best
		if sigOf[m] == best {
			for s := range count {
				if s != best {
					other = s
				}
			}
		}
		mine, theirs := map[string]bool{}, map[string]bool{}
		for _, x := range strings.Split(sigOf[m], "; ") {
			mine[x] = true
		}
		for _, x := range strings.Split(other, "; ") {
			theirs[x] = true
		}
		var diff []string
		for x := range mine {
			if !theirs[x] {
				diff = append(diff, "only here: "+x)
			}
		}
		for x := range theirs {
			if !mine[x] {
				diff = append(diff, "only in the sibling: "+x)
			}
		}
		sort.Strings(diff)
		r.fail(rule, key, w.pos(m.fn.Pos()), "the routines that turn a written type into an attribute disagree - a MetaData-typed field and the same type written inline then differ: "+strings.Join(diff, " | "))
	}
}

// */length-link-by-kind: the parse phase records the packet's length field for every spelling of a length field.
//
// The grammar has two spellings (an attribute in front of the field, a lengthFieldDeclaration), both end in a Field whose Attr is a
// LengthFieldAttribute, and the place that records it as the packet's length field (Packet.LengthField, from which the target gets
// its LenAttr and every encoder its measuring code) decides by that kind. A recording that additionally requires a parse-tree node
// the grammar makes optional - present in one spelling, absent in the other - silently leaves the other spelling unlinked: the
// placeholder is still written, nothing measures the target, the wire value is 0; the placement diagnostics are skipped with it.
// Decided: no value that becomes Packet.LengthField is taken on a path dominated by the non-nil edge of a test of a grammar
// context that may be absent (optional accessor, element of a child list, helper that may return nil).
func lengthLinkByKind(w *World, r *Report, prop string) {
	rule := prop + "/length-link-by-kind"
	ctxs := w.ctxTable()
	fns := parsePhaseFuncs(w)
	var mayBeAbsent func(v ssa.Value, depth int, seen map[ssa.Value]bool) string
	mayBeAbsent = func(v ssa.Value, depth int, seen map[ssa.Value]bool) string {
		v = stripIdentity(v)
		if depth > 6 || seen[v] {
			return ""
		}
		seen[v] = true
		switch x := v.(type) {
		case *ssa.Const:
			if x.IsNil() {
				return "nil"
			}
		case *ssa.Phi:
			for _, e := range x.Edges {
				if why := mayBeAbsent(e, depth+1, seen); why != "" {
					return why
				}
			}
		case *ssa.UnOp:
			if x.Op == token.MUL {
				if ia, ok := x.X.(*ssa.IndexAddr); ok {
					if c, ok := stripIdentity(ia.X).(*ssa.Call); ok {
						if _, ai, ok := w.accessorOf(c, ctxs); ok && ai.Known && strings.HasSuffix(ai.What, "*") {
							return "an element of " + ai.Ctx + "." + ai.Name + "(), a list that may be empty"
						}
					}
				}
			}
		case *ssa.Call:
			if _, ai, ok := w.accessorOf(x, ctxs); ok {
				if ai.Known && ai.Optional {
					if rv := x.Common().Args; len(rv) > 0 || x.Common().IsInvoke() {
						return ai.Ctx + "." + ai.Name + "(), optional in the grammar"
					}
				}
				if ai.Known && !ai.Optional {
					// a mandatory child of a node that may itself be absent
					var recv ssa.Value
					if x.Common().IsInvoke() {
						recv = x.Common().Value
					} else if len(x.Common().Args) > 0 {
						recv = x.Common().Args[0]
					}
					if recv != nil {
						return mayBeAbsent(recv, depth+1, seen)
					}
				}
				return ""
			}
			if f := x.Call.StaticCallee(); f != nil && f.Blocks != nil && (f.Pkg == w.Parser || f.Pkg == w.Model) {
				why := ""
				forEachInstr(f, func(_ *ssa.BasicBlock, ins ssa.Instruction) {
					if ret, ok := ins.(*ssa.Return); ok && why == "" && len(ret.Results) > 0 {
						if y := mayBeAbsent(ret.Results[0], depth+1, seen); y != "" {
							why = y + " (returned by " + fnKey(f) + ")"
						}
					}
				})
				return why
			}
		}
		return ""
	}
	type src struct {
		val ssa.Value
		blk *ssa.BasicBlock
	}
	var sources func(v ssa.Value, at *ssa.BasicBlock, depth int, seen map[ssa.Value]bool) []src
	sources = func(v ssa.Value, at *ssa.BasicBlock, depth int, seen map[ssa.Value]bool) []src {
		v = stripIdentity(v)
		if depth > 8 || seen[v] {
			return nil
		}
		seen[v] = true
		switch x := v.(type) {
		case *ssa.Const:
			return nil
		case *ssa.Phi:
			var out []src
			for i, e := range x.Edges {
				out = append(out, sources(e, x.Block().Preds[i], depth+1, seen)...)
			}
			return out
		case *ssa.UnOp:
			if al, ok := x.X.(*ssa.Alloc); ok && x.Op == token.MUL && al.Referrers() != nil {
				var out []src
				for _, ref := range *al.Referrers() {
					if st, ok := ref.(*ssa.Store); ok && st.Addr == ssa.Value(al) {
						out = append(out, sources(st.Val, st.Block(), depth+1, seen)...)
					}
				}
				return out
			}
		}
		return []src{{v, at}}
	}
	n := 0
	for _, fn := range fns {
		forEachInstr(fn, func(b *ssa.BasicBlock, ins ssa.Instruction) {
			st, ok := ins.(*ssa.Store)
			if !ok {
				return
			}
			fa, ok := st.Addr.(*ssa.FieldAddr)
			if !ok {
				return
			}
			if tn, f, _, _ := fieldOf(fa); tn != "Packet" || f != "LengthField" {
				return
			}
			n++
			key := fnKey(fn) + ": the packet's length field is recorded whichever way it is spelled"
			bad, badPos := "", ""
			for _, s := range sources(st.Val, b, 0, map[ssa.Value]bool{}) {
				for _, gb := range s.blk.Parent().Blocks {
					cond := branchCond(gb)
					if cond == nil {
						continue
					}
					x, nn, ok := nilTest(cond)
					if !ok || grammarCtxName(x.Type()) == "" {
						continue
					}
					if gb != s.blk && !edgeDominates(gb, nn, s.blk) {
						continue
					}
					if gb == s.blk {
						continue
					}
					if why := mayBeAbsent(x, 0, map[ssa.Value]bool{}); why != "" && bad == "" {
						bad, badPos = why, w.instrPos(gb.Instrs[len(gb.Instrs)-1])
					}
				}
			}
			if bad == "" {
				r.pass(rule, key, w.instrPos(st), "")
			} else {
				r.fail(rule, key, badPos, "the field that becomes Packet.LengthField is taken only where a parse-tree node is present that the grammar allows to be absent ("+bad+"): a length field written in the other spelling is a LengthFieldAttribute all the same, but is never recorded - its target gets no LenAttr, the encoders write the placeholder and never measure, the wire value stays 0; the root-only and duplicate diagnostics are skipped with it")
			}
		})
	}
	if n == 0 {
		r.fail(rule, "recording site found", "internal/parser/packet_dsl_parser.go", "no store to Packet.LengthField in the parse phase")
	}
}

// recordsSyntaxError: the parser-package function appends to a listener's error list or calls AddSyntaxError on every call -
// directly or through functions of the same package (a recording helper such as `add(line, column, msg)`).
func recordsSyntaxError(w *World, f *ssa.Function, depth int) bool {
	if f == nil || f.Blocks == nil || f.Pkg != w.Parser || depth > 3 {
		return false
	}
	found := false
	forEachInstr(f, func(b *ssa.BasicBlock, ins ssa.Instruction) {
		if found || !b.Dominates(b) {
			return
		}
		// only what runs on every call: the block dominates every return
		for _, rb := range f.Blocks {
			if _, ok := rb.Instrs[len(rb.Instrs)-1].(*ssa.Return); ok && !b.Dominates(rb) {
				return
			}
		}
		switch x := ins.(type) {
		case *ssa.Store:
			if fa, ok := x.Addr.(*ssa.FieldAddr); ok {
				if tn, fn, _, _ := fieldOf(fa); tn == "SyntaxErrorListener" && fn == "Errors" {
					found = true
				}
			}
		case ssa.CallInstruction:
			if g := x.Common().StaticCallee(); g != nil {
				if g.Name() == "AddSyntaxError" || recordsSyntaxError(w, g, depth+1) {
					found = true
				}
			}
		}
	})
	return found
}

// makeMapOrigins: the make(map...) instructions a map-typed value can come from - through local cells, variables captured by a
// closure (resolved at the MakeClosure in the parent function), phis and parameters (over the static call sites in the repo).
func makeMapOrigins(v ssa.Value, depth int, seen map[ssa.Value]bool) map[*ssa.MakeMap]bool {
	out := map[*ssa.MakeMap]bool{}
	if v == nil || depth > 8 || seen[v] {
		return out
	}
	seen[v] = true
	add := func(m map[*ssa.MakeMap]bool) {
		for k := range m {
			out[k] = true
		}
	}
	cellStores := func(al *ssa.Alloc) {
		if al.Referrers() == nil {
			return
		}
		for _, ref := range *al.Referrers() {
			if st, ok := ref.(*ssa.Store); ok && st.Addr == ssa.Value(al) {
				add(makeMapOrigins(st.Val, depth+1, seen))
			}
		}
	}
	switch x := stripIdentity(v).(type) {
	case *ssa.MakeMap:
		out[x] = true
	case *ssa.Phi:
		for _, e := range x.Edges {
			add(makeMapOrigins(e, depth+1, seen))
		}
	case *ssa.UnOp:
		if x.Op != token.MUL {
			return out
		}
		switch c := x.X.(type) {
		case *ssa.Alloc:
			cellStores(c)
		case *ssa.FreeVar:
			g := c.Parent()
			if g == nil || g.Parent() == nil {
				return out
			}
			for j, fv := range g.FreeVars {
				if fv != c {
					continue
				}
				forEachInstr(g.Parent(), func(_ *ssa.BasicBlock, ins ssa.Instruction) {
					if mc, ok := ins.(*ssa.MakeClosure); ok && mc.Fn == ssa.Value(g) && j < len(mc.Bindings) {
						if al, ok := mc.Bindings[j].(*ssa.Alloc); ok {
							cellStores(al)
						} else {
							add(makeMapOrigins(mc.Bindings[j], depth+1, seen))
						}
					}
				})
			}
		}
	case *ssa.FreeVar:
		// captured by value
		g := x.Parent()
		if g == nil || g.Parent() == nil {
			return out
		}
		for j, fv := range g.FreeVars {
			if fv != x {
				continue
			}
			forEachInstr(g.Parent(), func(_ *ssa.BasicBlock, ins ssa.Instruction) {
				if mc, ok := ins.(*ssa.MakeClosure); ok && mc.Fn == ssa.Value(g) && j < len(mc.Bindings) {
					add(makeMapOrigins(mc.Bindings[j], depth+1, seen))
				}
			})
		}
	case *ssa.Parameter:
		fn := x.Parent()
		if theWorld == nil {
			return out
		}
		for i, p := range fn.Params {
			if p != x {
				continue
			}
			for _, g := range theWorld.allFuncsInRepo() {
				forEachInstr(g, func(_ *ssa.BasicBlock, ins ssa.Instruction) {
					if c, ok := ins.(ssa.CallInstruction); ok && c.Common().StaticCallee() == fn && i < len(c.Common().Args) {
						add(makeMapOrigins(c.Common().Args[i], depth+1, seen))
					}
				})
			}
		}
	}
	return out
}

// valueImpliesNotRepeat: the bool value v can be true only if param.IsRepeat is false: the constant false, `!param.IsRepeat`, or a
// phi (the form `a && !param.IsRepeat` takes) of such values.
func valueImpliesNotRepeat(v ssa.Value, param ssa.Value, depth int) bool {
	if depth > 4 {
		return false
	}
	switch x := v.(type) {
	case *ssa.Const:
		return x.Value != nil && x.Value.Kind() == constant.Bool && !constant.BoolVal(x.Value)
	case *ssa.UnOp:
		if x.Op != token.NOT {
			return false
		}
		ld, ok := stripIdentity(x.X).(*ssa.UnOp)
		if !ok || ld.Op != token.MUL {
			return false
		}
		fa, ok := ld.X.(*ssa.FieldAddr)
		if !ok {
			return false
		}
		tn, fname, _, _ := fieldOf(fa)
		return tn == "Field" && fname == "IsRepeat" && stripIdentity(fa.X) == param
	case *ssa.Phi:
		for _, e := range x.Edges {
			if !valueImpliesNotRepeat(e, param, depth+1) {
				return false
			}
		}
		return true
	}
	return false
}

// sameCellValue: the two values are the same node: identical after stripping identities, or two loads of one variable that lives in
// a cell (because a closure captures it) and is assigned exactly once.
func sameCellValue(a, b ssa.Value) bool {
	a, b = stripIdentity(a), stripIdentity(b)
	if a == b {
		return true
	}
	ca, cb := singleAssignCell(a), singleAssignCell(b)
	return ca != nil && ca == cb
}

// C12/option-value-as-written: the option table lists the values as they are spelled in the DSL, so what AddOption validates has
// to be the text the author wrote - the token's text, or that text without its string quotes - and not a normalised form. A helper
// that turns `'\x00'` into the NUL character before the value is validated makes a documented value fail the membership test: a
// well-formed DSL is rejected. Decided: the value argument of every AddOption call in the parse phase derives from GetText() through
// identity, strings.Trim*/TrimSpace and parser helpers whose every returned value does - no constant takes the value's place.
func optionValueAsWritten(w *World, r *Report, prop string) {
	rule := prop + "/option-value-as-written"
	n := 0
	for _, fn := range parsePhaseFuncs(w) {
		forEachInstr(fn, func(_ *ssa.BasicBlock, ins ssa.Instruction) {
			c, ok := ins.(*ssa.Call)
			if !ok {
				return
			}
			f := c.Call.StaticCallee()
			if f == nil || f.Name() != "AddOption" || f.Pkg != w.Model || len(c.Call.Args) < 3 {
				return
			}
			n++
			key := fmt.Sprintf("%s: the option value is validated as it was written", fnKey(fn))
			var bad string
			var trace func(v ssa.Value, bs bindings, depth int, seen map[ssa.Value]bool)
			trace = func(v ssa.Value, bs bindings, depth int, seen map[ssa.Value]bool) {
				if bad != "" || depth > 10 || v == nil || seen[v] {
					return
				}
				seen[v] = true
				v = resolveParam(v, bs)
				switch x := v.(type) {
				case *ssa.Const:
					if s, ok := constString(x); ok {
						bad = fmt.Sprintf("the constant %q can take the place of the written value (%s)", s, w.pos(x.Pos()))
					}
				case *ssa.Phi:
					for _, e := range x.Edges {
						trace(e, bs, depth+1, seen)
					}
				case *ssa.UnOp:
					if al, ok := x.X.(*ssa.Alloc); ok && al.Referrers() != nil {
						for _, ref := range *al.Referrers() {
							if st, ok := ref.(*ssa.Store); ok && st.Addr == ssa.Value(al) {
								trace(st.Val, bs, depth+1, seen)
							}
						}
					}
				case *ssa.Call:
					name := ""
					if x.Call.IsInvoke() {
						name = x.Call.Method.Name()
					} else if g := x.Call.StaticCallee(); g != nil {
						name = g.Name()
						if g.Pkg != nil && g.Pkg.Pkg.Path() == "strings" && strings.HasPrefix(name, "Trim") && len(x.Call.Args) > 0 {
							trace(x.Call.Args[0], bs, depth+1, seen)
							return
						}
						if g.Blocks != nil && (g.Pkg == w.Parser || g.Pkg == w.Model) {
							nb := bindings{}
							for k, val := range bs {
								nb[k] = val
							}
							for i, p := range g.Params {
								if i < len(x.Call.Args) {
									nb[p] = x.Call.Args[i]
								}
							}
							for _, b := range g.Blocks {
								if ret, ok := b.Instrs[len(b.Instrs)-1].(*ssa.Return); ok && len(ret.Results) > 0 {
									trace(ret.Results[0], nb, depth+1, seen)
								}
							}
							return
						}
					}
					if name != "GetText" {
						bad = "the value goes through " + calleeName(x) + " before it is validated"
					}
				}
			}
			trace(c.Call.Args[2], bindings{}, 0, map[ssa.Value]bool{})
			if bad == "" {
				r.pass(rule, key, w.instrPos(c), "")
			} else {
				r.fail(rule, key, w.instrPos(c), bad+": AddOption compares the value with the spellings in the option table, a rewritten value is not among them - a documented value is rejected")
			}
		})
	}
	if n == 0 {
		r.fail(rule, "AddOption call found", "internal/parser/packet_dsl_parser.go", "no call of BinaryModel.AddOption in the parse phase")
	}
}
