package main

// Tables local to a function: a list of records written as one composite literal inside a function body
// (`rows := [...]struct{written bool; change func()}{{a != nil, f}, {b != nil, g}}`) and only walked afterwards: row i pairs the i-th
// flag with the i-th function, exactly as a package-level table does (rules_table.go), but the members are values of the function
// that writes the literal - tests it has just made, method values of a record it holds.

import (
	"go/token"
	"go/types"

	"golang.org/x/tools/go/ssa"
)

type localTable struct {
	arr   *ssa.Alloc // the literal's backing array
	rows  []tableRow
	slots map[*ssa.Store][2]int // the stores that fill the literal: row, member
	reads []localRowRead
	ok    bool // filled by the literal only, every slot at most once, and otherwise only walked and read member by member
}

// localRowRead: member `field` of an element of the table is read; elem identifies the element (the element's value or address).
type localRowRead struct {
	elem  ssa.Value
	field int
	v     ssa.Value
}

// localRowRef: "the element is row `row`" at a call of member `field` of element elem.
type localRowRef struct {
	table *localTable
	row   int
	field int
	elem  ssa.Value
}

type localMemberCall struct {
	site ssa.CallInstruction
	elem ssa.Value
}

var localTableMemo = map[*ssa.Alloc]*localTable{}

func isBuiltinCall(ins ssa.Instruction, names ...string) bool {
	c, ok := ins.(*ssa.Call)
	if !ok {
		return false
	}
	b, ok := c.Call.Value.(*ssa.Builtin)
	if !ok {
		return false
	}
	for _, n := range names {
		if b.Name() == n {
			return true
		}
	}
	return false
}

// localTableOf: arr is the backing array of a literal of records.
func (w *World) localTableOf(arr *ssa.Alloc) *localTable {
	if lt, ok := localTableMemo[arr]; ok {
		return lt
	}
	lt := &localTable{arr: arr, slots: map[*ssa.Store][2]int{}}
	localTableMemo[arr] = lt
	at, isArr := arr.Type().(*types.Pointer).Elem().Underlying().(*types.Array)
	if !isArr {
		return lt
	}
	if _, isRec := at.Elem().Underlying().(*types.Struct); !isRec || at.Len() > 256 {
		return lt
	}
	lt.rows = make([]tableRow, at.Len())
	for i := range lt.rows {
		lt.rows[i] = tableRow{}
	}
	good := true
	bad := func() { good = false }
	set := func(row, field int, st *ssa.Store) {
		if _, dup := lt.rows[row][field]; dup {
			bad()
			return
		}
		lt.rows[row][field] = stripIdentity(st.Val)
		lt.slots[st] = [2]int{row, field}
	}
	// fillFrom: the members of record address rec are stored to (nothing else happens to those addresses)
	fillFrom := func(row int, rec ssa.Value) {
		for _, ref := range refsOf(rec) {
			fa, isFA := ref.(*ssa.FieldAddr)
			if !isFA {
				continue
			}
			for _, r2 := range refsOf(fa) {
				switch y := r2.(type) {
				case *ssa.DebugRef:
				case *ssa.Store:
					if y.Addr != ssa.Value(fa) {
						bad()
						return
					}
					set(row, fa.Field, y)
				default:
					bad()
					return
				}
			}
		}
	}
	var elemValue func(ev ssa.Value)
	elemValue = func(ev ssa.Value) {
		for _, ref := range refsOf(ev) {
			switch x := ref.(type) {
			case *ssa.DebugRef:
			case *ssa.Field:
				lt.reads = append(lt.reads, localRowRead{ev, x.Field, x})
			case *ssa.Store:
				// the loop variable: a copy of the element that is only read member by member
				cp, isAl := x.Addr.(*ssa.Alloc)
				if !isAl || x.Val != ev {
					bad()
					return
				}
				for _, r2 := range refsOf(cp) {
					switch y := r2.(type) {
					case *ssa.DebugRef:
					case *ssa.Store:
						if y != x {
							bad()
							return
						}
					case *ssa.FieldAddr:
						for _, r3 := range refsOf(y) {
							switch z := r3.(type) {
							case *ssa.DebugRef:
							case *ssa.UnOp:
								if z.Op != token.MUL {
									bad()
									return
								}
								lt.reads = append(lt.reads, localRowRead{ev, y.Field, z})
							default:
								bad()
								return
							}
						}
					default:
						bad()
						return
					}
				}
			default:
				bad()
				return
			}
		}
	}
	elemAddr := func(ia *ssa.IndexAddr) {
		for _, ref := range refsOf(ia) {
			switch x := ref.(type) {
			case *ssa.DebugRef:
			case *ssa.FieldAddr:
				for _, r2 := range refsOf(x) {
					switch y := r2.(type) {
					case *ssa.DebugRef:
					case *ssa.UnOp:
						if y.Op != token.MUL {
							bad()
							return
						}
						lt.reads = append(lt.reads, localRowRead{ia, x.Field, y})
					default:
						bad()
						return
					}
				}
			case *ssa.UnOp:
				if x.Op != token.MUL {
					bad()
					return
				}
				elemValue(x)
			default:
				bad()
				return
			}
		}
	}
	for _, ref := range refsOf(arr) {
		if !good {
			break
		}
		switch x := ref.(type) {
		case *ssa.DebugRef:
		case *ssa.IndexAddr:
			k, isK := x.Index.(*ssa.Const)
			if !isK || k.Value == nil {
				elemAddr(x)
				continue
			}
			row := int(k.Int64())
			if row < 0 || row >= len(lt.rows) {
				bad()
				continue
			}
			// the slot is filled in place, or with a record built in a local of its own
			for _, r2 := range refsOf(x) {
				switch y := r2.(type) {
				case *ssa.DebugRef:
				case *ssa.FieldAddr:
				case *ssa.Store:
					ld, isLd := y.Val.(*ssa.UnOp)
					if y.Addr != ssa.Value(x) || !isLd || ld.Op != token.MUL {
						bad()
						continue
					}
					rec, isAl := ld.X.(*ssa.Alloc)
					if !isAl || len(refsOf(ld)) != 1 {
						bad()
						continue
					}
					for _, r3 := range refsOf(rec) {
						switch z := r3.(type) {
						case *ssa.DebugRef, *ssa.FieldAddr:
						case *ssa.UnOp:
							if z != ld {
								bad()
							}
						default:
							bad()
						}
					}
					fillFrom(row, rec)
				default:
					bad()
				}
			}
			fillFrom(row, x)
		case *ssa.UnOp:
			// the array as a value: indexed
			if x.Op != token.MUL {
				bad()
				continue
			}
			for _, r2 := range refsOf(x) {
				switch y := r2.(type) {
				case *ssa.DebugRef:
				case *ssa.Index:
					if y.X != ssa.Value(x) {
						bad()
						continue
					}
					elemValue(y)
				default:
					if !isBuiltinCall(r2, "len", "cap") {
						bad()
					}
				}
			}
		case *ssa.Slice:
			if x.X != ssa.Value(arr) {
				bad()
				continue
			}
			for _, r2 := range refsOf(x) {
				switch y := r2.(type) {
				case *ssa.DebugRef:
				case *ssa.IndexAddr:
					if y.X != ssa.Value(x) {
						bad()
						continue
					}
					elemAddr(y)
				default:
					if !isBuiltinCall(r2, "len", "cap") {
						bad()
					}
				}
			}
		default:
			bad()
		}
	}
	lt.ok = good
	return lt
}

// localRowSlot: st fills member `field` of row `row` of a local table.
func (w *World) localRowSlot(st *ssa.Store) (lt *localTable, row int, field int, ok bool) {
	fa, isFA := st.Addr.(*ssa.FieldAddr)
	if !isFA {
		return nil, 0, 0, false
	}
	var arr *ssa.Alloc
	switch rec := fa.X.(type) {
	case *ssa.IndexAddr:
		arr, _ = rec.X.(*ssa.Alloc)
	case *ssa.Alloc:
		for _, ref := range refsOf(rec) {
			ld, isLd := ref.(*ssa.UnOp)
			if !isLd || ld.Op != token.MUL {
				continue
			}
			for _, r2 := range refsOf(ld) {
				if s2, isSt := r2.(*ssa.Store); isSt && s2.Val == ssa.Value(ld) {
					if ia, isIA := s2.Addr.(*ssa.IndexAddr); isIA {
						arr, _ = ia.X.(*ssa.Alloc)
					}
				}
			}
		}
	}
	if arr == nil {
		return nil, 0, 0, false
	}
	lt = w.localTableOf(arr)
	slot, have := lt.slots[st]
	if !lt.ok || !have {
		return nil, 0, 0, false
	}
	return lt, slot[0], slot[1], true
}

// memberCalls: every call of member `field` of an element of the table; ok=false when the member is read for anything but being
// called.
func (lt *localTable) memberCalls(field int) (calls []localMemberCall, ok bool) {
	if !lt.ok {
		return nil, false
	}
	for _, rd := range lt.reads {
		if rd.field != field {
			continue
		}
		for _, ref := range refsOf(rd.v) {
			switch x := ref.(type) {
			case *ssa.DebugRef:
			case ssa.CallInstruction:
				cc := x.Common()
				if cc.IsInvoke() || cc.Value != rd.v {
					return nil, false
				}
				for _, a := range cc.Args {
					if a == rd.v {
						return nil, false
					}
				}
				calls = append(calls, localMemberCall{x, rd.elem})
			default:
				return nil, false
			}
		}
	}
	return calls, true
}

// sameLocalElem: two element identities denote the same element in the same iteration.
func sameLocalElem(a, b ssa.Value) bool {
	if a == b {
		return true
	}
	ia, ok1 := a.(*ssa.IndexAddr)
	ib, ok2 := b.(*ssa.IndexAddr)
	if ok1 && ok2 {
		return ia.X == ib.X && ia.Index == ib.Index
	}
	xa, ok1 := a.(*ssa.Index)
	xb, ok2 := b.(*ssa.Index)
	return ok1 && ok2 && xa.X == xb.X && xa.Index == xb.Index
}

// ---------- records handed by value ----------

var unchangedParamRecordMemo = map[*ssa.Alloc]*ssa.Parameter{}

// unchangedParamRecord: al is the cell a function keeps a record parameter in (a by-value parameter or receiver); it is written
// once, at entry, with the parameter, and afterwards only read - whole or member by member, in the function and in the closures
// that capture it: the parameter. nil otherwise.
func unchangedParamRecord(al *ssa.Alloc) *ssa.Parameter {
	if p, ok := unchangedParamRecordMemo[al]; ok {
		return p
	}
	unchangedParamRecordMemo[al] = nil
	if _, isRec := al.Type().(*types.Pointer).Elem().Underlying().(*types.Struct); !isRec {
		return nil
	}
	var param *ssa.Parameter
	stores := 0
	good := true
	var walk func(addr ssa.Value, depth int)
	walk = func(addr ssa.Value, depth int) {
		if depth > 6 {
			good = false
			return
		}
		for _, ref := range refsOf(addr) {
			switch x := ref.(type) {
			case *ssa.DebugRef:
			case *ssa.UnOp:
				if x.Op != token.MUL {
					good = false
				}
			case *ssa.Store:
				if x.Addr != addr {
					good = false
					continue
				}
				stores++
				param, _ = x.Val.(*ssa.Parameter)
			case *ssa.FieldAddr:
				for _, r2 := range refsOf(x) {
					switch y := r2.(type) {
					case *ssa.DebugRef:
					case *ssa.UnOp:
						if y.Op != token.MUL {
							good = false
						}
					default:
						good = false
					}
				}
			case *ssa.MakeClosure:
				g, _ := x.Fn.(*ssa.Function)
				if g == nil {
					good = false
					continue
				}
				for j, b := range x.Bindings {
					if b == addr {
						if j >= len(g.FreeVars) {
							good = false
							continue
						}
						walk(g.FreeVars[j], depth+1)
					}
				}
			default:
				good = false
			}
		}
	}
	walk(al, 0)
	if !good || stores != 1 || param == nil || param.Parent() != al.Parent() {
		return nil
	}
	unchangedParamRecordMemo[al] = param
	return param
}

// recordMemberRoot: ld reads member k of a record the function (or, for a closure, the function that made it) was handed by value
// and never changes: the cell that holds the record and k.
func recordMemberRoot(ld *ssa.UnOp) (al *ssa.Alloc, k int, ok bool) {
	if ld.Op != token.MUL {
		return nil, 0, false
	}
	fa, isFA := ld.X.(*ssa.FieldAddr)
	if !isFA {
		return nil, 0, false
	}
	base := fa.X
	for depth := 0; depth < 4; depth++ {
		fv, isFV := base.(*ssa.FreeVar)
		if !isFV {
			break
		}
		// what every place that makes the closure binds the variable to
		c := fv.Parent()
		parent := c.Parent()
		j := -1
		for i, v := range c.FreeVars {
			if v == fv {
				j = i
			}
		}
		if parent == nil || j < 0 {
			return nil, 0, false
		}
		var bound ssa.Value
		okAll := true
		forEachInstr(parent, func(_ *ssa.BasicBlock, ins ssa.Instruction) {
			if mc, isMC := ins.(*ssa.MakeClosure); isMC && mc.Fn == ssa.Value(c) && j < len(mc.Bindings) {
				if bound != nil && bound != mc.Bindings[j] {
					okAll = false
				}
				bound = mc.Bindings[j]
			}
		})
		if !okAll || bound == nil {
			return nil, 0, false
		}
		base = bound
	}
	cell, isAl := base.(*ssa.Alloc)
	if !isAl || unchangedParamRecord(cell) == nil {
		return nil, 0, false
	}
	return cell, fa.Field, true
}
