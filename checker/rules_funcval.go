package main

// Function values followed forwards: "where is this function called, and as what?"
//
// A rule that looks for a guard *at the callers* of a function (the optional child was tested before the handler is entered, the
// field's kind was tested before the attribute is replaced) has to know every place the function can be entered from. For a
// function that is only ever called by name the class-hierarchy call graph says so exactly. A function that is used as a value -
// kept in a row of a table beside its predicate, handed to a higher-order wrapper that returns a closure calling it under the
// wrapper's own tests (`numericOnly(applyLengthOf)`) - is, for the class-hierarchy graph, a callee of every dynamic call of that
// signature, which loses exactly the pairing the rule is about.
//
// callFrames recovers the pairing by following the function value from each place the program text mentions it to the calls it ends
// up in:
//
//	f(...)                         a call by name
//	g(f)                           f is g's parameter: followed inside g (a call of the parameter, a closure that captures it)
//	return func(..) { .. f(..) }   the closure is an *instance*: the frame of the call inside its body carries the frames of the
//	                               instance (where the returned closure itself is called)
//	table[i].m = f                 a row of a package-level table that is only walked: every call of member m of the current row,
//	                               with the fact that the current row is i (so the row's other members are known)
//
// Anything else a function value can do (stored in a map, boxed into an interface, sent on a channel, merged by a phi, a method
// value) makes the answer "not known": the rules then fall back to what they did before.

import (
	"fmt"
	"go/token"
	"go/types"
	"strings"

	"golang.org/x/tools/go/ssa"
)

// callFrame: one call that enters the followed function (or closure instance).
type callFrame struct {
	site  ssa.CallInstruction
	env   rowEnv       // the callee is a member of the current row of a table: the row that holds the followed value
	inst  *frameSet    // the site lies in the body of a closure that runs as one particular instance: the calls of that instance
	bound ssa.Value    // the followed function is a method entered through a method value (x.m): x, the receiver it was bound to
	lrow  *localRowRef // the callee is a member of an element of a table local to a function: the row that holds the followed value
}

// args: the arguments of the followed function at this call, the receiver of a method value included.
func (fr callFrame) args() []ssa.Value {
	if fr.bound == nil {
		return fr.site.Common().Args
	}
	return append([]ssa.Value{fr.bound}, fr.site.Common().Args...)
}

type frameSet struct {
	frames []callFrame
	ok     bool // every use of the value was understood: frames is complete
}

type fvCtx struct {
	call ssa.CallInstruction // the call that handed the followed value to the current function as an argument (nil: not known)
	up   *fvCtx              // the context of the function that call stands in
	inst *frameSet           // the closure instance the current function body runs as (nil: not a closure, or not known)
}

type fvSeenKey struct {
	v    ssa.Value
	call ssa.CallInstruction
}

type fvFollower struct {
	w     *World
	out   *frameSet
	seen  map[fvSeenKey]bool
	steps int
	depth int
	bound ssa.Value // following a method value: the receiver
}

var (
	fnUsesMemo      map[*ssa.Function][]ssa.Instruction
	fnSynthUseMemo  map[*ssa.Function]bool
	fnBoundMemo     map[*ssa.Function]*ssa.Function // method -> the wrapper that stands for its method values
	framesOfFuncMem = map[*ssa.Function]*frameSet{}
)

// fnUses: every instruction of the repository that has the function as an operand.
func (w *World) fnUses() (map[*ssa.Function][]ssa.Instruction, map[*ssa.Function]bool) {
	if fnUsesMemo != nil {
		return fnUsesMemo, fnSynthUseMemo
	}
	uses := map[*ssa.Function][]ssa.Instruction{}
	synth := map[*ssa.Function]bool{}
	fnBoundMemo = map[*ssa.Function]*ssa.Function{}
	var ops []*ssa.Value
	for _, fn := range w.repoFuncsWithBodies() {
		wrapper := fn.Synthetic != "" && !strings.HasPrefix(fn.Name(), "init") && !strings.Contains(fn.Synthetic, "instan")
		forEachInstr(fn, func(_ *ssa.BasicBlock, ins ssa.Instruction) {
			ops = ins.Operands(ops[:0])
			var last *ssa.Function
			for _, op := range ops {
				if op == nil || *op == nil {
					continue
				}
				f, ok := (*op).(*ssa.Function)
				if !ok || f == last {
					continue
				}
				last = f
				if wrapper {
					synth[f] = true
					continue
				}
				dup := false
				for _, u := range uses[f] {
					if u == ins {
						dup = true
					}
				}
				if !dup {
					uses[f] = append(uses[f], ins)
				}
			}
		})
	}
	// the wrappers go/ssa makes for methods belong to no package: the wrapper of a method value (x.m) only forwards to the method,
	// with the captured receiver - the method is entered wherever the closures made of the wrapper are called; any other wrapper
	// (promotion through an embedding, pointer receiver for an interface, method expression) is a use that is not followed
	for fn := range w.allFuncs {
		if fn.Synthetic == "" || fn.Blocks == nil || pkgOfFunc(fn) != nil {
			continue
		}
		if strings.HasPrefix(fn.Synthetic, "bound method wrapper") {
			if tgt := unwrapBound(fn); tgt != fn && tgt.Signature.Recv() != nil && w.isRepoLike(tgt) {
				fnBoundMemo[tgt] = fn
			}
			continue
		}
		forEachInstr(fn, func(_ *ssa.BasicBlock, ins ssa.Instruction) {
			ops = ins.Operands(ops[:0])
			for _, op := range ops {
				if op == nil || *op == nil {
					continue
				}
				if f, ok := (*op).(*ssa.Function); ok && f.Signature.Recv() != nil && w.isRepoLike(f) {
					synth[f] = true
				}
			}
		})
	}
	fnUsesMemo, fnSynthUseMemo = uses, synth
	return uses, synth
}

var repoFuncsWithBodiesMemo []*ssa.Function

// repoFuncsWithBodies: every function (closures, initialisers and wrappers included) of the four packages of the repository.
func (w *World) repoFuncsWithBodies() []*ssa.Function {
	if repoFuncsWithBodiesMemo != nil {
		return repoFuncsWithBodiesMemo
	}
	var out []*ssa.Function
	for fn := range w.allFuncs {
		if fn.Blocks == nil {
			continue
		}
		if p := pkgOfFunc(fn); p == nil || (p != w.Parser && p != w.Model && p != w.Cmd && p != w.Grammar) {
			continue
		}
		out = append(out, fn)
	}
	sortFuncsByName(out)
	repoFuncsWithBodiesMemo = out
	return out
}

// callFrames: every call that enters fn, or ok=false when fn is used in a way that is not followed.
func (w *World) callFrames(fn *ssa.Function) *frameSet {
	if fs, ok := framesOfFuncMem[fn]; ok {
		return fs
	}
	fs := &frameSet{}
	framesOfFuncMem[fn] = fs // a cycle (recursion through a function value) reads "not known"
	if fn == nil || (fn.Origin() != nil && fn.Origin() != fn) {
		return fs
	}
	if fn.Signature.Recv() != nil {
		// a method is entered by name, through its method values and through interfaces: followed when no value of the receiver's
		// type is ever put into an interface (no dynamic dispatch can reach it)
		if fn.Blocks == nil || w.boxedReceiver(fn) {
			return fs
		}
		uses, synth := w.fnUses()
		if synth[fn] {
			return fs // promoted through an embedding, a method expression
		}
		fl := &fvFollower{w: w, out: &frameSet{ok: true}, seen: map[fvSeenKey]bool{}}
		fl.follow(fn, uses[fn], fvCtx{})
		if bw := fnBoundMemo[fn]; bw != nil && fl.out.ok {
			if synth[bw] {
				fl.out.ok = false
			}
			for _, u := range uses[bw] {
				mc, isMC := u.(*ssa.MakeClosure)
				if !isMC || mc.Fn != ssa.Value(bw) || len(mc.Bindings) != 1 {
					fl.out.ok = false
					break
				}
				sub := &fvFollower{w: w, out: &frameSet{ok: true}, seen: map[fvSeenKey]bool{}, bound: mc.Bindings[0]}
				sub.follow(mc, refsOf(mc), fvCtx{})
				if !sub.out.ok {
					fl.out.ok = false
					break
				}
				fl.out.frames = append(fl.out.frames, sub.out.frames...)
			}
		}
		*fs = *fl.out
		return fs
	}
	fl := &fvFollower{w: w, out: &frameSet{ok: true}, seen: map[fvSeenKey]bool{}}
	if parent := fn.Parent(); parent != nil {
		// a closure: every place its parent makes it
		forEachInstr(parent, func(_ *ssa.BasicBlock, ins ssa.Instruction) {
			if mc, ok := ins.(*ssa.MakeClosure); ok && mc.Fn == ssa.Value(fn) {
				fl.follow(mc, refsOf(mc), fvCtx{})
			}
		})
		// without captured variables the closure is a plain function value
		uses, synth := w.fnUses()
		if synth[fn] {
			fl.out.ok = false
		}
		var direct []ssa.Instruction
		for _, u := range uses[fn] {
			if mc, ok := u.(*ssa.MakeClosure); ok && mc.Fn == ssa.Value(fn) {
				continue
			}
			direct = append(direct, u)
		}
		fl.follow(fn, direct, fvCtx{})
	} else {
		uses, synth := w.fnUses()
		if synth[fn] {
			fl.out.ok = false
		}
		fl.follow(fn, uses[fn], fvCtx{})
	}
	*fs = *fl.out
	return fs
}

func refsOf(v ssa.Value) []ssa.Instruction {
	if r := v.Referrers(); r != nil {
		return *r
	}
	return nil
}

func (fl *fvFollower) fail() { fl.out.ok = false }

// follow: v is the followed function value (or a copy of it) inside one function; users are the instructions that use it.
func (fl *fvFollower) follow(v ssa.Value, users []ssa.Instruction, ctx fvCtx) {
	if !fl.out.ok {
		return
	}
	key := fvSeenKey{v, ctx.call}
	if fl.seen[key] {
		return
	}
	fl.seen[key] = true
	fl.steps++
	if fl.steps > 4000 || fl.depth > 24 {
		fl.fail()
		return
	}
	fl.depth++
	defer func() { fl.depth-- }()
	for _, u := range users {
		if !fl.out.ok {
			return
		}
		switch x := u.(type) {
		case *ssa.DebugRef:
		case *ssa.ChangeType:
			fl.follow(x, refsOf(x), ctx)
		case ssa.CallInstruction:
			cc := x.Common()
			if cc.IsInvoke() {
				fl.fail() // handed to an interface method
				return
			}
			if cc.Value == v {
				fl.out.frames = append(fl.out.frames, callFrame{site: x, inst: ctx.inst, bound: fl.bound})
			}
			for p, a := range cc.Args {
				if a != v {
					continue
				}
				h := cc.StaticCallee()
				if h == nil || h.Blocks == nil || p >= len(h.Params) {
					fl.fail()
					return
				}
				up := ctx
				fl.follow(h.Params[p], refsOf(h.Params[p]), fvCtx{call: x, up: &up})
			}
		case *ssa.Store:
			if x.Val != v {
				fl.fail()
				return
			}
			switch a := x.Addr.(type) {
			case *ssa.Alloc:
				fl.followCell(a, ctx)
			case *ssa.FieldAddr:
				g, row, field, ok := fl.w.rowSlotOfStore(x)
				if !ok {
					// a table that is local to the function: a literal of records that is only walked
					if lt, lrow, lfield, isLocal := fl.w.localRowSlot(x); isLocal {
						calls, known := lt.memberCalls(lfield)
						if !known {
							fl.fail()
							return
						}
						for _, c := range calls {
							fl.out.frames = append(fl.out.frames, callFrame{site: c.site, inst: ctx.inst, bound: fl.bound, lrow: &localRowRef{lt, lrow, lfield, c.elem}})
						}
						continue
					}
					fl.fail()
					return
				}
				sites, ok := fl.w.tableMemberCalls(g, field)
				if !ok {
					fl.fail()
					return
				}
				for _, s := range sites {
					fl.out.frames = append(fl.out.frames, callFrame{site: s, env: rowEnv{g: row}, bound: fl.bound})
				}
			default:
				fl.fail()
				return
			}
		case *ssa.Return:
			if len(x.Results) != 1 {
				fl.fail()
				return
			}
			if ctx.call != nil {
				// the value leaves through the call it came in by
				cv, isCall := ctx.call.(*ssa.Call)
				if !isCall {
					continue // go / defer: the result is dropped
				}
				upctx := fvCtx{}
				if ctx.up != nil {
					upctx = *ctx.up
				}
				fl.follow(cv, refsOf(cv), upctx)
				continue
			}
			hs := fl.w.callFrames(x.Parent())
			if !hs.ok {
				fl.fail()
				return
			}
			for _, fr := range hs.frames {
				if cv, isCall := fr.site.(*ssa.Call); isCall {
					fl.follow(cv, refsOf(cv), fvCtx{inst: fr.inst})
				}
			}
		case *ssa.MakeClosure:
			// captured by value
			c, _ := x.Fn.(*ssa.Function)
			for k, b := range x.Bindings {
				if b != v {
					continue
				}
				if c == nil || k >= len(c.FreeVars) {
					fl.fail()
					return
				}
				fl.follow(c.FreeVars[k], refsOf(c.FreeVars[k]), fvCtx{inst: fl.instanceFrames(x, ctx)})
			}
		default:
			fl.fail()
			return
		}
	}
}

// followCell: the followed value was stored into a local variable that lives in a cell: every read of the cell may see it - in the
// function itself and in the closures that capture the cell.
func (fl *fvFollower) followCell(al *ssa.Alloc, ctx fvCtx) {
	key := fvSeenKey{al, ctx.call}
	if fl.seen[key] {
		return
	}
	fl.seen[key] = true
	for _, ref := range refsOf(al) {
		if !fl.out.ok {
			return
		}
		switch x := ref.(type) {
		case *ssa.DebugRef:
		case *ssa.Store:
			if x.Addr != ssa.Value(al) {
				fl.fail() // the address of the cell is kept somewhere
				return
			}
		case *ssa.UnOp:
			if x.Op != token.MUL {
				fl.fail()
				return
			}
			fl.follow(x, refsOf(x), ctx)
		case *ssa.MakeClosure:
			c, _ := x.Fn.(*ssa.Function)
			for k, b := range x.Bindings {
				if b != ssa.Value(al) {
					continue
				}
				if c == nil || k >= len(c.FreeVars) {
					fl.fail()
					return
				}
				inst := fl.instanceFrames(x, ctx)
				for _, r2 := range refsOf(c.FreeVars[k]) {
					switch y := r2.(type) {
					case *ssa.DebugRef:
					case *ssa.Store:
						if y.Addr != ssa.Value(c.FreeVars[k]) {
							fl.fail()
							return
						}
					case *ssa.UnOp:
						if y.Op != token.MUL {
							fl.fail()
							return
						}
						fl.follow(y, refsOf(y), fvCtx{inst: inst})
					default:
						fl.fail() // handed on to a nested closure, or its address taken
						return
					}
				}
			}
		default:
			fl.fail()
			return
		}
	}
}

// instanceFrames: the calls of the closure value mc (made in a function that was entered in context ctx).
func (fl *fvFollower) instanceFrames(mc *ssa.MakeClosure, ctx fvCtx) *frameSet {
	sub := &fvFollower{w: fl.w, out: &frameSet{ok: true}, seen: map[fvSeenKey]bool{}, depth: fl.depth}
	sub.follow(mc, refsOf(mc), ctx)
	return sub.out
}

// ---------- tables ----------

// rowSlotOfStore: st fills member `field` of row `row` of the package-level table g (the literal's element is filled in place, or
// built in a local that is then copied into the element).
func (w *World) rowSlotOfStore(st *ssa.Store) (g *ssa.Global, row int, field int, ok bool) {
	fa, isFA := st.Addr.(*ssa.FieldAddr)
	if !isFA {
		return nil, 0, 0, false
	}
	var ia *ssa.IndexAddr
	switch rec := fa.X.(type) {
	case *ssa.IndexAddr:
		ia = rec
	case *ssa.Alloc:
		n := 0
		for _, ref := range refsOf(rec) {
			ld, isLd := ref.(*ssa.UnOp)
			if !isLd || ld.Op != token.MUL {
				continue
			}
			for _, r2 := range refsOf(ld) {
				switch y := r2.(type) {
				case *ssa.DebugRef:
				case *ssa.Store:
					if dst, isIA := y.Addr.(*ssa.IndexAddr); isIA && y.Val == ssa.Value(ld) {
						ia = dst
						n++
					} else {
						return nil, 0, 0, false
					}
				default:
					return nil, 0, 0, false // the record goes somewhere else as well
				}
			}
		}
		if n != 1 {
			return nil, 0, 0, false
		}
	}
	if ia == nil {
		return nil, 0, 0, false
	}
	k, isK := ia.Index.(*ssa.Const)
	if !isK || k.Value == nil {
		return nil, 0, 0, false
	}
	switch base := ia.X.(type) {
	case *ssa.Global:
		g = base
	case *ssa.Alloc:
		// the backing array of a slice literal: sliced once, the slice stored into the variable
		for _, ref := range refsOf(base) {
			sl, isSl := ref.(*ssa.Slice)
			if !isSl {
				continue
			}
			for _, r2 := range refsOf(sl) {
				if s2, isSt := r2.(*ssa.Store); isSt && s2.Val == ssa.Value(sl) {
					if gg, isG := s2.Addr.(*ssa.Global); isG {
						if g != nil && g != gg {
							return nil, 0, 0, false
						}
						g = gg
					}
				}
			}
		}
	}
	if g == nil {
		return nil, 0, 0, false
	}
	rows := w.tableRows(g)
	i := int(k.Int64())
	if rows == nil || i < 0 || i >= len(rows) || rows[i][fa.Field] != stripIdentity(st.Val) {
		return nil, 0, 0, false
	}
	return g, i, fa.Field, true
}

type tableMemberKey struct {
	g     ssa.Value
	field int
}

var (
	tableMemberCallsMemo map[tableMemberKey][]ssa.CallInstruction
	tableMemberLeaks     map[tableMemberKey]bool
	tableWalkedOnlyMemo  = map[*ssa.Global]bool{}
)

// tableMemberCalls: every call of member `field` of the current row of table g; ok=false when the member is also read for anything
// but being called, or the table is used for anything but being walked.
func (w *World) tableMemberCalls(g *ssa.Global, field int) ([]ssa.CallInstruction, bool) {
	if tableMemberCallsMemo == nil {
		tableMemberCallsMemo = map[tableMemberKey][]ssa.CallInstruction{}
		tableMemberLeaks = map[tableMemberKey]bool{}
		for _, fn := range w.repoFuncsWithBodies() {
			forEachInstr(fn, func(_ *ssa.BasicBlock, ins ssa.Instruction) {
				v, isV := ins.(ssa.Value)
				if !isV {
					return
				}
				switch v.(type) {
				case *ssa.UnOp, *ssa.Field:
				default:
					return
				}
				tg, f, ok := w.rowMemberOf(v)
				if !ok {
					return
				}
				key := tableMemberKey{tg, f}
				for _, ref := range refsOf(v) {
					switch x := ref.(type) {
					case *ssa.DebugRef:
					case ssa.CallInstruction:
						cc := x.Common()
						leak := cc.IsInvoke() || cc.Value != v
						for _, a := range cc.Args {
							if a == v {
								leak = true
							}
						}
						if leak {
							tableMemberLeaks[key] = true
						} else {
							tableMemberCallsMemo[key] = append(tableMemberCallsMemo[key], x)
						}
					default:
						if _, isFn := v.Type().Underlying().(*types.Signature); isFn {
							tableMemberLeaks[key] = true
						}
					}
				}
			})
		}
	}
	key := tableMemberKey{g, field}
	if tableMemberLeaks[key] || !w.tableWalkedOnly(g) {
		return nil, false
	}
	return tableMemberCallsMemo[key], true
}

// tableWalkedOnly: the table variable is only indexed (and measured), its elements only read member by member - directly or through
// a copy of the element that is itself only read member by member: no alias of the table or of a row exists through which a member
// could be read without rowMemberOf seeing it.
func (w *World) tableWalkedOnly(g *ssa.Global) bool {
	if v, ok := tableWalkedOnlyMemo[g]; ok {
		return v
	}
	tableWalkedOnlyMemo[g] = false
	if w.tableRows(g) == nil {
		return false
	}
	okAll := true
	elemOK := func(ia *ssa.IndexAddr) {
		for _, ref := range refsOf(ia) {
			switch x := ref.(type) {
			case *ssa.DebugRef:
			case *ssa.FieldAddr:
				for _, r2 := range refsOf(x) {
					switch y := r2.(type) {
					case *ssa.DebugRef:
					case *ssa.UnOp:
						if y.Op != token.MUL {
							okAll = false
						}
					default:
						okAll = false
					}
				}
			case *ssa.UnOp:
				if x.Op != token.MUL {
					okAll = false
					continue
				}
				// a copy of the row
				for _, r2 := range refsOf(x) {
					switch y := r2.(type) {
					case *ssa.DebugRef:
					case *ssa.Field:
					case *ssa.Store:
						al, isAl := y.Addr.(*ssa.Alloc)
						if !isAl || y.Val != ssa.Value(x) || recordCopySource(al) == nil {
							okAll = false
						}
					default:
						okAll = false
					}
				}
			default:
				okAll = false
			}
		}
	}
	baseOK := func(base ssa.Value) {
		for _, ref := range refsOf(base) {
			switch x := ref.(type) {
			case *ssa.DebugRef:
			case *ssa.IndexAddr:
				if x.X != base {
					okAll = false
					continue
				}
				elemOK(x)
			case *ssa.Call:
				if b, isB := x.Call.Value.(*ssa.Builtin); !isB || (b.Name() != "len" && b.Name() != "cap") {
					okAll = false
				}
			default:
				okAll = false
			}
		}
	}
	initFn := g.Pkg.Func("init")
	var ops []*ssa.Value
	for _, fn := range w.repoFuncsWithBodies() {
		forEachInstr(fn, func(_ *ssa.BasicBlock, ins ssa.Instruction) {
			ops = ins.Operands(ops[:0])
			uses := false
			for _, op := range ops {
				if op != nil && *op == ssa.Value(g) {
					uses = true
				}
			}
			if !uses {
				return
			}
			switch x := ins.(type) {
			case *ssa.DebugRef:
			case *ssa.UnOp:
				if x.Op != token.MUL {
					okAll = false
					return
				}
				baseOK(x)
			case *ssa.IndexAddr: // an array variable is indexed in place
				if x.X != ssa.Value(g) {
					okAll = false
					return
				}
				if fn != initFn {
					elemOK(x)
				}
			case *ssa.Store:
				if fn != initFn || x.Addr != ssa.Value(g) {
					okAll = false
				}
			default:
				okAll = false
			}
		})
	}
	tableWalkedOnlyMemo[g] = okAll
	return okAll
}

// recordMemberOf: v reads member `field` of a record: base is what identifies the record (its address, or the loaded copy).
func recordMemberOf(v ssa.Value) (base ssa.Value, field int, ok bool) {
	switch x := stripIdentity(v).(type) {
	case *ssa.Field:
		return x.X, x.Field, true
	case *ssa.UnOp:
		if fa, isFA := x.X.(*ssa.FieldAddr); isFA && x.Op == token.MUL {
			return fa.X, fa.Field, true
		}
	}
	return nil, 0, false
}

// ---------- "holds at every call" ----------

// holdsAtEveryFrame: whatever `check` decides about the argument in position idx holds at every call in fs: at the call itself, or -
// where the caller only hands on a parameter of its own - at every call of the caller (of that instance of the caller, for a
// closure made by a wrapper). `ascend` may veto going up from a frame (nil: never).
func (w *World) holdsAtEveryFrame(fs *frameSet, idx int, check func(fr callFrame, arg ssa.Value) bool, ascend func(fr callFrame) bool, depth int) bool {
	if fs == nil || !fs.ok || len(fs.frames) == 0 || depth > 4 {
		return false
	}
	for _, fr := range fs.frames {
		args := fr.args()
		if fr.site.Common().IsInvoke() || idx >= len(args) {
			return false
		}
		arg := args[idx]
		if check(fr, arg) {
			continue
		}
		p, isParam := stripIdentity(arg).(*ssa.Parameter)
		caller := fr.site.Parent()
		if !isParam || p.Parent() != caller || (ascend != nil && !ascend(fr)) {
			return false
		}
		m := -1
		for i, q := range caller.Params {
			if q == p {
				m = i
			}
		}
		if m < 0 {
			return false
		}
		up := fr.inst
		if up == nil {
			up = w.callFrames(caller)
		}
		if !w.holdsAtEveryFrame(up, m, check, ascend, depth+1) {
			return false
		}
	}
	return true
}

func paramIndex(fn *ssa.Function, v ssa.Value) int {
	p, ok := stripIdentity(v).(*ssa.Parameter)
	if !ok || p.Parent() != fn {
		return -1
	}
	for i, q := range fn.Params {
		if q == p {
			return i
		}
	}
	return -1
}

// inSomeLoop: the block lies on a cycle of its function.
func inSomeLoop(b *ssa.BasicBlock) bool {
	for _, hb := range b.Parent().Blocks {
		for _, p := range hb.Preds {
			if hb.Dominates(p) && naturalLoop(hb)[b] {
				return true
			}
		}
	}
	return false
}

// ---------- C11/O: the optional child was tested where the handler is called from ----------

// guardedByPathAtFrames: the access path starts at a parameter of fn; at every call that can enter fn - followed through the
// function values fn is used as - the same path taken from the argument is under a non-nil test: a dominating test at the call, or
// the predicate that sits beside the called member in the same row of a table and was asked about the same node.
func (w *World) guardedByPathAtFrames(fn *ssa.Function, v ssa.Value, path string, ctxs map[string]*CtxInfo) bool {
	root, ok := w.accessRoot(v, ctxs, 0).(*ssa.Parameter)
	if !ok || root.Parent() != fn {
		return false
	}
	prefix := fmt.Sprintf("%p", ssa.Value(root))
	if !strings.HasPrefix(path, prefix) {
		return false
	}
	suffix := strings.TrimPrefix(path, prefix)
	idx := paramIndex(fn, root)
	if idx < 0 {
		return false
	}
	check := func(fr callFrame, arg ssa.Value) bool {
		if w.guardedByPath(fr.site.Block(), w.accessPath(arg, ctxs, 0)+suffix, ctxs) {
			return true
		}
		return w.guardedByRowPredicate(fr, arg, suffix, ctxs)
	}
	return w.holdsAtEveryFrame(w.callFrames(fn), idx, check, nil, 0)
}

// guardedByRecordPathAtFrames: the access path starts at a member of a record the function was handed by value (a parameter, the
// receiver; for a closure: of the function that made it) and never changes; at every call that can enter that function the same
// member of the argument is under a non-nil test of the path: a dominating test at the call, or - the function being called as a
// member of a row of a local table - the flag that sits beside it in the same row, which the call is made under and which the row's
// literal computed as that very test.
func (w *World) guardedByRecordPathAtFrames(v ssa.Value, path string, ctxs map[string]*CtxInfo) bool {
	ld, ok := w.accessRoot(v, ctxs, 0).(*ssa.UnOp)
	if !ok {
		return false
	}
	al, k, ok := recordMemberRoot(ld)
	if !ok {
		return false
	}
	prefix := fmt.Sprintf("%p", ssa.Value(al))
	member := fmt.Sprintf("#%d", k)
	if !strings.HasPrefix(path, prefix+member) {
		return false
	}
	suffix := strings.TrimPrefix(path, prefix)
	owner := al.Parent()
	idx := paramIndex(owner, unchangedParamRecord(al))
	if idx < 0 {
		return false
	}
	check := func(fr callFrame, arg ssa.Value) bool {
		want := w.accessPath(arg, ctxs, 0) + suffix
		return w.guardedByPath(fr.site.Block(), want, ctxs) || w.guardedByRowFlag(fr, want, ctxs)
	}
	return w.holdsAtEveryFrame(w.callFrames(owner), idx, check, nil, 0)
}

// guardedByRowFlag: the frame calls member A of an element of a local table under an edge of a test of the bool member G of the same
// element; in the row that holds the followed function the literal computes G as a nil test of `want`, and the edge is the one on
// which the node is there.
func (w *World) guardedByRowFlag(fr callFrame, want string, ctxs map[string]*CtxInfo) bool {
	lr := fr.lrow
	if lr == nil || lr.row < 0 || lr.row >= len(lr.table.rows) {
		return false
	}
	for _, rd := range lr.table.reads {
		if rd.field == lr.field || !sameLocalElem(rd.elem, lr.elem) || !isBoolType(rd.v.Type()) {
			continue
		}
		flag := lr.table.rows[lr.row][rd.field]
		if flag == nil {
			continue
		}
		x, nn, isNilTest := nilTest(flag)
		if !isNilTest || w.accessPath(x, ctxs, 0) != want {
			continue
		}
		for _, bb := range fr.site.Parent().Blocks {
			cond := branchCond(bb)
			if cond == nil {
				continue
			}
			neg := false
			for {
				if u, isU := cond.(*ssa.UnOp); isU && u.Op == token.NOT {
					neg, cond = !neg, u.X
					continue
				}
				break
			}
			if cond != rd.v {
				continue
			}
			// the flag is true where the node is there (nn == 0): the edge on which the flag is true; and the other way round
			succ := nn
			if neg {
				succ = 1 - nn
			}
			if edgeDominates(bb, succ, fr.site.Block()) {
				return true
			}
		}
	}
	return false
}

var boxedTypesMemo map[*types.TypeName]bool

// boxedReceiver: a value of the method's receiver type (or a pointer to one, or a record that embeds it) is put into an interface
// somewhere in the repository: the method can be entered by dynamic dispatch.
func (w *World) boxedReceiver(fn *ssa.Function) bool {
	if boxedTypesMemo == nil {
		boxedTypesMemo = map[*types.TypeName]bool{}
		var mark func(t types.Type, depth int)
		mark = func(t types.Type, depth int) {
			if depth > 4 {
				return
			}
			if pt, ok := t.(*types.Pointer); ok {
				t = pt.Elem()
			}
			n := namedOf(t)
			if n == nil {
				return
			}
			boxedTypesMemo[n.Obj()] = true
			if st, ok := n.Underlying().(*types.Struct); ok {
				for i := 0; i < st.NumFields(); i++ {
					if st.Field(i).Embedded() {
						mark(st.Field(i).Type(), depth+1)
					}
				}
			}
		}
		for fn := range w.allFuncs {
			if fn.Blocks == nil {
				continue
			}
			forEachInstr(fn, func(_ *ssa.BasicBlock, ins ssa.Instruction) {
				if mi, ok := ins.(*ssa.MakeInterface); ok {
					mark(mi.X.Type(), 0)
				}
			})
		}
	}
	recv := fn.Signature.Recv()
	if recv == nil {
		return false
	}
	t := recv.Type()
	if pt, ok := t.(*types.Pointer); ok {
		t = pt.Elem()
	}
	n := namedOf(t)
	return n == nil || boxedTypesMemo[n.Obj()]
}

// guardedByRowPredicate: the frame calls member A of the current row of a table with `node`, under the true edge of a call of another
// member G of the same row with the same node; the row is known (fr.env), and what its literal gives G is a predicate that says yes
// only where node<suffix> is not nil.
func (w *World) guardedByRowPredicate(fr callFrame, node ssa.Value, suffix string, ctxs map[string]*CtxInfo) bool {
	site := fr.site
	g, fieldA, ok := w.rowMemberOf(site.Common().Value)
	if !ok {
		return false
	}
	row, have := fr.env[g]
	if !have {
		return false
	}
	base, _, ok := recordMemberOf(site.Common().Value)
	if !ok {
		return false
	}
	rows := w.tableRows(g)
	if row < 0 || row >= len(rows) {
		return false
	}
	for _, bb := range site.Parent().Blocks {
		cond := branchCond(bb)
		if cond == nil {
			continue
		}
		neg := false
		c := cond
		for {
			if u, isU := c.(*ssa.UnOp); isU && u.Op == token.NOT {
				neg, c = !neg, u.X
				continue
			}
			break
		}
		pc, isCall := c.(*ssa.Call)
		if !isCall || pc.Call.IsInvoke() || pc.Call.StaticCallee() != nil {
			continue
		}
		g2, fieldG, ok := w.rowMemberOf(pc.Call.Value)
		if !ok || g2 != g || fieldG == fieldA {
			continue
		}
		base2, _, ok := recordMemberOf(pc.Call.Value)
		if !ok || !(base2 == base || sameCellValue(base2, base) || sameElemAddr(base2, base)) {
			continue
		}
		j := -1
		for i, a := range pc.Call.Args {
			if a == node || sameCellValue(a, node) {
				j = i
			}
		}
		if j < 0 {
			continue
		}
		succ := 0
		if neg {
			succ = 1
		}
		if !edgeDominates(bb, succ, site.Block()) {
			continue
		}
		var pred *ssa.Function
		switch pv := rows[row][fieldG].(type) {
		case *ssa.Function:
			pred = pv
		case *ssa.MakeClosure:
			pred, _ = pv.Fn.(*ssa.Function)
		}
		if pred == nil || j >= len(pred.Params) {
			continue
		}
		if w.predicateImpliesNonNil(pred, pred.Params[j], suffix, ctxs) {
			return true
		}
	}
	return false
}

// ---------- C07/C12 computed-fields-are-single: the field was tested where the replacing function is called from ----------

// notRepeatedTestDominates: blk is under the edge of a test of holder.IsRepeat on which it is false.
func notRepeatedTestDominates(blk *ssa.BasicBlock, holder ssa.Value) bool {
	for _, bb := range blk.Parent().Blocks {
		cond := branchCond(bb)
		if cond == nil {
			continue
		}
		val := true
		c := cond
		for {
			if u, ok := c.(*ssa.UnOp); ok && u.Op == token.NOT {
				c, val = u.X, !val
				continue
			}
			break
		}
		ld, ok := stripIdentity(c).(*ssa.UnOp)
		if !ok || ld.Op != token.MUL {
			continue
		}
		fa, ok := ld.X.(*ssa.FieldAddr)
		if !ok {
			continue
		}
		if tn, fname, _, _ := fieldOf(fa); tn != "Field" || fname != "IsRepeat" || !sameCellValue(fa.X, holder) {
			continue
		}
		succ := 1
		if !val {
			succ = 0
		}
		if edgeDominates(bb, succ, blk) {
			return true
		}
	}
	return false
}

// notRepeatedAtEveryCall: the field that fn's parameter `holder` names has been shown not to be repeated at every call that enters
// fn (the test stands in the caller, or in the wrapper closure through which alone fn is reached).
func (w *World) notRepeatedAtEveryCall(fn *ssa.Function, holder ssa.Value) bool {
	idx := paramIndex(fn, holder)
	if idx < 0 {
		return false
	}
	check := func(fr callFrame, arg ssa.Value) bool { return notRepeatedTestDominates(fr.site.Block(), arg) }
	return w.holdsAtEveryFrame(w.callFrames(fn), idx, check, nil, 0)
}

// kindTestDominates: blk is under an edge of a test of the field's kind on which only the kinds in `allowed` remain; fresh: the test
// is made inside every loop of the function that contains blk (in the same iteration).
func kindTestDominates(blk *ssa.BasicBlock, holder ssa.Value, allowed uint8, fresh bool) bool {
	fn := blk.Parent()
	var loops []map[*ssa.BasicBlock]bool
	if fresh {
		for _, hb := range fn.Blocks {
			isHeader := false
			for _, p := range hb.Preds {
				if hb.Dominates(p) {
					isHeader = true
				}
			}
			if isHeader {
				if lp := naturalLoop(hb); lp[blk] {
					loops = append(loops, lp)
				}
			}
		}
	}
	for _, bb := range fn.Blocks {
		cond := branchCond(bb)
		if cond == nil {
			continue
		}
		tf, refine := fieldTest(cond)
		if tf == nil || canonField(tf) != canonField(holder) {
			continue
		}
		for succ := 0; succ < 2; succ++ {
			k := refine(stTop, succ == 0).K
			if k == 0 || k&^allowed != 0 || !edgeDominates(bb, succ, blk) {
				continue
			}
			if !fresh {
				return true
			}
			c := cond
			for {
				if u, ok := c.(*ssa.UnOp); ok && u.Op == token.NOT {
					c = u.X
					continue
				}
				break
			}
			var at ssa.Instruction
			switch x := c.(type) {
			case *ssa.Extract:
				at, _ = x.Tuple.(ssa.Instruction)
			case ssa.Instruction:
				at = x
			}
			if at == nil {
				continue
			}
			inAll := true
			for _, lp := range loops {
				if !lp[at.Block()] {
					inAll = false
				}
			}
			if inAll {
				return true
			}
		}
	}
	return false
}

// plainNumberAtEveryCall: the store in block b of fn replaces the attribute of the field fn's parameter `holder` names; at every
// call that enters fn the field has just been shown to be a plain number: the test dominates the call, in the same iteration of
// every loop around the call, and nothing between the test and the store repeats (neither the store nor a call on the way lies in a
// loop of its own function that the test is outside of).
func (w *World) plainNumberAtEveryCall(fn *ssa.Function, b *ssa.BasicBlock, holder ssa.Value) bool {
	idx := paramIndex(fn, holder)
	if idx < 0 || inSomeLoop(b) {
		return false
	}
	check := func(fr callFrame, arg ssa.Value) bool {
		return kindTestDominates(fr.site.Block(), arg, 1<<kBasic, true)
	}
	ascend := func(fr callFrame) bool { return !inSomeLoop(fr.site.Block()) }
	return w.holdsAtEveryFrame(w.callFrames(fn), idx, check, ascend, 0)
}

// ---------- C11/L: the field's kind was tested where the function that reads the link is called from ----------

// kindExcludedAtEveryCall: at every call that enters fn, the field handed over in position idx is under a test that excludes kind k.
func (w *World) kindExcludedAtEveryCall(fn *ssa.Function, idx int, k int) bool {
	check := func(fr callFrame, arg ssa.Value) bool {
		return kindTestDominates(fr.site.Block(), arg, allKinds&^(1<<uint(k)), false)
	}
	return w.holdsAtEveryFrame(w.callFrames(fn), idx, check, nil, 0)
}
