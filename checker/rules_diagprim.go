package main

import (
	"go/token"
	"go/types"

	"golang.org/x/tools/go/ssa"
)

// Diagnostic primitives.
//
// A diagnostic is recorded when a *model.SyntaxError is appended to the list the gate in cmd.Compile reads
// (BinaryModel.SyntaxErrors). A *primitive* is a function that does that append on every call: to the member itself
// (`m.SyntaxErrors = append(m.SyntaxErrors, e)`), or to what its receiver / a parameter / a captured variable points to when that
// pointer is, at every place the function is entered from, the address of that member (`func (d *Diagnostics) add(e)` with every
// call `m.SyntaxErrors.add(..)`, or `d.add(..)` inside a closure that `(d *Diagnostics) at(..)` returns, `at` again only ever
// entered with `&m.SyntaxErrors`). Wrappers (diagWrappers) and the closures constructors return (calleeOf) build on the primitives.

// isGateListMember: the address of BinaryModel.SyntaxErrors.
func isGateListMember(v ssa.Value) bool {
	fa, ok := v.(*ssa.FieldAddr)
	if !ok {
		return false
	}
	tn, f, pkg, _ := fieldOf(fa)
	return tn == "BinaryModel" && f == "SyntaxErrors" && pkg == modPath+"/internal/model"
}

// progIndex: where repo functions are entered from and where closures over them are made, over the whole program (the synthetic
// wrappers go/ssa makes for method values and interface dispatch included).
type progIndex struct {
	sites    map[*ssa.Function][]ssa.CallInstruction // static call sites, by callee
	closures map[*ssa.Function][]*ssa.MakeClosure    // closure constructions, by function
	asValue  map[*ssa.Function]bool                  // the function is used as a plain value (method expression, function constant)
	invoked  map[string]bool                         // names of methods called through an interface
}

var theProgIndex *progIndex

func programIndex() *progIndex {
	if theProgIndex != nil || theWorld == nil {
		return theProgIndex
	}
	ix := &progIndex{sites: map[*ssa.Function][]ssa.CallInstruction{}, closures: map[*ssa.Function][]*ssa.MakeClosure{}, asValue: map[*ssa.Function]bool{}, invoked: map[string]bool{}}
	w := theWorld
	inRepo := func(f *ssa.Function) bool {
		if f == nil {
			return false
		}
		p := pkgOfFunc(f)
		return p == w.Model || p == w.Parser || p == w.Cmd
	}
	var fns []*ssa.Function
	for fn := range w.allFuncs {
		if fn.Blocks != nil {
			fns = append(fns, fn)
		}
	}
	sortFuncsByName(fns)
	for _, fn := range fns {
		for _, b := range fn.Blocks {
			for _, ins := range b.Instrs {
				var callee *ssa.Function
				if c, ok := ins.(ssa.CallInstruction); ok {
					if c.Common().IsInvoke() {
						ix.invoked[c.Common().Method.Name()] = true
					} else if g := c.Common().StaticCallee(); inRepo(g) {
						callee = g
						ix.sites[g] = append(ix.sites[g], c)
					}
				}
				if mc, ok := ins.(*ssa.MakeClosure); ok {
					if g, ok := mc.Fn.(*ssa.Function); ok && (inRepo(g) || g.Synthetic != "") {
						ix.closures[g] = append(ix.closures[g], mc)
					}
					continue
				}
				for _, op := range ins.Operands(nil) {
					if g, ok := (*op).(*ssa.Function); ok && inRepo(g) {
						if g == callee {
							// the callee operand of a static call; the same function among the arguments is a value
							cc := ins.(ssa.CallInstruction).Common()
							for _, a := range cc.Args {
								if a == ssa.Value(g) {
									ix.asValue[g] = true
								}
							}
							continue
						}
						ix.asValue[g] = true
					}
				}
			}
		}
	}
	theProgIndex = ix
	return ix
}

// diagListAddr: the pointer v is, whenever the code that holds it runs, the address of the list the gate reads.
func diagListAddr(v ssa.Value, depth int, busy map[ssa.Value]bool) bool {
	if v == nil || depth > 8 {
		return false
	}
	v = stripIdentity(v)
	if busy[v] {
		return true // a routine that hands its own pointer on to itself
	}
	busy[v] = true
	defer delete(busy, v)
	switch x := v.(type) {
	case *ssa.FieldAddr:
		if !isGateListMember(x) {
			return false
		}
		// of a model the routine was given, not of one it has just made
		switch stripIdentity(x.X).(type) {
		case *ssa.Alloc, *ssa.Call:
			return false
		}
		return true
	case *ssa.Phi:
		for _, e := range x.Edges {
			if !diagListAddr(e, depth+1, busy) {
				return false
			}
		}
		return len(x.Edges) > 0
	case *ssa.Parameter:
		return paramAlwaysBound(x, func(a ssa.Value) bool { return diagListAddr(a, depth+1, busy) })
	case *ssa.FreeVar:
		// captured by value (the synthetic wrapper of a method value keeps the receiver this way)
		return freeVarAlwaysBound(x, func(a ssa.Value) bool { return diagListAddr(a, depth+1, busy) })
	case *ssa.UnOp:
		if x.Op != token.MUL {
			return false
		}
		// a variable that lives in a cell because a closure captures it
		var cells []*ssa.Alloc
		switch c := x.X.(type) {
		case *ssa.Alloc:
			cells = []*ssa.Alloc{c}
		case *ssa.FreeVar:
			okAll := freeVarAlwaysBound(c, func(a ssa.Value) bool {
				al, ok := a.(*ssa.Alloc)
				if ok {
					cells = append(cells, al)
				}
				return ok
			})
			if !okAll {
				return false
			}
		default:
			return false
		}
		if len(cells) == 0 {
			return false
		}
		for _, cell := range cells {
			if !cellOnlyHolds(cell, func(a ssa.Value) bool { return diagListAddr(a, depth+1, busy) }) {
				return false
			}
		}
		return true
	}
	return false
}

// paramAlwaysBound: every place from which p's function is entered passes for p a value that satisfies ok (and there is such a place).
func paramAlwaysBound(p *ssa.Parameter, ok func(ssa.Value) bool) bool {
	fn := p.Parent()
	ix := programIndex()
	if fn == nil || ix == nil {
		return false
	}
	idx := -1
	for i, q := range fn.Params {
		if q == p {
			idx = i
		}
	}
	if idx < 0 {
		return false
	}
	dyn := 0
	// entered through a function value: any call of a function value of this type may be an entry
	if ix.asValue[fn] || len(ix.closures[fn]) > 0 {
		if fn.Signature.Recv() != nil {
			return false
		}
		bad := false
		for _, g := range theWorld.allFuncsInRepo() {
			forEachInstr(g, func(_ *ssa.BasicBlock, ins ssa.Instruction) {
				c, isCall := ins.(ssa.CallInstruction)
				if !isCall || c.Common().IsInvoke() || c.Common().StaticCallee() != nil {
					return
				}
				if _, isB := c.Common().Value.(*ssa.Builtin); isB {
					return
				}
				if !types.Identical(c.Common().Value.Type().Underlying(), fn.Signature) {
					return
				}
				dyn++
				if idx >= len(c.Common().Args) || !ok(c.Common().Args[idx]) {
					bad = true
				}
			})
		}
		if bad {
			return false
		}
	}
	if fn.Signature.Recv() != nil && ix.invoked[fn.Name()] && methodInvocable(fn) {
		return false
	}
	sites := ix.sites[fn]
	if len(sites)+dyn == 0 {
		return false
	}
	for _, c := range sites {
		if idx >= len(c.Common().Args) || !ok(c.Common().Args[idx]) {
			return false
		}
	}
	return true
}

// methodInvocable: some interface method call in the repo could dispatch to fn (same name, the receiver type implements the
// interface the call goes through).
func methodInvocable(fn *ssa.Function) bool {
	w := theWorld
	recv := fn.Signature.Recv().Type()
	found := false
	for _, g := range w.allFuncsInRepo() {
		forEachInstr(g, func(_ *ssa.BasicBlock, ins ssa.Instruction) {
			c, ok := ins.(ssa.CallInstruction)
			if !ok || !c.Common().IsInvoke() || c.Common().Method.Name() != fn.Name() {
				return
			}
			if it, ok := c.Common().Value.Type().Underlying().(*types.Interface); ok && types.Implements(recv, it) {
				found = true
			}
		})
	}
	return found
}

// freeVarAlwaysBound: every construction of the closure binds the captured variable to a value that satisfies ok.
func freeVarAlwaysBound(fv *ssa.FreeVar, ok func(ssa.Value) bool) bool {
	g := fv.Parent()
	ix := programIndex()
	if g == nil || ix == nil {
		return false
	}
	idx := -1
	for j, q := range g.FreeVars {
		if q == fv {
			idx = j
		}
	}
	mcs := ix.closures[g]
	if idx < 0 || len(mcs) == 0 {
		return false
	}
	for _, mc := range mcs {
		if idx >= len(mc.Bindings) || !ok(mc.Bindings[idx]) {
			return false
		}
	}
	return true
}

// cellOnlyHolds: the variable cell is written only with values that satisfy ok - by its function and by the closures that capture it
// (which may only read it) - and its address goes nowhere else.
func cellOnlyHolds(cell *ssa.Alloc, ok func(ssa.Value) bool) bool {
	if cell.Referrers() == nil {
		return false
	}
	stores := 0
	for _, ref := range *cell.Referrers() {
		switch r := ref.(type) {
		case *ssa.Store:
			if r.Addr != ssa.Value(cell) || !ok(r.Val) {
				return false
			}
			stores++
		case *ssa.UnOp:
			if r.Op != token.MUL {
				return false
			}
		case *ssa.DebugRef:
		case *ssa.MakeClosure:
			g, isFn := r.Fn.(*ssa.Function)
			if !isFn {
				return false
			}
			for j, bnd := range r.Bindings {
				if bnd != ssa.Value(cell) {
					continue
				}
				if j >= len(g.FreeVars) || g.FreeVars[j].Referrers() == nil {
					return false
				}
				for _, r2 := range *g.FreeVars[j].Referrers() {
					if u, isLoad := r2.(*ssa.UnOp); !isLoad || u.Op != token.MUL {
						if _, isDbg := r2.(*ssa.DebugRef); !isDbg {
							return false
						}
					}
				}
			}
		default:
			return false
		}
	}
	return stores > 0
}

func sameAddress(a, b ssa.Value) bool {
	a, b = stripIdentity(a), stripIdentity(b)
	if a == b {
		return true
	}
	fa, ok1 := a.(*ssa.FieldAddr)
	fb, ok2 := b.(*ssa.FieldAddr)
	if ok1 && ok2 && fa.Field == fb.Field && stripIdentity(fa.X) == stripIdentity(fb.X) && types.Identical(fa.X.Type(), fb.X.Type()) {
		return true
	}
	// two loads of one variable cell that is written once
	if ca, cb := singleAssignCell(a), singleAssignCell(b); ca != nil && ca == cb {
		return true
	}
	return false
}

func isSyntaxErrorPtr(t types.Type) bool {
	p, ok := t.Underlying().(*types.Pointer)
	return ok && typeIs(p.Elem(), modPath+"/internal/model", "SyntaxError") && namedOf(p.Elem()) != nil
}

// gateListAppends: the stores `*loc = append(*loc, e...)` of fn whose location is the list the gate reads and whose appended
// elements are all diagnostics records; with each store the values appended.
type gateListAppend struct {
	store *ssa.Store
	elems []ssa.Value
}

func gateListAppends(fn *ssa.Function) []gateListAppend {
	var out []gateListAppend
	forEachInstr(fn, func(_ *ssa.BasicBlock, ins ssa.Instruction) {
		st, ok := ins.(*ssa.Store)
		if !ok {
			return
		}
		ap, ok := stripIdentity(st.Val).(*ssa.Call)
		if !ok {
			return
		}
		if bi, ok := ap.Call.Value.(*ssa.Builtin); !ok || bi.Name() != "append" || len(ap.Call.Args) != 2 {
			return
		}
		sl, ok := ap.Call.Args[0].Type().Underlying().(*types.Slice)
		if !ok || !isSyntaxErrorPtr(sl.Elem()) {
			return
		}
		// the list that is extended is the list that is written
		ld, ok := stripIdentity(ap.Call.Args[0]).(*ssa.UnOp)
		if !ok || ld.Op != token.MUL || !sameAddress(ld.X, st.Addr) {
			return
		}
		elems := variadicOperands(ap.Call.Args[1])
		if len(elems) == 0 {
			return
		}
		for _, e := range elems {
			if e == nil {
				return
			}
		}
		if !diagListAddr(st.Addr, 0, map[ssa.Value]bool{}) {
			return
		}
		out = append(out, gateListAppend{st, elems})
	})
	return out
}

func returnBlocks(fn *ssa.Function) []*ssa.BasicBlock {
	var rets []*ssa.BasicBlock
	for _, b := range fn.Blocks {
		if len(b.Instrs) == 0 {
			continue
		}
		if _, ok := b.Instrs[len(b.Instrs)-1].(*ssa.Return); ok {
			rets = append(rets, b)
		}
	}
	return rets
}

var diagPrimitiveSet map[*ssa.Function]bool

// diagPrimitives: the repo functions that append a diagnostics record to the list the gate reads on every call (the append
// dominates every return).
func diagPrimitives() map[*ssa.Function]bool {
	if diagPrimitiveSet != nil || theWorld == nil {
		return diagPrimitiveSet
	}
	set := map[*ssa.Function]bool{}
	diagPrimitiveSet = set
	for _, fn := range theWorld.srcFuncs {
		if len(fn.Blocks) == 0 {
			continue
		}
		// cheap filter: only functions that store an extended []*SyntaxError
		rets := returnBlocks(fn)
		if len(rets) == 0 {
			continue
		}
		for _, a := range gateListAppends(fn) {
			all := true
			for _, rb := range rets {
				if !a.store.Block().Dominates(rb) {
					all = false
				}
			}
			if all {
				set[fn] = true
			}
		}
	}
	return set
}

// keepsDiagnostic: fn, on every call on which `rec` (a parameter of fn) is not nil, appends rec to the list the gate reads: it does
// the append itself, or it hands rec to a function that does (the list being the one of the model `mdl` points to when the list is
// reached through a model, or the gate's list by the reasoning of diagListAddr when it is reached through a pointer to the list).
func keepsDiagnostic(fn *ssa.Function, rec *ssa.Parameter, depth int) bool {
	if fn == nil || rec == nil || depth > 5 || len(fn.Blocks) == 0 {
		return false
	}
	rets := returnBlocks(fn)
	onEveryCall := func(b *ssa.BasicBlock) bool {
		for _, rb := range rets {
			if b.Dominates(rb) || guardedByNil(rb, rec, false) {
				continue
			}
			return false
		}
		return len(rets) > 0
	}
	for _, a := range gateListAppends(fn) {
		has := false
		for _, e := range a.elems {
			if stripIdentity(e) == ssa.Value(rec) {
				has = true
			}
		}
		if has && onEveryCall(a.store.Block()) {
			return true
		}
	}
	found := false
	forEachInstr(fn, func(b *ssa.BasicBlock, ins ssa.Instruction) {
		c, ok := ins.(ssa.CallInstruction)
		if !ok || found {
			return
		}
		if _, isCall := ins.(*ssa.Call); !isCall {
			return // go / defer
		}
		g := calleeOf(c)
		if g == nil || g == fn || len(g.Blocks) == 0 {
			return
		}
		for j, a := range c.Common().Args {
			if stripIdentity(a) != ssa.Value(rec) || j >= len(g.Params) {
				continue
			}
			if keepsDiagnostic(g, g.Params[j], depth+1) && onEveryCall(b) {
				found = true
			}
		}
	})
	return found
}

// diagPositionValues: the values, in the function of the call `diag`, that become the given position member ("Line" / "Column") of
// the record the call files: stored into a record built at the call, or - when the routine called builds the record - the argument
// that is bound to the parameter stored there, also through the variables a reporter closure captured from the constructor that
// made it (`m.SyntaxErrors.at(f.Line, f.Column)("..")`).
func diagPositionValues(diag ssa.CallInstruction, member string) []ssa.Value {
	var out []ssa.Value
	memberStores := func(f *ssa.Function, only ssa.Value) []ssa.Value {
		var vs []ssa.Value
		forEachInstr(f, func(_ *ssa.BasicBlock, ins ssa.Instruction) {
			st, ok := ins.(*ssa.Store)
			if !ok {
				return
			}
			fa, ok := st.Addr.(*ssa.FieldAddr)
			if !ok {
				return
			}
			if tn, m, _, _ := fieldOf(fa); tn != "SyntaxError" || m != member {
				return
			}
			if only != nil && stripIdentity(fa.X) != only {
				return
			}
			vs = append(vs, st.Val)
		})
		return vs
	}
	for _, a := range diag.Common().Args {
		if al, ok := stripIdentity(a).(*ssa.Alloc); ok && isSyntaxErrorPtr(al.Type()) {
			out = append(out, memberStores(diag.Parent(), al)...)
		}
	}
	if len(out) > 0 {
		return out
	}
	f := calleeOf(diag)
	if f == nil || len(f.Blocks) == 0 {
		return nil
	}
	for _, v := range memberStores(f, nil) {
		v = stripIdentity(v)
		switch x := v.(type) {
		case *ssa.Parameter:
			if i := paramIndexIn(f, x); i >= 0 && i < len(diag.Common().Args) {
				out = append(out, diag.Common().Args[i])
			}
			continue
		case *ssa.UnOp:
			if x.Op != token.MUL {
				continue
			}
			v = x.X
		}
		fv, ok := v.(*ssa.FreeVar)
		if !ok || f.Parent() == nil {
			continue
		}
		// the reporter was made by a call, in sight, of the function that encloses it
		cs, ok := stripIdentity(diag.Common().Value).(*ssa.Call)
		if !ok || cs.Call.StaticCallee() != f.Parent() {
			continue
		}
		j := -1
		for k, q := range f.FreeVars {
			if q == fv {
				j = k
			}
		}
		forEachInstr(f.Parent(), func(_ *ssa.BasicBlock, ins ssa.Instruction) {
			mc, ok := ins.(*ssa.MakeClosure)
			if !ok || mc.Fn != ssa.Value(f) || j < 0 || j >= len(mc.Bindings) {
				return
			}
			var p *ssa.Parameter
			switch b := mc.Bindings[j].(type) {
			case *ssa.Alloc:
				p = cellParameter(b)
			case *ssa.Parameter:
				p = b
			}
			if p == nil {
				return
			}
			if i := paramIndexIn(f.Parent(), p); i >= 0 && i < len(cs.Call.Args) {
				out = append(out, cs.Call.Args[i])
			}
		})
	}
	return out
}

func paramIndexIn(f *ssa.Function, p *ssa.Parameter) int {
	for i, q := range f.Params {
		if q == p {
			return i
		}
	}
	return -1
}

// cellParameter: the parameter a variable cell holds when the cell is written once, with that parameter.
func cellParameter(cell *ssa.Alloc) *ssa.Parameter {
	if cell.Referrers() == nil {
		return nil
	}
	var p *ssa.Parameter
	n := 0
	for _, ref := range *cell.Referrers() {
		if st, ok := ref.(*ssa.Store); ok && st.Addr == ssa.Value(cell) {
			n++
			p, _ = st.Val.(*ssa.Parameter)
		}
	}
	if n != 1 {
		return nil
	}
	return p
}

// diagLineHolder: ins gives a diagnostic the line of a field (`Line: f.Line` stored into a diagnostics record, or `f.Line` handed to
// the routine that builds the record): the value f; nil otherwise.
func diagLineHolder(ins ssa.Instruction) ssa.Value {
	fieldLineOf := func(v ssa.Value) ssa.Value {
		ld, ok := stripIdentity(v).(*ssa.UnOp)
		if !ok || ld.Op != token.MUL {
			return nil
		}
		lfa, ok := ld.X.(*ssa.FieldAddr)
		if !ok {
			return nil
		}
		if tn, f, _, _ := fieldOf(lfa); tn != "Field" || f != "Line" {
			return nil
		}
		return stripIdentity(lfa.X)
	}
	if st, ok := ins.(*ssa.Store); ok {
		fa, ok := st.Addr.(*ssa.FieldAddr)
		if !ok {
			return nil
		}
		if tn, f, _, _ := fieldOf(fa); tn != "SyntaxError" || f != "Line" {
			return nil
		}
		return fieldLineOf(st.Val)
	}
	if !isAddSyntaxError(ins) {
		return nil
	}
	c := ins.(ssa.CallInstruction)
	for _, a := range c.Common().Args {
		if al, ok := stripIdentity(a).(*ssa.Alloc); ok && isSyntaxErrorPtr(al.Type()) {
			return nil // the record is built here: its stores are seen one by one
		}
	}
	for _, v := range diagPositionValues(c, "Line") {
		if h := fieldLineOf(v); h != nil {
			return h
		}
	}
	return nil
}
