package main

import (
	"fmt"
	"go/ast"
	"go/constant"
	"go/token"
	"go/types"
	"sort"
	"strings"

	"golang.org/x/tools/go/ssa"
)

func init() {
	register("C08", "Spelling independence as confinement (non-interference): (alias) every lexer alias group (uint16|u16 ...) sits in one case of each normalising switch of internal/model and maps to one constant; "+
		"(raw-type) the model fields that hold a type as spelled are read only by internal/model's GetType methods, and the model visitor takes GetText() of a whole rule only for type/value contexts; "+
		"(layout) doc strings, descriptions, Line/Column and the raw option map are never read in code reachable from a generator, the model visitor never queries the hidden channel and uses positions only to fill Line/Column; WS is skipped and comments are hidden; "+
		"(isolation) parse-phase code writes attribute objects that a MetaData entry can share only through a fresh copy; (placement) both spellings of @lengthOf / @calculatedFrom build the attribute with the same set of fields. "+
		"Equalities that need evaluating string normalisation (explicit defaults, zchar vs '\\x00' padding) are not decided.", runC08)
}

var rawTypeFields = map[string]bool{"BasicFieldAttribute.Type": true, "LengthFieldAttribute.LengthType": true, "CheckSumFieldAttribute.Type": true, "LengthOfAttribute.Type": true}
var layoutFields = map[string]bool{"Field.Doc": true, "MetaData.Description": true, "BinaryModel.Options": true,
	"Field.Line": true, "Field.Column": true, "Packet.Line": true, "Packet.Column": true, "MetaData.Line": true, "MetaData.Column": true, "MatchPair.Line": true, "MatchPair.Column": true}

// positionOnlyUse: every use of v stores it into a field named Line/Column, passes it as a parameter named line/column,
// or parks it in a local map whose lookups are in turn used only that way.
func positionOnlyUse(w *World, v ssa.Value, depth int) bool {
	if depth > 4 || v.Referrers() == nil {
		return depth <= 4
	}
	for _, ref := range *v.Referrers() {
		switch x := ref.(type) {
		case *ssa.DebugRef:
		case *ssa.Store:
			fa, ok := x.Addr.(*ssa.FieldAddr)
			if !ok {
				return false
			}
			tn, f, _, _ := fieldOf(fa)
			if !strings.EqualFold(f, "Line") && !strings.EqualFold(f, "Column") {
				return false
			}
			if tn != "SyntaxError" && !isModelType(derefPtr(fa.X.Type())) {
				// a scratch record holding a position: every read of that member must again be position-only
				for _, fn := range w.srcFuncs {
					okAll := true
					forEachInstr(fn, func(_ *ssa.BasicBlock, ins ssa.Instruction) {
						var val ssa.Value
						switch y := ins.(type) {
						case *ssa.Field:
							if tn2, f2, _, _ := fieldOf(y); tn2 == tn && f2 == f {
								val = y
							}
						case *ssa.UnOp:
							if fa2, ok := y.X.(*ssa.FieldAddr); ok && y.Op == token.MUL {
								if tn2, f2, _, _ := fieldOf(fa2); tn2 == tn && f2 == f {
									val = y
								}
							}
						}
						if val != nil && depth < 3 && !positionOnlyUse(w, val, depth+1) {
							okAll = false
						}
					})
					if !okAll {
						return false
					}
				}
			}
		case *ssa.MapUpdate:
			if x.Value != v {
				return false
			}
			var lookups []*ssa.Lookup
			if mm, ok := valueRoot(x.Map).(*ssa.MakeMap); ok {
				for _, r2 := range *mm.Referrers() {
					if lk, ok := r2.(*ssa.Lookup); ok {
						lookups = append(lookups, lk)
					}
				}
			} else if key := structFieldKey(x.Map); key != "" {
				// a map kept in a struct field (e.g. a per-packet scratch record): every lookup of that field, anywhere
				for _, fn := range w.srcFuncs {
					forEachInstr(fn, func(_ *ssa.BasicBlock, ins ssa.Instruction) {
						if lk, ok := ins.(*ssa.Lookup); ok && structFieldKey(lk.X) == key {
							lookups = append(lookups, lk)
						}
					})
				}
			} else if origins := makeMapOrigins(x.Map, 0, map[ssa.Value]bool{}); len(origins) > 0 {
				// a local table kept in a variable that closures capture (or that is handed to helpers): every lookup, in any parser
				// function, of a value that can be one of these maps
				for _, fn := range w.srcFuncs {
					if fn.Pkg != w.Parser {
						continue
					}
					forEachInstr(fn, func(_ *ssa.BasicBlock, ins ssa.Instruction) {
						lk, ok := ins.(*ssa.Lookup)
						if !ok {
							return
						}
						if _, isMap := lk.X.Type().Underlying().(*types.Map); !isMap {
							return
						}
						for mk := range makeMapOrigins(lk.X, 0, map[ssa.Value]bool{}) {
							if origins[mk] {
								lookups = append(lookups, lk)
								return
							}
						}
					})
				}
			} else {
				return false
			}
			for _, lk := range lookups {
				{
					var val ssa.Value = lk
					if lk.CommaOk {
						val = nil
						for _, r3 := range *lk.Referrers() {
							if ex, ok := r3.(*ssa.Extract); ok && ex.Index == 0 {
								val = ex
							}
						}
					}
					if val != nil && !positionOnlyUse(w, val, depth+1) {
						return false
					}
				}
			}
		case ssa.CallInstruction:
			f2 := x.Common().StaticCallee()
			if f2 == nil {
				// the position is handed to a function value (a callback parameter, a closure kept in a variable or a record member):
				// it is judged where it arrives - in every function the value can be bound to, the parameter that receives it must
				// again be used as a position only
				if x.Common().IsInvoke() || !positionOnlyThroughFuncValue(w, x, v, depth) {
					return false
				}
				continue
			}
			for i, a := range x.Common().Args {
				if a != v {
					continue
				}
				if i >= len(f2.Params) || !(strings.EqualFold(f2.Params[i].Name(), "line") || strings.EqualFold(f2.Params[i].Name(), "column")) {
					return false
				}
			}
		default:
			return false
		}
	}
	return true
}

// positionOnlyThroughFuncValue: call runs a function value and passes v to it. Every function the value can be (closure literals,
// named functions, what the call sites of the enclosing function bind to a function-typed parameter, what is stored into the
// variable or member it is read from) must have a body in the repo and must use the parameter that receives v as a position only.
// No target known, a target without a body, or a variadic slot: not understood, so not allowed.
func positionOnlyThroughFuncValue(w *World, call ssa.CallInstruction, v ssa.Value, depth int) bool {
	targets := closureTargets(call.Common().Value, 0, map[ssa.Value]bool{})
	if len(targets) == 0 {
		return false
	}
	args := call.Common().Args
	for _, t := range targets {
		t = unwrapBound(t)
		if t == nil || t.Blocks == nil || !w.isSubjectFunc(t) || t.Signature.Variadic() {
			return false
		}
		// a method behind a method value has its receiver in front of the arguments of the call
		off := len(t.Params) - len(args)
		if off < 0 {
			return false
		}
		for i, a := range args {
			if a != v {
				continue
			}
			if !positionOnlyUse(w, t.Params[i+off], depth+1) {
				return false
			}
		}
	}
	return true
}

func derefPtr(t types.Type) types.Type {
	if p, ok := t.Underlying().(*types.Pointer); ok {
		return p.Elem()
	}
	return t
}

// structFieldKey: "pkg.Type.field" when v is a load of a struct field, else "".
func structFieldKey(v ssa.Value) string {
	ld, ok := stripIdentity(v).(*ssa.UnOp)
	if !ok || ld.Op != token.MUL {
		return ""
	}
	fa, ok := ld.X.(*ssa.FieldAddr)
	if !ok {
		return ""
	}
	pt, ok := fa.X.Type().Underlying().(*types.Pointer)
	if !ok {
		return ""
	}
	st, ok := pt.Elem().Underlying().(*types.Struct)
	if !ok || fa.Field >= st.NumFields() {
		return ""
	}
	return pt.Elem().String() + "." + st.Field(fa.Field).Name()
}

// generatorReach: subject functions reachable from the six Generate methods and constructors.
func generatorReach(w *World) []*ssa.Function {
	fs, _ := c14Subjects(w)
	return fs
}

type switchTable struct {
	fn    string
	cases map[string]string // spelling -> returned constant ("" = not constant)
	ssaFn *ssa.Function     // set for a table read off a function's evaluated behaviour (evaluatedNormalisers)
}

var normalisingTablesOf = map[*World][]switchTable{}

// normalisingSwitches: the normalising tables of internal/model, whatever holds their rows: a switch whose cases are string
// constants and whose bodies return string constants, a package-level map literal, or any other container (rows of {canonical,
// spellings...}, an index derived from them at initialisation, a chain of helpers) consulted by a function from spelling to
// spelling - the rows of the latter are obtained by evaluating the function over the grammar's spellings.
func normalisingSwitches(w *World) []switchTable {
	if t, done := normalisingTablesOf[w]; done {
		return t
	}
	t := syntacticNormalisingTables(w)
	t = append(t, evaluatedNormalisers(w, t)...)
	normalisingTablesOf[w] = t
	return t
}

// evaluatedNormalisers: the functions of internal/model that take one spelling and hand back a spelling (optionally with a "found"
// flag) and that rewrite at least one spelling of the grammar into another spelling of the grammar. Their table is what they
// compute: one row per alias spelling of the grammar and per other known spelling they rewrite. Functions that already own a switch
// found syntactically are left to that reading.
func evaluatedNormalisers(w *World, syntactic []switchTable) []switchTable {
	grammarSp := map[string]bool{}
	aliasSp := map[string]bool{}
	for _, sp := range w.G4.Aliases() {
		for _, s := range sp {
			aliasSp[s], grammarSp[s] = true, true
		}
	}
	for _, sp := range w.G4.ScalarTokens() {
		for _, s := range sp {
			grammarSp[s] = true
		}
	}
	domain := map[string]bool{}
	for s := range grammarSp {
		domain[s] = true
	}
	owned := map[string]bool{}
	for _, st := range syntactic {
		owned[st.fn] = true
		for s := range st.cases {
			domain[s] = true
		}
	}
	isString := func(t types.Type) bool {
		b, ok := t.Underlying().(*types.Basic)
		return ok && b.Info()&types.IsString != 0
	}
	ev := w.evaluator()
	var out []switchTable
	for _, fn := range w.srcFuncs {
		if fn.Pkg != w.Model || fn.Blocks == nil || fn.Parent() != nil || fn.Synthetic != "" {
			continue
		}
		nStr := 0
		for _, p := range fn.Params {
			if isString(p.Type()) {
				nStr++
			}
		}
		res := fn.Signature.Results()
		if nStr != 1 || res.Len() < 1 || res.Len() > 2 || !isString(res.At(0).Type()) {
			continue
		}
		if res.Len() == 2 && !types.Identical(res.At(1).Type().Underlying(), types.Typ[types.Bool]) {
			continue
		}
		name := fn.Name()
		if rc := recvNamedCore(fn); rc != "" {
			name = rc + "." + name
			if _, isPtr := fn.Params[0].Type().Underlying().(*types.Pointer); isPtr {
				name = "*" + name
			}
		}
		if owned[name] {
			continue
		}
		st := switchTable{fn: name, cases: map[string]string{}, ssaFn: fn}
		evaluable, rewrites := true, false
		for _, s := range sortedBoolKeys(domain) {
			got, has, ok := ev.evalStringFunc(fn, s)
			if !ok {
				evaluable = false
				break
			}
			if !has {
				continue
			}
			if aliasSp[s] || got != s {
				st.cases[s] = got
			}
			if aliasSp[s] && got != s && grammarSp[got] {
				rewrites = true
			}
		}
		if evaluable && rewrites {
			out = append(out, st)
		}
	}
	return out
}

// syntacticNormalisingTables: switch statements in internal/model whose cases are string constants and whose bodies return string
// constants, and package-level map literals from string constants to string constants.
func syntacticNormalisingTables(w *World) []switchTable {
	mp := w.ByPath[modPath+"/internal/model"]
	var out []switchTable
	for _, f := range mp.Syntax {
		for _, d := range f.Decls {
			fd, ok := d.(*ast.FuncDecl)
			if !ok || fd.Body == nil {
				continue
			}
			ast.Inspect(fd.Body, func(n ast.Node) bool {
				sw, ok := n.(*ast.SwitchStmt)
				if !ok || sw.Tag == nil {
					return true
				}
				st := switchTable{fn: fd.Name.Name, cases: map[string]string{}}
				for _, cs := range sw.Body.List {
					cc := cs.(*ast.CaseClause)
					ret := ""
					if len(cc.Body) == 1 {
						if rs, ok := cc.Body[0].(*ast.ReturnStmt); ok && len(rs.Results) == 1 {
							if tv := mp.TypesInfo.Types[rs.Results[0]]; tv.Value != nil && tv.Value.Kind() == constant.String {
								ret = constant.StringVal(tv.Value)
							}
						}
					}
					for _, e := range cc.List {
						if tv := mp.TypesInfo.Types[e]; tv.Value != nil && tv.Value.Kind() == constant.String {
							st.cases[constant.StringVal(tv.Value)] = ret
						}
					}
				}
				if len(st.cases) >= 4 {
					if fd.Recv != nil && len(fd.Recv.List) > 0 {
						st.fn = types.ExprString(fd.Recv.List[0].Type) + "." + st.fn
					}
					out = append(out, st)
				}
				return true
			})
		}
	}
	// the same table written as a package-level map literal: map[string]string{"int8": "i8", ...}
	for _, f := range mp.Syntax {
		for _, d := range f.Decls {
			gd, ok := d.(*ast.GenDecl)
			if !ok {
				continue
			}
			for _, sp := range gd.Specs {
				vs, ok := sp.(*ast.ValueSpec)
				if !ok || len(vs.Names) != 1 || len(vs.Values) != 1 {
					continue
				}
				cl, ok := vs.Values[0].(*ast.CompositeLit)
				if !ok {
					continue
				}
				st := switchTable{fn: vs.Names[0].Name, cases: map[string]string{}}
				for _, el := range cl.Elts {
					kv, ok := el.(*ast.KeyValueExpr)
					if !ok {
						continue
					}
					k, v := mp.TypesInfo.Types[kv.Key], mp.TypesInfo.Types[kv.Value]
					if k.Value != nil && k.Value.Kind() == constant.String && v.Value != nil && v.Value.Kind() == constant.String {
						st.cases[constant.StringVal(k.Value)] = constant.StringVal(v.Value)
					}
				}
				if len(st.cases) >= 4 {
					out = append(out, st)
				}
			}
		}
	}
	// only tables about type spellings: they name at least one alias spelling of the grammar
	aliasSp := map[string]bool{}
	for _, sp := range w.G4.Aliases() {
		for _, s := range sp {
			aliasSp[s] = true
		}
	}
	var typed []switchTable
	for _, st := range out {
		for s := range st.cases {
			if aliasSp[s] {
				typed = append(typed, st)
				break
			}
		}
	}
	return typed
}

func runC08(w *World, r *Report) {
	ctxs := w.ctxTable()
	phaseTables(w, r, "C08")
	c08TypeMappingSiblings(w, r)
	c08RepeatIsModelled(w, r, ctxs)
	kindByRuleNotByText(w, r, "C08")
	// "alias spellings": the value that is checked against an option's list is the value that is stored - a check that accepts
	// `uint8` because it normalises first, in front of a store of the text as written, lets a spelling through that no type table knows
	c12OptionValidation(w, r, "C08")
	// "prefixed versus inline attribute placement": a type written in the declaration decides, in both spellings
	metadataByTypeNotByName(w, r, "C08")
	inlineObjectKeepsItsPacket(w, r, "C08") // "a MetaData-typed field versus the inlined type", names are not meanings: an inline object is its body
	// "a key list versus its expanded pairs": every key, written alone or in a list, becomes a pair whose key is the text of its own
	// token - a spelling rewritten on one of the two routes (leading zeros stripped for `01 : A` but not for `[01] : A`) makes the
	// two spellings of one table compile differently
	r.refile("C05/pair-expansion", "C08/key-list-as-pairs", func(sr *Report) { wireMatch(w, buildWire(w, sr), sr) }, func(o Obligation) bool {
		return strings.Contains(o.Key, "key list contributes") || strings.Contains(o.Key, "each pair's key is the text")
	})
	// "zchar[n] versus explicit NUL right-padding", "explicit default options versus none": the NUL pad character reaches the
	// generators in two spellings (the parser's for zchar[n] / @rightPad, the option value's as written); every target recognises both
	r.refile("C03/pad-spelling", "C08/pad-spelling", func(sr *Report) { wirePadSpellings(w, buildWire(w, sr), sr) }, nil)
	// ---- 1. alias normalisation ----
	const ruleAlias = "C08/alias-normalisation"
	sws := normalisingSwitches(w)
	if len(sws) < 1 {
		r.fail(ruleAlias, "normalising tables found", "internal/model/model.go", "no switch, table or spelling-to-spelling function in internal/model maps the grammar's alias spellings to one canonical name")
	}
	aliases := w.G4.Aliases()
	for _, st := range sws {
		for _, tok := range sortedKeys(aliases) {
			sp := aliases[tok]
			rets := map[string]bool{}
			var missing []string
			for _, s := range sp {
				if ret, ok := st.cases[s]; ok {
					rets[ret] = true
				} else {
					missing = append(missing, s)
				}
			}
			key := fmt.Sprintf("%s normalises %s (%s)", st.fn, tok, strings.Join(sp, "|"))
			switch {
			case len(missing) > 0:
				r.fail(ruleAlias, key, "internal/model/model.go", "spelling(s) "+strings.Join(missing, ", ")+" have no case: the two spellings of one type are treated differently")
			case len(rets) != 1 || rets[""]:
				r.fail(ruleAlias, key, "internal/model/model.go", fmt.Sprintf("the spellings map to different results %v", sortedBoolKeys(rets)))
			default:
				r.pass(ruleAlias, key, "internal/model/model.go", "-> "+sortedBoolKeys(rets)[0])
			}
		}
	}
	// the two switches agree with each other on every spelling they share
	if len(sws) >= 2 {
		for i := 1; i < len(sws); i++ {
			var diff []string
			for s, ret := range sws[0].cases {
				if r2, ok := sws[i].cases[s]; ok && r2 != ret {
					diff = append(diff, fmt.Sprintf("%s: %s vs %s", s, ret, r2))
				}
			}
			sort.Strings(diff)
			key := fmt.Sprintf("%s and %s agree", sws[0].fn, sws[i].fn)
			if len(diff) > 0 {
				r.fail(ruleAlias, key, "internal/model/model.go", strings.Join(diff, "; "))
			} else {
				r.pass(ruleAlias, key, "internal/model/model.go", "")
			}
		}
	}
	r.floor(ruleAlias, 10)

	// ---- 2. raw spelling confined ----
	const ruleRaw = "C08/raw-type-confined"
	nRaw := 0
	for _, fn := range w.srcFuncs {
		var bad []string
		forEachInstr(fn, func(b *ssa.BasicBlock, ins ssa.Instruction) {
			var tn, f string
			switch x := ins.(type) {
			case *ssa.UnOp:
				if x.Op != token.MUL {
					return
				}
				fa, ok := x.X.(*ssa.FieldAddr)
				if !ok {
					return
				}
				tn, f, _, _ = fieldOf(fa)
			case *ssa.Field:
				tn, f, _, _ = fieldOf(x)
			default:
				return
			}
			if !rawTypeFields[tn+"."+f] {
				return
			}
			nRaw++
			if fn.Pkg == w.Model && fn.Name() == "GetType" {
				// ... and what GetType hands out is the normalised spelling: the raw text reaches a result only through a normalising
				// table (a call of the function that holds it, or the table sits in this very function)
				normFns := normaliserFuncs(w, sws)
				own := normFns[fn]
				// decided by what the method computes when it can be evaluated: the same name for every spelling of one type
				if differ, evaluable := getTypeBySpelling(w, fn, tn, f); evaluable {
					if differ != "" {
						r.fail(ruleRaw, fnKey(fn)+" hands out the normalised spelling", w.instrPos(ins), fmt.Sprintf("%s.%s - the type as it was spelled - decides the result: %s. `uint16 n @lengthOf(x)` and `u16 n @lengthOf(x)` then name different types to every generator (the long spelling has no row in their type tables)", tn, f, differ))
					}
					return
				}
				if !own {
					if v, isVal := ins.(ssa.Value); isVal {
						if at := rawReachesResult(v, normFns, 0, map[ssa.Value]bool{}); at != nil {
							r.fail(ruleRaw, fnKey(fn)+" hands out the normalised spelling", w.instrPos(at), fmt.Sprintf("%s.%s - the type as it was spelled - is returned without passing a normalising table: `uint16 n @lengthOf(x)` and `u16 n @lengthOf(x)` then name different types to every generator (the long spelling has no row in their type tables)", tn, f))
						}
					}
				}
				return
			}
			bad = append(bad, fmt.Sprintf("%s.%s at %s", tn, f, w.instrPos(ins)))
		})
		if len(bad) > 0 {
			r.fail(ruleRaw, fnKey(fn)+" reads a type as spelled", w.pos(fn.Pos()), "reads "+strings.Join(uniqStrings(bad), ", ")+" directly instead of GetType(): `uint16` and `u16` (and the inline vs prefixed attribute placement, which store different spellings) then produce different output")
		}
	}
	if nRaw < 4 {
		r.fail(ruleRaw, "raw type fields are read by GetType", "internal/model/model.go", fmt.Sprintf("expected >= 4 reads of the raw type fields (the GetType methods), found %d", nRaw))
	} else {
		r.pass(ruleRaw, "raw type fields are read only by model.GetType methods", "internal/model/model.go", fmt.Sprintf("%d reads", nRaw))
	}
	// GetText() of whole rules in the model visitor
	allowedText := map[string]bool{"TypeContext": true, "ValueContext": true, "BasicTypeContext": true, "FixedStringContext": true, "DynamicStringContext": true}
	for _, fn := range parsePhaseFuncs(w) {
		forEachInstr(fn, func(b *ssa.BasicBlock, ins ssa.Instruction) {
			call, ok := ins.(*ssa.Call)
			if !ok {
				return
			}
			name := ""
			var recv ssa.Value
			if call.Call.IsInvoke() {
				name, recv = call.Call.Method.Name(), call.Call.Value
			} else if f := call.Call.StaticCallee(); f != nil && f.Signature.Recv() != nil && len(call.Call.Args) > 0 {
				name, recv = f.Name(), call.Call.Args[0]
			}
			if name != "GetText" {
				return
			}
			for _, c := range w.possibleCtxs(fn, recv, ctxs, 0) {
				key := fmt.Sprintf("%s takes GetText() of %s", fnKey(fn), c)
				if allowedText[c] {
					r.pass(ruleRaw, key, w.instrPos(ins), "type/value context: single lexeme or normalised later")
				} else {
					r.fail(ruleRaw, key, w.instrPos(ins), "the concatenated raw text of a multi-token rule enters the model: separators, quoting and spacing inside it become meaning")
				}
			}
		})
	}

	// ---- 3. layout, comments and documentation are invisible to generators ----
	const ruleLay = "C08/layout-invisible"
	gens := generatorReach(w)
	for _, fn := range gens {
		var bad []string
		forEachInstr(fn, func(b *ssa.BasicBlock, ins ssa.Instruction) {
			var tn, f string
			switch x := ins.(type) {
			case *ssa.UnOp:
				if x.Op != token.MUL {
					return
				}
				fa, ok := x.X.(*ssa.FieldAddr)
				if !ok {
					return
				}
				tn, f, _, _ = fieldOf(fa)
			case *ssa.Field:
				tn, f, _, _ = fieldOf(x)
			default:
				return
			}
			if layoutFields[tn+"."+f] {
				bad = append(bad, fmt.Sprintf("%s.%s at %s", tn, f, w.instrPos(ins)))
			}
		})
		if len(bad) > 0 {
			r.fail(ruleLay, fnKey(fn), w.pos(fn.Pos()), "generator-reachable code reads "+strings.Join(uniqStrings(bad), ", ")+": output then varies with documentation, source position or raw option text")
		} else {
			r.pass(ruleLay, fnKey(fn), w.pos(fn.Pos()), "")
		}
	}
	r.floor(ruleLay, 100)
	for _, fn := range parsePhaseFuncs(w) {
		forEachInstr(fn, func(b *ssa.BasicBlock, ins ssa.Instruction) {
			call, ok := ins.(*ssa.Call)
			if !ok {
				return
			}
			name := ""
			if call.Call.IsInvoke() {
				name = call.Call.Method.Name()
			} else if f := call.Call.StaticCallee(); f != nil {
				name = f.Name()
			}
			switch {
			case strings.HasPrefix(name, "GetHiddenTokensTo"):
				r.fail(ruleLay, fnKey(fn)+" queries the hidden channel", w.instrPos(ins), "the model visitor reads comments: they can reach generated code")
			case name == "GetLine" || name == "GetCharPositionInLine" || name == "GetColumn":
				// allowed only when the value ends up in a Line/Column field (directly, through a line/column parameter, or through a local position map)
				okUse := positionOnlyUse(w, call, 0)
				if !okUse {
					r.fail(ruleLay, fnKey(fn)+" uses a source position as data", w.instrPos(ins), name+"() flows somewhere other than a Line/Column field")
				}
			}
		})
	}

	// ---- 4. attribute isolation ----
	attributeIsolation(w, r, "C08")
	// an option written with its default value means the same as the option left out: the configuration is a function of the option
	// values alone, each option honoured on its own
	optionSemantics(w, r, "C08")

	// ---- 5. inline vs prefixed placement ----
	const rulePlace = "C08/attribute-placement"
	for _, tname := range []string{"LengthFieldAttribute", "CheckSumFieldAttribute"} {
		type site struct {
			fn   string
			sets []string
			pos  string
		}
		var sites []site
		for _, fn := range parsePhaseFuncs(w) {
			forEachInstr(fn, func(b *ssa.BasicBlock, ins ssa.Instruction) {
				al, ok := ins.(*ssa.Alloc)
				if !ok {
					return
				}
				pt, ok := al.Type().(*types.Pointer)
				if !ok || modelTypeName(pt.Elem()) != tname {
					return
				}
				for _, ref := range *al.Referrers() {
					if st, ok := ref.(*ssa.Store); ok && st.Addr == ssa.Value(al) {
						return // a copy of an existing value, not a construction site
					}
				}
				set := map[string]bool{}
				for _, ref := range *al.Referrers() {
					if fa, ok := ref.(*ssa.FieldAddr); ok {
						_, f, _, _ := fieldOf(fa)
						for _, r2 := range *fa.Referrers() {
							if _, ok := r2.(*ssa.Store); ok {
								set[f] = true
							}
						}
					}
				}
				sites = append(sites, site{fnKey(fn), sortedBoolKeys(set), w.instrPos(ins)})
			})
		}
		// one shared constructor for both spellings is fine (and the strongest form of agreement); none at all is not
		if len(sites) < 1 {
			r.fail(rulePlace, tname+" has a construction site in the parse phase", "internal/parser/packet_dsl_parser.go", "found no construction site")
			continue
		}
		ref := strings.Join(sites[0].sets, ",")
		agree := true
		var desc []string
		for _, s := range sites {
			desc = append(desc, fmt.Sprintf("%s{%s}", s.fn, strings.Join(s.sets, ",")))
			if strings.Join(s.sets, ",") != ref {
				agree = false
			}
		}
		if agree {
			r.pass(rulePlace, tname+": every construction site sets the same fields", sites[0].pos, ref)
		} else {
			r.fail(rulePlace, tname+": every construction site sets the same fields", sites[0].pos, "inline and prefixed spellings build different attributes: "+strings.Join(desc, " vs "))
		}
	}
	r.assume("generated code can vary with the DSL only through the model; the model visitor is the only producer of the model")
}

// sharedThroughShallowCopy: p is a pointer read from a member of a local struct (`padded.Padding`) that was initialised by copying a
// shared object (`padded := *fs`): the copy is fresh, what its pointer members point to is not - unless the member was assigned a
// fresh object on every path to the use at `at`.
func (w *World) sharedThroughShallowCopy(p ssa.Value, at ssa.Instruction) bool {
	ld, ok := stripIdentity(p).(*ssa.UnOp)
	if !ok || ld.Op != token.MUL {
		return false
	}
	mfa, ok := ld.X.(*ssa.FieldAddr)
	if !ok {
		return false
	}
	al, ok := mfa.X.(*ssa.Alloc)
	if !ok || al.Referrers() == nil {
		return false
	}
	if _, isPtr := ld.Type().Underlying().(*types.Pointer); !isPtr {
		return false
	}
	// stores into the local: whole-struct copies and member assignments
	type st struct {
		ins   *ssa.Store
		fresh bool
	}
	var whole, member []st
	for _, ref := range *al.Referrers() {
		switch x := ref.(type) {
		case *ssa.Store:
			if x.Addr == ssa.Value(al) {
				cls, _ := w.baseClass(x.Val)
				fresh := cls == "fresh"
				if l2, ok := stripIdentity(x.Val).(*ssa.UnOp); ok && l2.Op == token.MUL {
					c2, _ := w.baseClass(l2.X)
					fresh = c2 == "fresh"
				}
				whole = append(whole, st{x, fresh})
			}
		case *ssa.FieldAddr:
			if x.Field != mfa.Field || x.Referrers() == nil {
				continue
			}
			for _, r2 := range *x.Referrers() {
				if s2, ok := r2.(*ssa.Store); ok && s2.Addr == ssa.Value(x) {
					cls, _ := w.baseClass(s2.Val)
					member = append(member, st{s2, cls == "fresh"})
				}
			}
		}
	}
	sharedInit := false
	for _, wst := range whole {
		if !wst.fresh {
			sharedInit = true
		}
	}
	if !sharedInit {
		return false
	}
	// a fresh member assignment that dominates the use, with no shared (re)initialisation in between
	for _, m := range member {
		if !m.fresh || !instrDominates(m.ins, at) {
			continue
		}
		clean := true
		for _, o := range append(append([]st(nil), whole...), member...) {
			if o.ins == m.ins || o.fresh {
				continue
			}
			if instrReaches(m.ins, o.ins) && instrReaches(o.ins, at) {
				clean = false
			}
		}
		if clean {
			return false
		}
	}
	return true
}

// attributeIsolation: an attribute written on one field stays on that field. Attribute objects that a MetaData entry can hold are
// shared by every field of that type; parse-phase code may only write into an attribute (or into a Padding it points to) that it has
// freshly constructed. (C08: "an attribute applies only to the field it is written on"; C01: the declared pad character / side of one
// field must not become that of its siblings.)
func attributeIsolation(w *World, r *Report, prop string) {
	ruleIso := prop + "/attribute-isolation"
	shared := map[string]bool{"Padding": true}
	for _, fn := range parsePhaseFuncs(w) {
		forEachInstr(fn, func(b *ssa.BasicBlock, ins ssa.Instruction) {
			st, ok := ins.(*ssa.Store)
			if !ok {
				return
			}
			fa, ok := st.Addr.(*ssa.FieldAddr)
			if !ok {
				return
			}
			if tn, f, _, _ := fieldOf(fa); tn == "MetaData" && f == "Attr" {
				for t := range w.dynTypes(st.Val, "", 0, map[*ssa.Function]bool{}, map[ssa.Value]bool{}) {
					t = strings.TrimPrefix(strings.TrimPrefix(t, "*"), "model.")
					if t != "nil" && t != "?" {
						shared[t] = true
					}
				}
			}
		})
	}
	r.note("attribute types that a MetaData entry can share: %v", sortedBoolKeys(shared))
	nIso := 0
	for _, fn := range parsePhaseFuncs(w) {
		counts := map[string]int{}
		forEachInstr(fn, func(b *ssa.BasicBlock, ins ssa.Instruction) {
			st, ok := ins.(*ssa.Store)
			if !ok {
				return
			}
			fa, ok := st.Addr.(*ssa.FieldAddr)
			if !ok {
				return
			}
			tn, f, _, _ := fieldOf(fa)
			if !shared[tn] {
				return
			}
			nIso++
			kb := fmt.Sprintf("%s writes %s.%s", fnKey(fn), tn, f)
			counts[kb]++
			key := kb
			if counts[kb] > 1 {
				key = fmt.Sprintf("%s#%d", kb, counts[kb])
			}
			if cls, _ := w.baseClass(fa.X); cls == "fresh" && !w.sharedThroughShallowCopy(fa.X, ins) {
				r.pass(ruleIso, key, w.instrPos(ins), "through a fresh object")
			} else if w.memberOfFreshArgument(fn, fa.X) {
				r.pass(ruleIso, key, w.instrPos(ins), "through a member of the record the caller has just built, which only ever receives a fresh object")
			} else {
				r.fail(ruleIso, key, w.instrPos(ins), "writes an attribute object that may be the one stored in a MetaData entry and shared by every field of that type: the attribute leaks to other fields")
			}
		})
	}
	if nIso < 3 {
		r.fail(ruleIso, "attribute writes found", "internal/parser/packet_dsl_parser.go", fmt.Sprintf("expected >= 3 attribute field writes in the model visitor, found %d", nIso))
	}

}

// memberOfFreshArgument: base is p.M for a parameter p of fn; every call site of fn passes a record it has freshly built (a literal
// of its own), and the member M - anywhere in the program - is only ever assigned a freshly built object. So p.M is not an object
// that something else holds.
func (w *World) memberOfFreshArgument(fn *ssa.Function, base ssa.Value) bool {
	ld, ok := stripIdentity(base).(*ssa.UnOp)
	if !ok || ld.Op != token.MUL {
		return false
	}
	fa, ok := ld.X.(*ssa.FieldAddr)
	if !ok {
		return false
	}
	p, ok := stripIdentity(fa.X).(*ssa.Parameter)
	if !ok {
		return false
	}
	idx := -1
	for i, q := range fn.Params {
		if q == p {
			idx = i
		}
	}
	n := w.CallGraph().Nodes[fn]
	if idx < 0 || n == nil || len(n.In) == 0 {
		return false
	}
	for _, e := range n.In {
		if e.Site == nil || e.Site.Common().IsInvoke() || idx >= len(e.Site.Common().Args) {
			return false
		}
		if !freshlyBuiltRecord(e.Site.Common().Args[idx], 0) {
			return false
		}
	}
	tn, fname, _, _ := fieldOf(fa)
	stores := 0
	okAll := true
	for g := range w.allFuncs {
		if g.Blocks == nil || !w.isSubjectFunc(g) {
			continue
		}
		forEachInstr(g, func(_ *ssa.BasicBlock, ins ssa.Instruction) {
			st, ok := ins.(*ssa.Store)
			if !ok {
				return
			}
			f2, ok := st.Addr.(*ssa.FieldAddr)
			if !ok {
				return
			}
			if t2, n2, _, _ := fieldOf(f2); t2 != tn || n2 != fname {
				return
			}
			stores++
			if _, ok := stripIdentity(st.Val).(*ssa.Alloc); !ok {
				okAll = false
			}
		})
	}
	return okAll && stores > 0
}

// freshlyBuiltRecord: v is a record built where it is used (a literal of the function itself), or what a constructor returns that
// does nothing with the record it builds but fill it in and return it (`func defaults() *T { return &T{...} }`), on every path.
func freshlyBuiltRecord(v ssa.Value, depth int) bool {
	v = stripIdentity(v)
	switch x := v.(type) {
	case *ssa.Alloc:
		return true
	case *ssa.Call:
		h := x.Call.StaticCallee()
		if h == nil || h.Blocks == nil || depth > 3 || h.Signature.Results().Len() != 1 {
			return false
		}
		n := 0
		for _, b := range h.Blocks {
			ret, isRet := b.Instrs[len(b.Instrs)-1].(*ssa.Return)
			if !isRet {
				continue
			}
			n++
			rv := stripIdentity(ret.Results[0])
			if al, isAl := rv.(*ssa.Alloc); isAl {
				// the constructor keeps no other reference to it: it only addresses members and returns it
				if al.Referrers() == nil {
					return false
				}
				for _, ref := range *al.Referrers() {
					switch ref.(type) {
					case *ssa.FieldAddr, *ssa.Return, *ssa.DebugRef:
					default:
						return false
					}
				}
				continue
			}
			if _, isCall := rv.(*ssa.Call); !isCall || !freshlyBuiltRecord(rv, depth+1) {
				return false
			}
		}
		return n > 0
	}
	return false
}

// rawReachesResult: v flows to a return of its function through identities, phis and concatenations only - not through a call of
// one of the named functions. Returns the offending return (nil if none).
// normaliserFuncs: the functions of internal/model that hold a normalising table - the switch itself, or a lookup in the
// package-level map that is the table.
func normaliserFuncs(w *World, sws []switchTable) map[*ssa.Function]bool {
	out := map[*ssa.Function]bool{}
	for _, st := range sws {
		if st.ssaFn != nil {
			out[st.ssaFn] = true // what the function computes is a normalising table, wherever its rows are kept
		}
	}
	for _, fn := range w.srcFuncs {
		if fn.Pkg != w.Model || fn.Blocks == nil {
			continue
		}
		for _, st := range sws {
			if st.ssaFn != nil {
				continue
			}
			name := st.fn
			recv := ""
			if i := strings.LastIndex(name, "."); i >= 0 {
				recv, name = strings.TrimPrefix(name[:i], "*"), name[i+1:]
			}
			if fn.Name() == name && recvNamedCore(fn) == recv {
				out[fn] = true
			}
			// the table as a package-level map: whoever looks a spelling up in it
			forEachInstr(fn, func(_ *ssa.BasicBlock, ins ssa.Instruction) {
				lk, ok := ins.(*ssa.Lookup)
				if !ok {
					return
				}
				if g, ok := valueRoot(lk.X).(*ssa.Global); ok && g.Name() == st.fn {
					out[fn] = true
				}
			})
		}
	}
	return out
}

// getTypeBySpelling evaluates a method that has only its receiver and yields one string, with the receiver's member `field` set to
// each spelling of each alias group of the grammar (every other member zero). differ describes the first group whose spellings
// yield different results ("" when there is none); evaluable is false when the method's body cannot be evaluated.
func getTypeBySpelling(w *World, fn *ssa.Function, tname, field string) (differ string, evaluable bool) {
	if len(fn.Params) != 1 || fn.Signature.Results().Len() != 1 {
		return "", false
	}
	rt := fn.Params[0].Type()
	st, ok := derefPtr(rt).Underlying().(*types.Struct)
	if !ok || modelTypeName(derefPtr(rt)) != tname {
		return "", false
	}
	idx := -1
	for i := 0; i < st.NumFields(); i++ {
		if st.Field(i).Name() == field {
			idx = i
		}
	}
	if idx < 0 {
		return "", false
	}
	ev := w.evaluator()
	aliases := w.G4.Aliases()
	for _, tok := range sortedKeys(aliases) {
		results := map[string]bool{}
		var desc []string
		for _, s := range aliases[tok] {
			recv, isStruct := ev.zero(derefPtr(rt)).(*cvStruct)
			if !isStruct {
				return "", false
			}
			recv.f[idx].v = s
			var arg any = recv
			if _, isPtr := rt.Underlying().(*types.Pointer); isPtr {
				arg = &cvCell{recv}
			}
			res, ok, _ := ev.Eval(fn, []any{arg})
			got, isStr := res.(string)
			if !ok || !isStr {
				return "", false
			}
			results[got] = true
			desc = append(desc, fmt.Sprintf("%q -> %q", s, got))
		}
		if len(results) > 1 && differ == "" {
			differ = strings.Join(desc, ", ")
		}
	}
	return differ, true
}

func rawReachesResult(v ssa.Value, normFns map[*ssa.Function]bool, depth int, seen map[ssa.Value]bool) ssa.Instruction {
	if v == nil || depth > 8 || seen[v] || v.Referrers() == nil {
		return nil
	}
	seen[v] = true
	for _, ref := range *v.Referrers() {
		switch x := ref.(type) {
		case *ssa.Return:
			return x
		case *ssa.Phi:
			if at := rawReachesResult(x, normFns, depth+1, seen); at != nil {
				return at
			}
		case *ssa.ChangeType:
			if at := rawReachesResult(x, normFns, depth+1, seen); at != nil {
				return at
			}
		case *ssa.Call:
			if f := x.Call.StaticCallee(); f != nil && normFns[f] {
				continue
			}
			// any other call (ToLower, TrimSpace, a helper): its result is still the spelling as written
			if isStringType(x.Type()) {
				if at := rawReachesResult(x, normFns, depth+1, seen); at != nil {
					return at
				}
			}
		}
	}
	return nil
}
