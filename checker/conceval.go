package main

// A small concrete evaluator for SSA bodies. It answers "what does this function of the analysed program yield for these
// constant arguments?" for the pure, table-driven helpers of internal/model (spelling tables, predicates): the package's variable
// initialisers are evaluated once (whatever builds the tables - literals, loops over rows, helper calls), then the function body is
// walked with concrete values. Nothing of the analysed program is executed natively; a handful of side-effect free library
// functions (strings.ToLower ...) are evaluated by their Go namesakes. Whatever the evaluator cannot know (a call into an
// uninterpreted library, a channel, unsafe memory) is an *unknown* value; unknowns propagate through operators and abort the
// evaluation as soon as control flow or memory addressing would depend on them. A rule that receives "not evaluable" must fall back
// to its structural reading of the code.

import (
	"fmt"
	"go/constant"
	"go/token"
	"go/types"
	"sort"
	"strconv"
	"strings"
	"unicode/utf8"

	"golang.org/x/tools/go/ssa"
)

type cvUnknown struct{}

type cvCell struct{ v any }

type cvStruct struct{ f []*cvCell }

type cvArray struct{ e []*cvCell }

type cvSlice struct{ e []*cvCell } // e == nil: the nil slice

type cvMap struct {
	m    map[any]any // nil: the nil map
	keys []any       // insertion order (iteration order of the evaluator)
}

type cvIface struct {
	t types.Type
	v any
}

type cvTuple []any

type cvClosure struct {
	fn   *ssa.Function
	bind []any
}

type cvIter struct {
	keys []any
	vals []any
	i    int
}

type cevAbort struct{ why string }

type cev struct {
	w       *World
	globals map[*ssa.Global]*cvCell
	inited  map[*ssa.Package]bool
	steps   int
}

var cevOf = map[*World]*cev{}

func (w *World) evaluator() *cev {
	if ev := cevOf[w]; ev != nil {
		return ev
	}
	ev := &cev{w: w, globals: map[*ssa.Global]*cvCell{}, inited: map[*ssa.Package]bool{}}
	cevOf[w] = ev
	return ev
}

func cevFail(format string, a ...any) {
	panic(cevAbort{fmt.Sprintf(format, a...)})
}

func isUnk(vs ...any) bool {
	for _, v := range vs {
		if _, ok := v.(cvUnknown); ok {
			return true
		}
	}
	return false
}

// Eval: the results of fn for the given arguments (one value, or a cvTuple); ok is false when the evaluation had to be given up.
func (ev *cev) Eval(fn *ssa.Function, args []any) (res any, ok bool, why string) {
	defer func() {
		if r := recover(); r != nil {
			if a, isAbort := r.(cevAbort); isAbort {
				res, ok, why = nil, false, a.why
				return
			}
			res, ok, why = nil, false, fmt.Sprint("evaluator: ", r)
		}
	}()
	ev.steps = 0
	if fn.Pkg != nil {
		ev.initPkg(fn.Pkg)
	}
	ev.steps = 0
	res = ev.call(fn, args, nil, 0)
	if isUnk(res) {
		return nil, false, "result unknown"
	}
	if t, isT := res.(cvTuple); isT {
		for _, e := range t {
			if isUnk(e) {
				return nil, false, "result unknown"
			}
		}
	}
	return res, true, ""
}

func (ev *cev) isRepoPkg(p *ssa.Package) bool {
	return p != nil && (p == ev.w.Model || p == ev.w.Parser || p == ev.w.Cmd)
}

// initPkg evaluates the variable initialisers (and init functions) of a package of the repository, tolerantly: an initialiser that
// cannot be evaluated leaves its variable unknown.
func (ev *cev) initPkg(p *ssa.Package) {
	if ev.inited[p] || !ev.isRepoPkg(p) {
		return
	}
	ev.inited[p] = true
	initFn := p.Func("init")
	if initFn == nil || initFn.Blocks == nil {
		return
	}
	saved := ev.steps
	ev.steps = 0
	func() {
		defer func() {
			// an initialiser the evaluator cannot follow (or trips over) leaves the rest of the package's variables unknown
			_ = recover()
		}()
		ev.run(initFn, nil, nil, 0, true)
	}()
	ev.steps = saved
}

func (ev *cev) global(g *ssa.Global) *cvCell {
	if c := ev.globals[g]; c != nil {
		return c
	}
	var c *cvCell
	if ev.isRepoPkg(g.Pkg) {
		c = &cvCell{ev.zero(derefPtr(g.Type()))}
		ev.globals[g] = c
		ev.initPkg(g.Pkg)
		return c
	}
	c = &cvCell{cvUnknown{}}
	ev.globals[g] = c
	return c
}

func (ev *cev) zero(t types.Type) any {
	switch u := t.Underlying().(type) {
	case *types.Basic:
		switch {
		case u.Info()&types.IsString != 0:
			return ""
		case u.Info()&types.IsBoolean != 0:
			return false
		case u.Info()&types.IsInteger != 0:
			return int64(0)
		case u.Info()&types.IsFloat != 0:
			return float64(0)
		case u.Kind() == types.UnsafePointer || u.Kind() == types.UntypedNil:
			return nil
		}
		return cvUnknown{}
	case *types.Slice:
		return cvSlice{}
	case *types.Map:
		return &cvMap{}
	case *types.Struct:
		s := &cvStruct{}
		for i := 0; i < u.NumFields(); i++ {
			s.f = append(s.f, &cvCell{ev.zero(u.Field(i).Type())})
		}
		return s
	case *types.Array:
		if u.Len() > 1<<16 {
			return cvUnknown{}
		}
		a := &cvArray{}
		for i := int64(0); i < u.Len(); i++ {
			a.e = append(a.e, &cvCell{ev.zero(u.Elem())})
		}
		return a
	case *types.Pointer, *types.Signature, *types.Interface, *types.Chan:
		return nil
	}
	return cvUnknown{}
}

func cvCopy(v any) any {
	switch x := v.(type) {
	case *cvStruct:
		n := &cvStruct{f: make([]*cvCell, len(x.f))}
		for i, c := range x.f {
			n.f[i] = &cvCell{cvCopy(c.v)}
		}
		return n
	case *cvArray:
		n := &cvArray{e: make([]*cvCell, len(x.e))}
		for i, c := range x.e {
			n.e[i] = &cvCell{cvCopy(c.v)}
		}
		return n
	}
	return v
}

func cvEqual(a, b any) bool {
	switch x := a.(type) {
	case nil:
		switch y := b.(type) {
		case nil:
			return true
		case cvSlice:
			return y.e == nil
		case *cvMap:
			return y.m == nil
		}
		return false
	case string, bool, int64, float64:
		return a == b
	case *cvCell:
		y, ok := b.(*cvCell)
		return ok && x == y
	case cvIface:
		y, ok := b.(cvIface)
		return ok && types.Identical(x.t, y.t) && cvEqual(x.v, y.v)
	case *cvStruct:
		y, ok := b.(*cvStruct)
		if !ok || len(x.f) != len(y.f) {
			return false
		}
		for i := range x.f {
			if !cvEqual(x.f[i].v, y.f[i].v) {
				return false
			}
		}
		return true
	case *cvArray:
		y, ok := b.(*cvArray)
		if !ok || len(x.e) != len(y.e) {
			return false
		}
		for i := range x.e {
			if !cvEqual(x.e[i].v, y.e[i].v) {
				return false
			}
		}
		return true
	case cvSlice:
		switch y := b.(type) {
		case nil:
			return x.e == nil
		case cvSlice:
			if x.e == nil || y.e == nil {
				return x.e == nil && y.e == nil
			}
		}
		cevFail("comparison of slices")
	case *cvMap:
		switch y := b.(type) {
		case nil:
			return x.m == nil
		case *cvMap:
			if x.m == nil || y.m == nil {
				return x.m == nil && y.m == nil
			}
			return x == y
		}
		return false
	case cvClosure:
		return false
	}
	cevFail("comparison of %T", a)
	return false
}

func mapKey(k any) any {
	switch x := k.(type) {
	case string, bool, int64, float64:
		return k
	case cvIface:
		switch x.v.(type) {
		case string, bool, int64, float64:
			return fmt.Sprintf("%s\x00%v", x.t.String(), x.v)
		}
	}
	cevFail("map key of kind %T", k)
	return nil
}

func (m *cvMap) get(k any) (any, bool) {
	if m == nil || m.m == nil {
		return nil, false
	}
	v, ok := m.m[mapKey(k)]
	return v, ok
}

func (m *cvMap) set(k, v any) {
	if m.m == nil {
		cevFail("assignment to entry in nil map")
	}
	mk := mapKey(k)
	if _, have := m.m[mk]; !have {
		m.keys = append(m.keys, k)
	}
	m.m[mk] = v
}

func (m *cvMap) del(k any) {
	if m.m == nil {
		return
	}
	mk := mapKey(k)
	if _, have := m.m[mk]; !have {
		return
	}
	delete(m.m, mk)
	for i, e := range m.keys {
		if mapKey(e) == mk {
			m.keys = append(append([]any(nil), m.keys[:i]...), m.keys[i+1:]...)
			break
		}
	}
}

type cevFrame struct {
	fn   *ssa.Function
	env  map[ssa.Value]any
	bind []any
}

func (ev *cev) get(fr *cevFrame, v ssa.Value) any {
	switch x := v.(type) {
	case *ssa.Const:
		return ev.constVal(x)
	case *ssa.Global:
		return ev.global(x)
	case *ssa.Function:
		return cvClosure{fn: x}
	case *ssa.Builtin:
		return cvUnknown{}
	case *ssa.FreeVar:
		for i, fv := range fr.fn.FreeVars {
			if fv == x && i < len(fr.bind) {
				return fr.bind[i]
			}
		}
		return cvUnknown{}
	}
	if val, ok := fr.env[v]; ok {
		return val
	}
	return cvUnknown{}
}

func (ev *cev) constVal(c *ssa.Const) any {
	if c.Value == nil {
		return ev.zero(c.Type())
	}
	switch c.Value.Kind() {
	case constant.String:
		return constant.StringVal(c.Value)
	case constant.Bool:
		return constant.BoolVal(c.Value)
	case constant.Int:
		if b, ok := c.Type().Underlying().(*types.Basic); ok && b.Info()&types.IsFloat != 0 {
			f, _ := constant.Float64Val(c.Value)
			return f
		}
		if i, exact := constant.Int64Val(c.Value); exact {
			return i
		}
		if u, exact := constant.Uint64Val(c.Value); exact {
			return int64(u)
		}
	case constant.Float:
		if b, ok := c.Type().Underlying().(*types.Basic); ok && b.Info()&types.IsInteger != 0 {
			if i, exact := constant.Int64Val(constant.ToInt(c.Value)); exact {
				return i
			}
			return cvUnknown{}
		}
		f, _ := constant.Float64Val(c.Value)
		return f
	}
	return cvUnknown{}
}

const cevMaxSteps = 4000000
const cevMaxDepth = 40

func (ev *cev) call(fn *ssa.Function, args []any, bind []any, depth int) any {
	if depth > cevMaxDepth {
		cevFail("call depth")
	}
	if res, ok := cevIntrinsic(fn, args); ok {
		return res
	}
	if fn.Blocks == nil || !ev.interpretable(fn) {
		for _, a := range args {
			switch a.(type) {
			case *cvCell, cvSlice, *cvMap, cvClosure, cvIface:
				cevFail("call of uninterpreted %s with a reference argument", fn.String())
			}
		}
		return cvUnknown{}
	}
	return ev.run(fn, args, bind, depth, false)
}

// interpretable: bodies of the repository, and of the small generic/utility packages whose code is plain Go over values. Library
// code that reaches into the runtime, unsafe memory or large Unicode tables is not walked.
func (ev *cev) interpretable(fn *ssa.Function) bool {
	p := fn.Pkg
	if p == nil {
		if o := fn.Origin(); o != nil {
			p = o.Pkg
		}
	}
	if p == nil && fn.Parent() != nil {
		return ev.interpretable(fn.Parent())
	}
	if p == nil {
		// wrappers and bound-method thunks of repository types
		return fn.Synthetic != ""
	}
	if ev.isRepoPkg(p) {
		return true
	}
	switch p.Pkg.Path() {
	case "slices", "maps", "cmp", "sort":
		return true
	}
	return false
}

func (ev *cev) run(fn *ssa.Function, args []any, bind []any, depth int, tolerant bool) any {
	fr := &cevFrame{fn: fn, env: map[ssa.Value]any{}, bind: bind}
	for i, p := range fn.Params {
		if i < len(args) {
			fr.env[p] = args[i]
		} else {
			fr.env[p] = cvUnknown{}
		}
	}
	var prev *ssa.BasicBlock
	b := fn.Blocks[0]
	for {
		// phis: all read the state at the end of the predecessor
		idx := -1
		for i, p := range b.Preds {
			if p == prev {
				idx = i
			}
		}
		n := 0
		var phiVals []any
		for _, ins := range b.Instrs {
			phi, ok := ins.(*ssa.Phi)
			if !ok {
				break
			}
			n++
			if idx < 0 {
				cevFail("phi without predecessor")
			}
			phiVals = append(phiVals, ev.get(fr, phi.Edges[idx]))
		}
		for i := 0; i < n; i++ {
			fr.env[b.Instrs[i].(*ssa.Phi)] = phiVals[i]
		}
		var next *ssa.BasicBlock
		for _, ins := range b.Instrs[n:] {
			ev.steps++
			if ev.steps > cevMaxSteps {
				cevFail("step budget")
			}
			switch x := ins.(type) {
			case *ssa.If:
				c := ev.get(fr, x.Cond)
				cb, ok := c.(bool)
				if !ok {
					cevFail("branch on an unknown value in %s", fn.String())
				}
				if cb {
					next = b.Succs[0]
				} else {
					next = b.Succs[1]
				}
			case *ssa.Jump:
				next = b.Succs[0]
			case *ssa.Return:
				switch len(x.Results) {
				case 0:
					return nil
				case 1:
					return ev.get(fr, x.Results[0])
				}
				t := make(cvTuple, len(x.Results))
				for i, r := range x.Results {
					t[i] = ev.get(fr, r)
				}
				return t
			case *ssa.Panic:
				cevFail("panic in %s", fn.String())
			default:
				if tolerant {
					ev.stepTolerant(fr, ins, depth)
				} else {
					ev.step(fr, ins, depth)
				}
			}
		}
		if next == nil {
			cevFail("block without terminator")
		}
		prev, b = b, next
	}
}

func (ev *cev) stepTolerant(fr *cevFrame, ins ssa.Instruction, depth int) {
	defer func() {
		if r := recover(); r != nil {
			if v, isVal := ins.(ssa.Value); isVal {
				fr.env[v] = cvUnknown{}
			}
		}
	}()
	ev.step(fr, ins, depth)
}

func (ev *cev) deref(p any, what string) *cvCell {
	switch c := p.(type) {
	case *cvCell:
		return c
	case nil:
		cevFail("nil pointer dereference (%s)", what)
	}
	cevFail("address unknown (%s)", what)
	return nil
}

func (ev *cev) step(fr *cevFrame, ins ssa.Instruction, depth int) {
	switch x := ins.(type) {
	case *ssa.DebugRef:
	case *ssa.Alloc:
		fr.env[x] = &cvCell{ev.zero(derefPtr(x.Type()))}
	case *ssa.Store:
		c := ev.deref(ev.get(fr, x.Addr), "store")
		c.v = cvCopy(ev.get(fr, x.Val))
	case *ssa.UnOp:
		fr.env[x] = ev.unop(fr, x)
	case *ssa.BinOp:
		fr.env[x] = ev.binop(x.Op, ev.get(fr, x.X), ev.get(fr, x.Y), x.X.Type())
	case *ssa.Call:
		fr.env[x] = ev.callInstr(fr, x.Common(), depth)
	case *ssa.ChangeType:
		fr.env[x] = ev.get(fr, x.X)
	case *ssa.ChangeInterface:
		fr.env[x] = ev.get(fr, x.X)
	case *ssa.MakeInterface:
		v := ev.get(fr, x.X)
		if isUnk(v) {
			fr.env[x] = v
		} else {
			fr.env[x] = cvIface{t: x.X.Type(), v: v}
		}
	case *ssa.Convert:
		fr.env[x] = ev.convert(ev.get(fr, x.X), x.X.Type(), x.Type())
	case *ssa.TypeAssert:
		fr.env[x] = ev.typeAssert(x, ev.get(fr, x.X))
	case *ssa.MakeClosure:
		cl := cvClosure{fn: x.Fn.(*ssa.Function)}
		for _, b := range x.Bindings {
			cl.bind = append(cl.bind, ev.get(fr, b))
		}
		fr.env[x] = cl
	case *ssa.MakeMap:
		fr.env[x] = &cvMap{m: map[any]any{}}
	case *ssa.MakeSlice:
		n, ok := ev.get(fr, x.Len).(int64)
		if !ok || n < 0 || n > 1<<20 {
			cevFail("make: length unknown")
		}
		s := cvSlice{e: make([]*cvCell, n)}
		et := x.Type().Underlying().(*types.Slice).Elem()
		for i := range s.e {
			s.e[i] = &cvCell{ev.zero(et)}
		}
		fr.env[x] = s
	case *ssa.MapUpdate:
		m, ok := ev.get(fr, x.Map).(*cvMap)
		k, v := ev.get(fr, x.Key), ev.get(fr, x.Value)
		if !ok || isUnk(k) {
			cevFail("map update: map or key unknown")
		}
		m.set(k, cvCopy(v))
	case *ssa.Lookup:
		fr.env[x] = ev.lookup(x, ev.get(fr, x.X), ev.get(fr, x.Index))
	case *ssa.Index:
		col, i := ev.get(fr, x.X), ev.get(fr, x.Index)
		if isUnk(col, i) {
			fr.env[x] = cvUnknown{}
			return
		}
		n := i.(int64)
		switch c := col.(type) {
		case *cvArray:
			if n < 0 || n >= int64(len(c.e)) {
				cevFail("index out of range")
			}
			fr.env[x] = cvCopy(c.e[n].v)
		case string:
			if n < 0 || n >= int64(len(c)) {
				cevFail("index out of range")
			}
			fr.env[x] = int64(c[n])
		default:
			cevFail("index of %T", col)
		}
	case *ssa.IndexAddr:
		col, i := ev.get(fr, x.X), ev.get(fr, x.Index)
		n, ok := i.(int64)
		if !ok {
			cevFail("index unknown")
		}
		var cells []*cvCell
		switch c := col.(type) {
		case cvSlice:
			cells = c.e
		case *cvCell:
			a, isArr := c.v.(*cvArray)
			if !isArr {
				cevFail("element address of %T", c.v)
			}
			cells = a.e
		default:
			cevFail("element address of %T", col)
		}
		if n < 0 || n >= int64(len(cells)) {
			cevFail("index out of range")
		}
		fr.env[x] = cells[n]
	case *ssa.Field:
		s := ev.get(fr, x.X)
		st, ok := s.(*cvStruct)
		if !ok {
			if isUnk(s) {
				fr.env[x] = s
				return
			}
			cevFail("member of %T", s)
		}
		fr.env[x] = cvCopy(st.f[x.Field].v)
	case *ssa.FieldAddr:
		c := ev.deref(ev.get(fr, x.X), "member address")
		st, ok := c.v.(*cvStruct)
		if !ok {
			cevFail("member address in %T", c.v)
		}
		fr.env[x] = st.f[x.Field]
	case *ssa.Slice:
		fr.env[x] = ev.slice(fr, x)
	case *ssa.Range:
		fr.env[x] = ev.rangeOf(ev.get(fr, x.X))
	case *ssa.Next:
		it, ok := ev.get(fr, x.Iter).(*cvIter)
		if !ok {
			cevFail("iterator unknown")
		}
		if it.i >= len(it.keys) {
			fr.env[x] = cvTuple{false, cvUnknown{}, cvUnknown{}}
			return
		}
		fr.env[x] = cvTuple{true, it.keys[it.i], it.vals[it.i]}
		it.i++
	case *ssa.Extract:
		t := ev.get(fr, x.Tuple)
		tup, ok := t.(cvTuple)
		if !ok {
			if isUnk(t) {
				fr.env[x] = t
				return
			}
			cevFail("extract from %T", t)
		}
		fr.env[x] = tup[x.Index]
	case *ssa.RunDefers:
	default:
		if v, isVal := ins.(ssa.Value); isVal {
			switch ins.(type) {
			case *ssa.Select, *ssa.MakeChan:
				cevFail("%T", ins)
			}
			fr.env[v] = cvUnknown{}
			return
		}
		cevFail("instruction %T", ins)
	}
}

func (ev *cev) unop(fr *cevFrame, x *ssa.UnOp) any {
	v := ev.get(fr, x.X)
	switch x.Op {
	case token.MUL:
		c := ev.deref(v, "load")
		return cvCopy(c.v)
	case token.NOT:
		if b, ok := v.(bool); ok {
			return !b
		}
	case token.SUB:
		switch n := v.(type) {
		case int64:
			return wrapInt(-n, x.Type())
		case float64:
			return -n
		}
	case token.XOR:
		if n, ok := v.(int64); ok {
			return wrapInt(^n, x.Type())
		}
	case token.ARROW:
		cevFail("channel receive")
	}
	return cvUnknown{}
}

func basicKind(t types.Type) (types.BasicKind, bool) {
	b, ok := t.Underlying().(*types.Basic)
	if !ok {
		return 0, false
	}
	return b.Kind(), true
}

func isUnsigned(t types.Type) bool {
	b, ok := t.Underlying().(*types.Basic)
	return ok && b.Info()&types.IsUnsigned != 0
}

func wrapInt(n int64, t types.Type) int64 {
	k, ok := basicKind(t)
	if !ok {
		return n
	}
	switch k {
	case types.Int8:
		return int64(int8(n))
	case types.Int16:
		return int64(int16(n))
	case types.Int32:
		return int64(int32(n))
	case types.Uint8:
		return int64(uint8(n))
	case types.Uint16:
		return int64(uint16(n))
	case types.Uint32:
		return int64(uint32(n))
	}
	return n
}

func (ev *cev) binop(op token.Token, a, b any, t types.Type) any {
	if isUnk(a, b) {
		return cvUnknown{}
	}
	switch op {
	case token.EQL:
		return cvEqual(a, b)
	case token.NEQ:
		return !cvEqual(a, b)
	}
	switch x := a.(type) {
	case string:
		y, ok := b.(string)
		if !ok {
			return cvUnknown{}
		}
		switch op {
		case token.ADD:
			if len(x)+len(y) > 1<<20 {
				cevFail("string too long")
			}
			return x + y
		case token.LSS:
			return x < y
		case token.LEQ:
			return x <= y
		case token.GTR:
			return x > y
		case token.GEQ:
			return x >= y
		}
	case int64:
		y, ok := b.(int64)
		if !ok {
			return cvUnknown{}
		}
		uns := isUnsigned(t)
		switch op {
		case token.ADD:
			return wrapInt(x+y, t)
		case token.SUB:
			return wrapInt(x-y, t)
		case token.MUL:
			return wrapInt(x*y, t)
		case token.QUO:
			if y == 0 {
				cevFail("division by zero")
			}
			if uns {
				return wrapInt(int64(uint64(x)/uint64(y)), t)
			}
			return wrapInt(x/y, t)
		case token.REM:
			if y == 0 {
				cevFail("division by zero")
			}
			if uns {
				return wrapInt(int64(uint64(x)%uint64(y)), t)
			}
			return wrapInt(x%y, t)
		case token.AND:
			return x & y
		case token.OR:
			return x | y
		case token.XOR:
			return wrapInt(x^y, t)
		case token.AND_NOT:
			return x &^ y
		case token.SHL:
			if y < 0 {
				cevFail("negative shift")
			}
			if y >= 64 {
				return int64(0)
			}
			return wrapInt(x<<uint(y), t)
		case token.SHR:
			if y < 0 {
				cevFail("negative shift")
			}
			if uns {
				if y >= 64 {
					return int64(0)
				}
				return int64(uint64(x) >> uint(y))
			}
			if y >= 64 {
				y = 63
			}
			return x >> uint(y)
		case token.LSS:
			if uns {
				return uint64(x) < uint64(y)
			}
			return x < y
		case token.LEQ:
			if uns {
				return uint64(x) <= uint64(y)
			}
			return x <= y
		case token.GTR:
			if uns {
				return uint64(x) > uint64(y)
			}
			return x > y
		case token.GEQ:
			if uns {
				return uint64(x) >= uint64(y)
			}
			return x >= y
		}
	case float64:
		y, ok := b.(float64)
		if !ok {
			return cvUnknown{}
		}
		switch op {
		case token.ADD:
			return x + y
		case token.SUB:
			return x - y
		case token.MUL:
			return x * y
		case token.QUO:
			return x / y
		case token.LSS:
			return x < y
		case token.LEQ:
			return x <= y
		case token.GTR:
			return x > y
		case token.GEQ:
			return x >= y
		}
	case bool:
		y, ok := b.(bool)
		if !ok {
			return cvUnknown{}
		}
		switch op {
		case token.AND:
			return x && y
		case token.OR:
			return x || y
		}
	}
	return cvUnknown{}
}

func (ev *cev) convert(v any, from, to types.Type) any {
	if isUnk(v) {
		return v
	}
	fb, fIsBasic := from.Underlying().(*types.Basic)
	tb, tIsBasic := to.Underlying().(*types.Basic)
	switch {
	case fIsBasic && tIsBasic:
		switch x := v.(type) {
		case int64:
			switch {
			case tb.Info()&types.IsInteger != 0:
				return wrapInt(x, to)
			case tb.Info()&types.IsFloat != 0:
				if fb.Info()&types.IsUnsigned != 0 {
					return float64(uint64(x))
				}
				return float64(x)
			case tb.Info()&types.IsString != 0:
				return string(rune(x))
			}
		case float64:
			switch {
			case tb.Info()&types.IsInteger != 0:
				return wrapInt(int64(x), to)
			case tb.Info()&types.IsFloat != 0:
				if tb.Kind() == types.Float32 {
					return float64(float32(x))
				}
				return x
			}
		case string:
			if tb.Info()&types.IsString != 0 {
				return x
			}
		case bool:
			return x
		}
	case fIsBasic && fb.Info()&types.IsString != 0:
		s, _ := v.(string)
		if sl, ok := to.Underlying().(*types.Slice); ok {
			if k, ok := basicKind(sl.Elem()); ok {
				out := cvSlice{e: []*cvCell{}}
				switch k {
				case types.Uint8:
					for i := 0; i < len(s); i++ {
						out.e = append(out.e, &cvCell{int64(s[i])})
					}
					return out
				case types.Int32:
					for _, r := range s {
						out.e = append(out.e, &cvCell{int64(r)})
					}
					return out
				}
			}
		}
	case tIsBasic && tb.Info()&types.IsString != 0:
		if sl, ok := v.(cvSlice); ok {
			if st, ok := from.Underlying().(*types.Slice); ok {
				k, _ := basicKind(st.Elem())
				var sb strings.Builder
				for _, c := range sl.e {
					n, ok := c.v.(int64)
					if !ok {
						return cvUnknown{}
					}
					if k == types.Uint8 {
						sb.WriteByte(byte(n))
					} else {
						sb.WriteRune(rune(n))
					}
				}
				return sb.String()
			}
		}
	default:
		if _, isPtr := to.Underlying().(*types.Pointer); isPtr {
			if _, fromPtr := from.Underlying().(*types.Pointer); fromPtr {
				return v
			}
		}
	}
	return cvUnknown{}
}

func (ev *cev) typeAssert(x *ssa.TypeAssert, v any) any {
	if isUnk(v) {
		if x.CommaOk {
			return cvTuple{cvUnknown{}, cvUnknown{}}
		}
		return v
	}
	okAssert := false
	var res any
	if ifv, isIface := v.(cvIface); isIface {
		if it, toIface := x.AssertedType.Underlying().(*types.Interface); toIface {
			okAssert = types.Implements(ifv.t, it)
			res = ifv
		} else {
			okAssert = types.Identical(ifv.t, x.AssertedType)
			res = ifv.v
		}
	} else if v != nil {
		cevFail("type assertion on %T", v)
	}
	if x.CommaOk {
		if !okAssert {
			return cvTuple{ev.zero(x.AssertedType), false}
		}
		return cvTuple{res, true}
	}
	if !okAssert {
		cevFail("type assertion fails")
	}
	return res
}

func (ev *cev) lookup(x *ssa.Lookup, col, key any) any {
	if isUnk(col, key) {
		if x.CommaOk {
			return cvTuple{cvUnknown{}, cvUnknown{}}
		}
		return cvUnknown{}
	}
	switch c := col.(type) {
	case string:
		n, _ := key.(int64)
		if n < 0 || n >= int64(len(c)) {
			cevFail("index out of range")
		}
		return int64(c[n])
	case *cvMap:
		v, ok := c.get(key)
		if !ok {
			v = ev.zero(x.X.Type().Underlying().(*types.Map).Elem())
		}
		v = cvCopy(v)
		if x.CommaOk {
			return cvTuple{v, ok}
		}
		return v
	}
	cevFail("lookup in %T", col)
	return nil
}

func (ev *cev) slice(fr *cevFrame, x *ssa.Slice) any {
	col := ev.get(fr, x.X)
	if isUnk(col) {
		return col
	}
	bound := func(v ssa.Value, def int64) int64 {
		if v == nil {
			return def
		}
		n, ok := ev.get(fr, v).(int64)
		if !ok {
			cevFail("slice bound unknown")
		}
		return n
	}
	switch c := col.(type) {
	case string:
		lo, hi := bound(x.Low, 0), bound(x.High, int64(len(c)))
		if lo < 0 || hi < lo || hi > int64(len(c)) {
			cevFail("slice bounds out of range")
		}
		return c[lo:hi]
	case cvSlice:
		lo, hi := bound(x.Low, 0), bound(x.High, int64(len(c.e)))
		if lo < 0 || hi < lo || hi > int64(len(c.e)) {
			cevFail("slice bounds out of range")
		}
		if c.e == nil {
			return c
		}
		return cvSlice{e: c.e[lo:hi:hi]}
	case *cvCell:
		a, ok := c.v.(*cvArray)
		if !ok {
			cevFail("slice of %T", c.v)
		}
		lo, hi := bound(x.Low, 0), bound(x.High, int64(len(a.e)))
		if lo < 0 || hi < lo || hi > int64(len(a.e)) {
			cevFail("slice bounds out of range")
		}
		return cvSlice{e: a.e[lo:hi:hi]}
	case nil:
		cevFail("slice of nil pointer")
	}
	cevFail("slice of %T", col)
	return nil
}

func (ev *cev) rangeOf(col any) any {
	switch c := col.(type) {
	case string:
		it := &cvIter{}
		for i, r := range c {
			it.keys = append(it.keys, int64(i))
			it.vals = append(it.vals, int64(r))
		}
		return it
	case *cvMap:
		it := &cvIter{}
		for _, k := range c.keys {
			v, _ := c.get(k)
			it.keys = append(it.keys, k)
			it.vals = append(it.vals, cvCopy(v))
		}
		return it
	}
	cevFail("range over %T", col)
	return nil
}

func (ev *cev) callInstr(fr *cevFrame, c *ssa.CallCommon, depth int) any {
	args := make([]any, 0, len(c.Args)+1)
	if c.IsInvoke() {
		recv := ev.get(fr, c.Value)
		ifv, ok := recv.(cvIface)
		if !ok {
			if recv == nil {
				cevFail("method call on nil interface")
			}
			cevFail("dynamic call on an unknown value")
		}
		sel := ev.w.Prog.MethodSets.MethodSet(ifv.t).Lookup(c.Method.Pkg(), c.Method.Name())
		if sel == nil {
			cevFail("no method %s on %s", c.Method.Name(), ifv.t)
		}
		fn := ev.w.Prog.MethodValue(sel)
		if fn == nil {
			cevFail("abstract method")
		}
		args = append(args, ifv.v)
		for _, a := range c.Args {
			args = append(args, ev.get(fr, a))
		}
		return ev.call(fn, args, nil, depth+1)
	}
	for _, a := range c.Args {
		args = append(args, ev.get(fr, a))
	}
	switch callee := c.Value.(type) {
	case *ssa.Builtin:
		return ev.builtin(callee, c, args)
	case *ssa.Function:
		if callee.Name() == "init" && callee.Pkg != nil && callee.Pkg != fr.fn.Pkg {
			return nil // the initialiser of an imported package: evaluated on demand
		}
		return ev.call(callee, args, nil, depth+1)
	}
	v := ev.get(fr, c.Value)
	cl, ok := v.(cvClosure)
	if !ok {
		if v == nil {
			cevFail("call of nil function")
		}
		cevFail("dynamic call on an unknown value")
	}
	return ev.call(cl.fn, args, cl.bind, depth+1)
}

func (ev *cev) builtin(b *ssa.Builtin, c *ssa.CallCommon, args []any) any {
	switch b.Name() {
	case "len", "cap":
		switch x := args[0].(type) {
		case string:
			return int64(len(x))
		case cvSlice:
			if b.Name() == "cap" {
				return int64(cap(x.e))
			}
			return int64(len(x.e))
		case *cvMap:
			return int64(len(x.m))
		case *cvArray:
			return int64(len(x.e))
		case *cvCell:
			if a, ok := x.v.(*cvArray); ok {
				return int64(len(a.e))
			}
		case nil:
			if pt, ok := c.Args[0].Type().Underlying().(*types.Pointer); ok {
				if at, ok := pt.Elem().Underlying().(*types.Array); ok {
					return at.Len()
				}
			}
		}
		return cvUnknown{}
	case "append":
		s, ok := args[0].(cvSlice)
		if !ok {
			cevFail("append to unknown slice")
		}
		var add []*cvCell
		switch t := args[1].(type) {
		case cvSlice:
			for _, cell := range t.e {
				add = append(add, &cvCell{cvCopy(cell.v)})
			}
		case string:
			for i := 0; i < len(t); i++ {
				add = append(add, &cvCell{int64(t[i])})
			}
		default:
			cevFail("append of unknown elements")
		}
		if len(add) == 0 {
			return s
		}
		// a fresh backing array: writes through the old slice and the new one do not alias (they may in Go when capacity
		// allows; code that depends on it is not what this evaluator is for)
		out := cvSlice{e: make([]*cvCell, 0, len(s.e)+len(add))}
		out.e = append(out.e, s.e...)
		out.e = append(out.e, add...)
		if len(out.e) > 1<<20 {
			cevFail("slice too long")
		}
		return out
	case "copy":
		dst, ok := args[0].(cvSlice)
		if !ok {
			cevFail("copy into unknown slice")
		}
		n := 0
		switch src := args[1].(type) {
		case cvSlice:
			vals := make([]any, len(src.e))
			for i, cell := range src.e {
				vals[i] = cvCopy(cell.v)
			}
			for n < len(dst.e) && n < len(vals) {
				dst.e[n].v = vals[n]
				n++
			}
		case string:
			for n < len(dst.e) && n < len(src) {
				dst.e[n].v = int64(src[n])
				n++
			}
		default:
			cevFail("copy from unknown")
		}
		return int64(n)
	case "delete":
		m, ok := args[0].(*cvMap)
		if !ok || isUnk(args[1]) {
			cevFail("delete: map or key unknown")
		}
		m.del(args[1])
		return nil
	case "clear":
		switch x := args[0].(type) {
		case *cvMap:
			if x.m != nil {
				x.m, x.keys = map[any]any{}, nil
			}
			return nil
		}
		cevFail("clear of %T", args[0])
	case "min", "max":
		best := args[0]
		for _, a := range args[1:] {
			lt := ev.binop(token.LSS, a, best, c.Args[0].Type())
			ltb, ok := lt.(bool)
			if !ok {
				return cvUnknown{}
			}
			if (b.Name() == "min") == ltb {
				best = a
			}
		}
		return best
	case "print", "println":
		return nil
	case "panic":
		cevFail("panic")
	}
	return cvUnknown{}
}

// ---- library functions evaluated by their Go namesakes (all side-effect free) ----

func cevStrings(v any) ([]string, bool) {
	s, ok := v.(cvSlice)
	if !ok {
		return nil, false
	}
	out := make([]string, len(s.e))
	for i, c := range s.e {
		str, ok := c.v.(string)
		if !ok {
			return nil, false
		}
		out[i] = str
	}
	return out, true
}

func cevFromStrings(ss []string) cvSlice {
	out := cvSlice{e: make([]*cvCell, len(ss))}
	for i, s := range ss {
		out.e[i] = &cvCell{s}
	}
	return out
}

func cevIntrinsic(fn *ssa.Function, args []any) (any, bool) {
	name := fn.String()
	if fn.Pkg == nil {
		if o := fn.Origin(); o != nil {
			name = o.String()
		}
	}
	str := func(i int) (string, bool) {
		if i >= len(args) {
			return "", false
		}
		s, ok := args[i].(string)
		return s, ok
	}
	s0, ok0 := str(0)
	s1, ok1 := str(1)
	s2, ok2 := str(2)
	unknownIf := func(ok bool, v any) (any, bool) {
		if !ok {
			return cvUnknown{}, true
		}
		return v, true
	}
	switch name {
	case "strings.ToLower":
		return unknownIf(ok0, strings.ToLower(s0))
	case "strings.ToUpper":
		return unknownIf(ok0, strings.ToUpper(s0))
	case "strings.TrimSpace":
		return unknownIf(ok0, strings.TrimSpace(s0))
	case "strings.TrimPrefix":
		return unknownIf(ok0 && ok1, strings.TrimPrefix(s0, s1))
	case "strings.TrimSuffix":
		return unknownIf(ok0 && ok1, strings.TrimSuffix(s0, s1))
	case "strings.Trim":
		return unknownIf(ok0 && ok1, strings.Trim(s0, s1))
	case "strings.TrimLeft":
		return unknownIf(ok0 && ok1, strings.TrimLeft(s0, s1))
	case "strings.TrimRight":
		return unknownIf(ok0 && ok1, strings.TrimRight(s0, s1))
	case "strings.HasPrefix":
		return unknownIf(ok0 && ok1, strings.HasPrefix(s0, s1))
	case "strings.HasSuffix":
		return unknownIf(ok0 && ok1, strings.HasSuffix(s0, s1))
	case "strings.Contains":
		return unknownIf(ok0 && ok1, strings.Contains(s0, s1))
	case "strings.ContainsAny":
		return unknownIf(ok0 && ok1, strings.ContainsAny(s0, s1))
	case "strings.EqualFold":
		return unknownIf(ok0 && ok1, strings.EqualFold(s0, s1))
	case "strings.Index":
		return unknownIf(ok0 && ok1, int64(strings.Index(s0, s1)))
	case "strings.LastIndex":
		return unknownIf(ok0 && ok1, int64(strings.LastIndex(s0, s1)))
	case "strings.Count":
		return unknownIf(ok0 && ok1, int64(strings.Count(s0, s1)))
	case "strings.Compare":
		return unknownIf(ok0 && ok1, int64(strings.Compare(s0, s1)))
	case "strings.ReplaceAll":
		return unknownIf(ok0 && ok1 && ok2, strings.ReplaceAll(s0, s1, s2))
	case "strings.Replace":
		n, okn := int64(0), false
		if len(args) == 4 {
			n, okn = args[3].(int64)
		}
		return unknownIf(ok0 && ok1 && ok2 && okn, strings.Replace(s0, s1, s2, int(n)))
	case "strings.Repeat":
		n, okn := int64(0), false
		if len(args) == 2 {
			n, okn = args[1].(int64)
		}
		if !ok0 || !okn || n < 0 || n*int64(len(s0)) > 1<<20 {
			return cvUnknown{}, true
		}
		return strings.Repeat(s0, int(n)), true
	case "strings.Split":
		if !ok0 || !ok1 {
			return cvUnknown{}, true
		}
		return cevFromStrings(strings.Split(s0, s1)), true
	case "strings.Fields":
		if !ok0 {
			return cvUnknown{}, true
		}
		return cevFromStrings(strings.Fields(s0)), true
	case "strings.Join":
		if len(args) == 2 {
			if ss, ok := cevStrings(args[0]); ok && ok1 {
				return strings.Join(ss, s1), true
			}
		}
		return cvUnknown{}, true
	case "strings.Cut":
		if !ok0 || !ok1 {
			return cvTuple{cvUnknown{}, cvUnknown{}, cvUnknown{}}, true
		}
		a, b, found := strings.Cut(s0, s1)
		return cvTuple{a, b, found}, true
	case "strings.CutPrefix":
		if !ok0 || !ok1 {
			return cvTuple{cvUnknown{}, cvUnknown{}}, true
		}
		a, found := strings.CutPrefix(s0, s1)
		return cvTuple{a, found}, true
	case "strings.CutSuffix":
		if !ok0 || !ok1 {
			return cvTuple{cvUnknown{}, cvUnknown{}}, true
		}
		a, found := strings.CutSuffix(s0, s1)
		return cvTuple{a, found}, true
	case "strconv.Itoa":
		if n, ok := args[0].(int64); ok {
			return strconv.Itoa(int(n)), true
		}
		return cvUnknown{}, true
	case "strconv.Quote":
		return unknownIf(ok0, strconv.Quote(s0))
	case "unicode/utf8.RuneCountInString":
		return unknownIf(ok0, int64(utf8.RuneCountInString(s0)))
	case "sort.Strings", "slices.Sort":
		if len(args) == 1 {
			if sl, isSl := args[0].(cvSlice); isSl {
				if ss, ok := cevStrings(sl); ok {
					sort.Strings(ss)
					for i, s := range ss {
						sl.e[i].v = s
					}
					return nil, true
				}
			}
		}
		return nil, false
	}
	return nil, false
}

// ---- conveniences for rules ----

// evalStringFunc: fn(s) for a function whose parameters are one string (every other parameter, a receiver included, gets its zero
// value) and whose first result is a string, optionally followed by a bool ("found"). has is false when the function says the
// spelling is not one of its rows.
func (ev *cev) evalStringFunc(fn *ssa.Function, s string) (out string, has bool, ok bool) {
	args := make([]any, len(fn.Params))
	for i, p := range fn.Params {
		if b, isB := p.Type().Underlying().(*types.Basic); isB && b.Info()&types.IsString != 0 {
			args[i] = s
		} else {
			args[i] = ev.zero(p.Type())
		}
	}
	res, ok, _ := ev.Eval(fn, args)
	if !ok {
		return "", false, false
	}
	switch r := res.(type) {
	case string:
		return r, true, true
	case cvTuple:
		if len(r) == 2 {
			str, isS := r[0].(string)
			b, isB := r[1].(bool)
			if isS && isB {
				return str, b, true
			}
		}
	}
	return "", false, false
}
