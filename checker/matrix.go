package main

import (
	"fmt"
	"go/constant"
	"go/token"
	"go/types"
	"os"
	"sort"
	"strings"

	"golang.org/x/tools/go/ssa"
)

// ------------------------------------------------------------------------------------------------
// The wire matrix engine: kind/repeat path conditions (dataflow) + may-depend analysis, specialised per unit.
// ------------------------------------------------------------------------------------------------

// kinds
const (
	kBasic = iota
	kLength
	kCheckSum
	kFixed
	kDyn
	kObject
	kMatch
	nKinds
)

var kindNames = []string{"Basic", "Length", "CheckSum", "FixedString", "DynamicString", "Object", "Match"}
var kindTypes = map[string]int{"BasicFieldAttribute": kBasic, "LengthFieldAttribute": kLength, "CheckSumFieldAttribute": kCheckSum,
	"FixedStringFieldAttribute": kFixed, "DynamicStringFieldAttribute": kDyn, "ObjectFieldAttribute": kObject, "MatchFieldAttribute": kMatch}

const allKinds = uint8(1<<nKinds - 1)

// St is the abstract path condition for one field value.
type St struct {
	K uint8 // set of kinds
	R uint8 // 1 = single, 2 = list
	L uint8 // 1 = length target (LenAttr is *LengthFieldAttribute), 2 = not
}

var stTop = St{allKinds, 3, 3}
var stBot = St{0, 0, 0}

func (a St) join(b St) St { return St{a.K | b.K, a.R | b.R, a.L | b.L} }
func (a St) empty() bool  { return a.K == 0 || a.R == 0 || a.L == 0 }
func (a St) isTop() bool  { return a == stTop }
func (a St) String() string {
	var ks []string
	for i := 0; i < nKinds; i++ {
		if a.K&(1<<i) != 0 {
			ks = append(ks, kindNames[i])
		}
	}
	k := strings.Join(ks, "|")
	if a.K == allKinds {
		k = "*"
	}
	r := map[uint8]string{1: "single", 2: "list", 3: "*", 0: "-"}[a.R]
	l := map[uint8]string{1: "lenTarget", 2: "plain", 3: "*", 0: "-"}[a.L]
	return fmt.Sprintf("{%s %s %s}", k, r, l)
}

// unit is one cell of the matrix.
type unit struct {
	K      int
	List   bool
	Target bool // the field is the target of a @lengthOf (back-patch path)
}

func (u unit) String() string {
	s := kindNames[u.K]
	if u.List {
		s += "/list"
	} else {
		s += "/single"
	}
	if u.Target {
		s += "/lengthTarget"
	}
	return s
}

func (s St) admits(u unit) bool {
	if s.K&(1<<u.K) == 0 {
		return false
	}
	r := uint8(1)
	if u.List {
		r = 2
	}
	if s.R&r == 0 {
		return false
	}
	l := uint8(2)
	if u.Target {
		l = 1
	}
	return s.L&l != 0
}

// sources (bitset)
type src uint32

const (
	sLE src = 1 << iota
	sSP
	sAP
	sCP
	sFP
	sPC
	sPL
	sFL
	sCS
	sTY
	sMK
	sPK
	sPV
	sLF
	sLFT
	sTBL
	sCOLLE
	sISDEF
	sNAME // field/packet names: not wire relevant, used for diagnostics only
)

var srcNames = []string{"LittleEndian", "StringPrefixLenType", "ArrayPrefixLenType", "Config.Padding", "FixedString.Padding", "PadChar", "PadLeft", "FixedString.Length",
	"CheckSumType", "scalar-type", "MatchKeyField", "MatchPair.Key", "MatchPair.Value", "Packet.LengthField", "LengthField-type", "type-table", "table.Le-column", "IsDefault()", "name"}

func (s src) String() string {
	var out []string
	for i, n := range srcNames {
		if s&(1<<i) != 0 && src(1<<i) != sNAME {
			out = append(out, n)
		}
	}
	if len(out) == 0 {
		return "{}"
	}
	return "{" + strings.Join(out, ", ") + "}"
}

var tableTypeNames = map[string]bool{"GoType": true, "JavaType": true, "PyType": true, "CppType": true, "LuaType": true}

func fieldSource(tn, f string) src {
	switch tn + "." + f {
	case "Configuration.LittleEndian":
		return sLE
	case "Configuration.StringLenPrefixLenType":
		return sSP
	case "Configuration.ListLenPrefixLenType":
		return sAP
	case "Configuration.Padding":
		return sCP
	case "Padding.PadChar":
		return sPC
	case "Padding.PadLeft":
		return sPL
	case "FixedStringFieldAttribute.Length":
		return sFL
	case "FixedStringFieldAttribute.Padding":
		return sFP
	case "CheckSumFieldAttribute.CheckSumType":
		return sCS
	case "MatchFieldAttribute.MatchKeyField":
		return sMK
	case "MatchPair.Key":
		return sPK
	case "MatchPair.Value":
		return sPV
	case "Packet.LengthField":
		return sLF
	case "Field.Name", "Packet.Name":
		return sNAME
	}
	if tableTypeNames[tn] {
		if f == "Le" {
			return sTBL | sCOLLE
		}
		return sTBL
	}
	return 0
}

// ---- per-function facts ----

type fnFacts struct {
	fn     *ssa.Function
	cd     *cdInfo
	fields []ssa.Value        // candidate subject field values (type *model.Field) with tests or parameter
	st     map[ssa.Value][]St // field value -> state at entry of each block (by block index)
	entry  map[ssa.Value]St   // entry state for parameter fields
	// a function that is not handed the field (only pieces of it) inherits the state of its call sites: every block has this state
	hasCtx      bool
	ctx         St
	ctxSpecific bool // some call site had a field-specific state (the join may still be top)
	// a closure's captured field variables for which some call site's state was about another field than the one captured
	ctxForeign map[*ssa.FreeVar]bool
}

// ctxField stands for "the field under emission at the call sites" in functions that have no field parameter.
var ctxField ssa.Value = ssa.NewConst(constant.MakeBool(true), types.Typ[types.Bool])

type matrix struct {
	w         *World
	facts     map[*ssa.Function]*fnFacts
	anchors   map[*ssa.Function]bool // emitters treated as opaque when called
	funcs     []*ssa.Function        // generator-reachable subject functions
	summ      map[summKey]src
	inprog    map[summKey]bool
	emitOuter map[*ssa.Function]int
	pdeps     map[paramKey]src
	pbusy     map[paramKey]bool
	callers   map[*ssa.Function][]ssa.CallInstruction
}

type summKey struct {
	fn   *ssa.Function
	u    unit
	spec bool // specialised to u (callee's field parameter bound to the subject field)
	full bool // emitter roots summarised too
}

func isFieldPtr(t types.Type) bool {
	p, ok := t.(*types.Pointer)
	return ok && typeIs(p.Elem(), modPath+"/internal/model", "Field") && modelTypeName(p.Elem()) == "Field"
}

// canonField: a *model.Field read out of a struct-typed parameter (a "context" record handed to per-kind emitters) stands for one
// field however often it is re-read: all reads of the same member of the same parameter are represented by the first one.
func canonField(v ssa.Value) ssa.Value {
	v = stripIdentity(v)
	// a variable kept in a cell (captured by a closure) and assigned once: every load is the cell's one value
	if ld, ok := v.(*ssa.UnOp); ok && ld.Op == token.MUL {
		if al, ok := ld.X.(*ssa.Alloc); ok && al.Referrers() != nil && isFieldPtr(v.Type()) {
			n := 0
			var only ssa.Value
			for _, ref := range *al.Referrers() {
				if st, ok := ref.(*ssa.Store); ok && st.Addr == ssa.Value(al) {
					n++
					only = st.Val
				}
			}
			if n == 1 {
				return canonField(only)
			}
		}
	}
	var prm *ssa.Parameter
	idx := -1
	switch x := v.(type) {
	case *ssa.Field:
		if p, ok := x.X.(*ssa.Parameter); ok {
			prm, idx = p, x.Field
		}
	case *ssa.UnOp:
		if fa, ok := x.X.(*ssa.FieldAddr); ok && x.Op == token.MUL {
			switch b := fa.X.(type) {
			case *ssa.Parameter: // pointer to the record
				prm, idx = b, fa.Field
			case *ssa.Alloc: // spilled by-value record
				if b.Comment != "" {
					for _, p := range b.Parent().Params {
						if p.Name() == b.Comment {
							prm, idx = p, fa.Field
						}
					}
				}
			}
		}
	}
	if prm == nil || !isFieldPtr(v.Type()) {
		return v
	}
	fn := prm.Parent()
	var first ssa.Value
	for _, b := range fn.Blocks {
		for _, ins := range b.Instrs {
			val, ok := ins.(ssa.Value)
			if !ok || !isFieldPtr(val.Type()) {
				continue
			}
			switch y := ins.(type) {
			case *ssa.Field:
				if y.X == ssa.Value(prm) && y.Field == idx {
					first = y
				}
			case *ssa.UnOp:
				if fa, ok := y.X.(*ssa.FieldAddr); ok && fa.Field == idx {
					if fa.X == ssa.Value(prm) {
						first = y
					} else if al, ok := fa.X.(*ssa.Alloc); ok && al.Comment == prm.Name() {
						first = y
					}
				}
			}
			if first != nil {
				return first
			}
		}
	}
	return v
}

// subjectField: the variable a field value stands for in the state analysis: canonField, and for a field captured by a closure the
// captured variable itself (every use loads it anew; capturedField tells what the enclosing function keeps in it).
func subjectField(v ssa.Value) ssa.Value {
	if v == nil {
		return nil
	}
	if ld, ok := stripIdentity(v).(*ssa.UnOp); ok && ld.Op == token.MUL && isFieldPtr(ld.Type()) {
		if fv, ok := ld.X.(*ssa.FreeVar); ok {
			return fv
		}
	}
	return canonField(v)
}

// isCarriedField: a field value the function was handed (a parameter, or a member of a record parameter).
func isCarriedField(f ssa.Value) bool {
	if _, ok := f.(*ssa.Parameter); ok {
		return true
	}
	return f != nil && canonField(f) == f && func() bool {
		switch x := f.(type) {
		case *ssa.Field:
			_, ok := x.X.(*ssa.Parameter)
			return ok
		case *ssa.UnOp:
			if fa, ok := x.X.(*ssa.FieldAddr); ok {
				switch b := fa.X.(type) {
				case *ssa.Parameter:
					return true
				case *ssa.Alloc:
					return b.Comment != ""
				}
			}
		}
		return false
	}()
}

// uncheckedKind: the kind a single-result assertion on f.Attr commits the rest of the block (and what it dominates) to.
func uncheckedKind(b *ssa.BasicBlock, f ssa.Value) (int, bool) {
	for _, ins := range b.Instrs {
		ta, ok := ins.(*ssa.TypeAssert)
		if !ok || ta.CommaOk {
			continue
		}
		ld, ok := ta.X.(*ssa.UnOp)
		if !ok || ld.Op != token.MUL {
			continue
		}
		fa, ok := ld.X.(*ssa.FieldAddr)
		if !ok || !isFieldPtr(fa.X.Type()) || (canonField(fa.X) != f && subjectField(fa.X) != f) {
			continue
		}
		if _, fname, _, _ := fieldOf(fa); fname != "Attr" {
			continue
		}
		if k, known := kindTypes[modelTypeName(ta.AssertedType)]; known {
			return k, true
		}
	}
	return 0, false
}

// fieldTest classifies a branch condition as a test on a field value.
// returns field value, and a function refining the state along true/false edges.
func fieldTest(cond ssa.Value) (f ssa.Value, refine func(St, bool) St) {
	neg := false
	for {
		if u, ok := cond.(*ssa.UnOp); ok && u.Op == token.NOT {
			neg = !neg
			cond = u.X
			continue
		}
		break
	}
	// ok of a checked assertion on f.Attr / f.LenAttr
	if ex, ok := cond.(*ssa.Extract); ok && ex.Index == 1 {
		if ta, ok := ex.Tuple.(*ssa.TypeAssert); ok && ta.CommaOk {
			if ld, ok := ta.X.(*ssa.UnOp); ok && ld.Op == token.MUL {
				if fa, ok := ld.X.(*ssa.FieldAddr); ok && isFieldPtr(fa.X.Type()) {
					_, fname, _, _ := fieldOf(fa)
					tn := modelTypeName(ta.AssertedType)
					switch fname {
					case "Attr":
						k, known := kindTypes[tn]
						if !known {
							return nil, nil
						}
						return fa.X, func(s St, edge bool) St {
							if edge != neg {
								s.K &= 1 << k
							} else {
								s.K &^= 1 << k
							}
							return s
						}
					case "LenAttr":
						if tn != "LengthFieldAttribute" {
							return nil, nil
						}
						return fa.X, func(s St, edge bool) St {
							if edge != neg {
								s.L &= 1
							} else {
								s.L &= 2
							}
							return s
						}
					}
				}
			}
			return nil, nil
		}
	}
	// ok of a lookup in a table keyed by the dynamic type of f.Attr: the kind has a row / has none
	if kf, rows, exact := kindLookupTest(cond); kf != nil {
		return kf, func(s St, edge bool) St {
			if edge != neg {
				if exact {
					s.K &= rows
				}
			} else {
				s.K &^= rows
			}
			return s
		}
	}
	// f.IsRepeat
	if ld, ok := cond.(*ssa.UnOp); ok && ld.Op == token.MUL {
		if fa, ok := ld.X.(*ssa.FieldAddr); ok && isFieldPtr(fa.X.Type()) {
			if _, fname, _, _ := fieldOf(fa); fname == "IsRepeat" {
				return fa.X, func(s St, edge bool) St {
					if edge != neg {
						s.R &= 2
					} else {
						s.R &= 1
					}
					return s
				}
			}
		}
	}
	// a predicate of the repo handed one field: `isSingleNumber(f)`, `g.isText(f)` - what is known about the field where it says yes
	predCall, predIdx := (*ssa.Call)(nil), 0
	switch x := cond.(type) {
	case *ssa.Call:
		predCall = x
	case *ssa.Extract:
		if cc, ok := x.Tuple.(*ssa.Call); ok {
			predCall, predIdx = cc, x.Index
		}
	}
	if c := predCall; c != nil {
		if h := c.Call.StaticCallee(); h != nil && h.Blocks != nil && theWorld != nil && theWorld.isRepoLike(h) && predIdx < h.Signature.Results().Len() && isBoolType(h.Signature.Results().At(predIdx).Type()) {
			pidx := -1
			for i, a := range c.Call.Args {
				if isFieldPtr(a.Type()) && i < len(h.Params) {
					if pidx >= 0 {
						return nil, nil // two fields: not a predicate on one
					}
					pidx = i
				}
			}
			if pidx >= 0 {
				// either answer may be the informative one: a classifier that says yes to lists of any kind and to strings tells
				// nothing about the field where it says yes, and "no list, no string" where it says no
				yes, no := predicateYes(h, pidx, predIdx), predicateNo(h, pidx, predIdx)
				if yes != stTop || no != stTop {
					return c.Call.Args[pidx], func(s St, edge bool) St {
						if edge != neg {
							return meetSt(s, yes)
						}
						return meetSt(s, no)
					}
				}
			}
		}
	}
	return nil, nil
}

var predicateYesMemo = map[*ssa.Function]map[[3]int]St{}
var predicateYesBusy = map[*ssa.Function]bool{}

// predicateYes: an over-approximation of the state of parameter pidx of the bool function h on the calls where h returns true.
func predicateYes(h *ssa.Function, pidx int, resIdx int) St { return predicateWhen(h, pidx, resIdx, true) }

// predicateNo: the same for the calls where h returns false (`shape, ok := g.classify(f); if ok { return ... }`: what follows the
// early return is reached by the fields the classifier turned down).
func predicateNo(h *ssa.Function, pidx int, resIdx int) St { return predicateWhen(h, pidx, resIdx, false) }

func predicateWhen(h *ssa.Function, pidx int, resIdx int, want bool) St {
	memoKey := [3]int{pidx, resIdx, 0}
	if want {
		memoKey[2] = 1
	}
	if m := predicateYesMemo[h]; m != nil {
		if st, ok := m[memoKey]; ok {
			return st
		}
	}
	if predicateYesBusy[h] {
		return stTop
	}
	predicateYesBusy[h] = true
	defer delete(predicateYesBusy, h)
	param := ssa.Value(h.Params[pidx])
	// the field tests of h on this parameter
	type ft struct {
		b      *ssa.BasicBlock
		refine func(St, bool) St
	}
	var tests []ft
	for _, b := range h.Blocks {
		cond := branchCond(b)
		if cond == nil {
			continue
		}
		if f, refine := fieldTest(cond); f != nil && stripIdentity(f) == param {
			tests = append(tests, ft{b, refine})
		}
	}
	var whenTrue func(v ssa.Value, depth int) St
	whenTrue = func(v ssa.Value, depth int) St {
		if depth > 5 {
			return stTop
		}
		switch x := v.(type) {
		case *ssa.Const:
			if x.Value != nil && x.Value.Kind() == constant.Bool && constant.BoolVal(x.Value) != want {
				return stBot
			}
			return stTop
		case *ssa.Phi:
			out := stBot
			for i, e := range x.Edges {
				st := whenTrue(e, depth+1)
				// what the edge's origin block already knows
				for _, t := range tests {
					for succ := 0; succ < 2; succ++ {
						if edgeDominates(t.b, succ, x.Block().Preds[i]) || (t.b == x.Block().Preds[i] && t.b.Succs[succ] == x.Block() && t.b.Succs[0] != t.b.Succs[1]) {
							st = meetSt(st, t.refine(stTop, succ == 0))
						}
					}
				}
				out = joinSt(out, st)
			}
			return out
		}
		if f, refine := fieldTest(v); f != nil && stripIdentity(f) == param {
			return refine(stTop, want)
		}
		return stTop
	}
	out := stBot
	for _, b := range h.Blocks {
		ret, ok := b.Instrs[len(b.Instrs)-1].(*ssa.Return)
		if !ok || resIdx >= len(ret.Results) {
			continue
		}
		st := whenTrue(ret.Results[resIdx], 0)
		for _, t := range tests {
			for succ := 0; succ < 2; succ++ {
				if edgeDominates(t.b, succ, b) {
					st = meetSt(st, t.refine(stTop, succ == 0))
				}
			}
		}
		out = joinSt(out, st)
	}
	if predicateYesMemo[h] == nil {
		predicateYesMemo[h] = map[[3]int]St{}
	}
	predicateYesMemo[h][memoKey] = out
	return out
}

func meetSt(a, b St) St { return St{a.K & b.K, a.R & b.R, a.L & b.L} }
func joinSt(a, b St) St { return St{a.K | b.K, a.R | b.R, a.L | b.L} }

func newMatrix(w *World) *matrix {
	m := &matrix{w: w, facts: map[*ssa.Function]*fnFacts{}, anchors: map[*ssa.Function]bool{}, summ: map[summKey]src{}, inprog: map[summKey]bool{},
		pdeps: map[paramKey]src{}, pbusy: map[paramKey]bool{}, callers: map[*ssa.Function][]ssa.CallInstruction{}}
	m.funcs = generatorReach(w)
	for _, fn := range m.funcs {
		forEachInstr(fn, func(b *ssa.BasicBlock, ins ssa.Instruction) {
			if c, ok := ins.(ssa.CallInstruction); ok {
				if g := calleeOf(c); g != nil && g != fn {
					m.callers[g] = append(m.callers[g], c)
				} else if g == nil {
					// a call of a row of a kind table: a call site of every function behind a row (arguments and parameters
					// correspond one to one unless the row is a method value, which brings its receiver)
					ts, _ := dispatchTargets(c)
					for _, t := range ts {
						if t.off == 0 && t.fn != fn {
							m.callers[t.fn] = append(m.callers[t.fn], c)
						}
					}
				}
			}
		})
	}
	for _, fn := range m.funcs {
		ff := &fnFacts{fn: fn, cd: computeCD(fn), st: map[ssa.Value][]St{}, entry: map[ssa.Value]St{}}
		seen := map[ssa.Value]bool{}
		for _, p := range fn.Params {
			if isFieldPtr(p.Type()) {
				ff.fields = append(ff.fields, p)
				seen[p] = true
			}
		}
		for _, b := range fn.Blocks {
			if c := branchCond(b); c != nil {
				if f, _ := fieldTest(c); f != nil {
					// the tested value stands for its variable: a parameter kept in a cell, a captured variable, a member of a record
					if cf := subjectField(f); cf != nil {
						f = cf
					}
					if !seen[f] {
						seen[f] = true
						ff.fields = append(ff.fields, f)
					}
				}
			}
			for _, ins := range b.Instrs {
				if v, ok := ins.(ssa.Value); ok && isFieldPtr(v.Type()) {
					if cf := canonField(v); cf == v && isCarriedField(v) && !seen[v] {
						seen[v] = true
						ff.fields = append(ff.fields, v)
					}
				}
			}
		}
		m.facts[fn] = ff
	}
	m.dropForeignFieldParams()
	m.solve()
	return m
}

// dropForeignFieldParams: a *model.Field parameter that every call site binds to the packet's length field (p.LengthField) is not
// "the field under emission" of the callee - the callee works for the caller's field and inherits its state as a context state.
func (m *matrix) dropForeignFieldParams() {
	isLengthFieldLoad := func(v ssa.Value) bool {
		ld, ok := stripIdentity(v).(*ssa.UnOp)
		if !ok || ld.Op != token.MUL {
			return false
		}
		fa, ok := ld.X.(*ssa.FieldAddr)
		if !ok {
			return false
		}
		tn, f, _, _ := fieldOf(fa)
		return tn == "Packet" && f == "LengthField"
	}
	for _, fn := range m.funcs {
		ff := m.facts[fn]
		sites := m.callers[fn]
		if len(sites) == 0 {
			continue
		}
		var keep []ssa.Value
		for _, f := range ff.fields {
			p, isParam := f.(*ssa.Parameter)
			if !isParam {
				keep = append(keep, f)
				continue
			}
			idx := -1
			for i, q := range fn.Params {
				if q == p {
					idx = i
				}
			}
			foreign := idx >= 0
			for _, s := range sites {
				if idx < 0 || idx >= len(s.Common().Args) || !isLengthFieldLoad(s.Common().Args[idx]) {
					foreign = false
				}
			}
			if !foreign {
				keep = append(keep, f)
			}
		}
		ff.fields = keep
	}
}

// solve: interprocedural fixpoint of the per-field block states.
func (m *matrix) solve() {
	// initial entry states: parameters of functions that have call sites in the set start at bottom, others at top
	hasCaller := map[*ssa.Function]bool{}
	for _, fn := range m.funcs {
		forEachInstr(fn, func(b *ssa.BasicBlock, ins ssa.Instruction) {
			if c, ok := ins.(ssa.CallInstruction); ok {
				if g := calleeOf(c); g != nil && m.facts[g] != nil && g != fn {
					hasCaller[g] = true
				} else if g == nil {
					ts, _ := dispatchTargets(c)
					for _, t := range ts {
						if m.facts[t.fn] != nil && t.fn != fn {
							hasCaller[t.fn] = true
						}
					}
				}
			}
		})
	}
	for _, ff := range m.facts {
		hasParam := false
		for _, f := range ff.fields {
			if _, isParam := f.(*ssa.Parameter); isParam && hasCaller[ff.fn] {
				ff.entry[f] = stBot
			} else {
				ff.entry[f] = stTop
			}
			if _, isParam := f.(*ssa.Parameter); isParam {
				hasParam = true
			}
		}
		if !hasParam && hasCaller[ff.fn] {
			ff.hasCtx, ff.ctx = true, stBot
		}
	}
	for iter := 0; iter < 50; iter++ {
		changed := false
		for _, fn := range m.funcs {
			ff := m.facts[fn]
			for _, f := range ff.fields {
				ff.st[f] = m.flow(ff, f)
			}
		}
		// propagate to callees
		for _, fn := range m.funcs {
			ff := m.facts[fn]
			forEachInstr(fn, func(b *ssa.BasicBlock, ins ssa.Instruction) {
				c, ok := ins.(ssa.CallInstruction)
				if !ok {
					return
				}
				g := calleeOf(c)
				if g == nil {
					m.propagateDispatch(ff, b, c, &changed)
					return
				}
				gf := m.facts[g]
				if gf == nil {
					return
				}
				if gf.hasCtx && g != fn {
					s, sf := m.stateAt(fn, b)
					if sf == nil {
						s = stTop
					}
					if !s.empty() {
						// is the field this state is about the one a closure callee has captured?
						for _, fv := range g.FreeVars {
							if isFieldPtrPtr(fv.Type()) && (sf == nil || capturedField(fn, g, fv) != sf) && !gf.ctxForeign[fv] {
								if gf.ctxForeign == nil {
									gf.ctxForeign = map[*ssa.FreeVar]bool{}
								}
								gf.ctxForeign[fv] = true
								changed = true
							}
						}
						if !s.isTop() {
							gf.ctxSpecific = true
						}
						if nw := gf.ctx.join(s); nw != gf.ctx {
							gf.ctx = nw
							changed = true
						}
					}
				}
				for i, p := range g.Params {
					if !isFieldPtr(p.Type()) || i >= len(c.Common().Args) {
						continue
					}
					arg := c.Common().Args[i]
					s := stTop
					if sts := ff.statesOf(arg); sts != nil {
						s = sts[b.Index]
						if s.empty() {
							continue // unreachable call site
						}
					}
					nw := gf.entry[p].join(s)
					if nw != gf.entry[p] {
						gf.entry[p] = nw
						changed = true
					}
				}
			})
		}
		if !changed {
			break
		}
	}
	// parameters that never received a state (function not called with a tracked field): top
	for _, ff := range m.facts {
		for _, f := range ff.fields {
			if ff.entry[f].empty() {
				ff.entry[f] = stTop
				ff.st[f] = m.flow(ff, f)
			}
		}
	}
}

// propagateDispatch: c (in block b of ff.fn) calls a row of a kind table: each function behind a row is entered with the field
// whose kind selected the row committed to the kinds the function is registered for.
func (m *matrix) propagateDispatch(ff *fnFacts, b *ssa.BasicBlock, c ssa.CallInstruction, changed *bool) {
	fn := ff.fn
	ts, kf := dispatchTargets(c)
	for _, t := range ts {
		gf := m.facts[t.fn]
		if gf == nil || t.fn == fn {
			continue
		}
		if gf.hasCtx {
			s, sf := m.stateAt(fn, b)
			if sf == nil {
				s = stTop
			}
			if sf == nil || sf == ctxField || subjectField(kf) == sf {
				s.K &= t.kinds
			}
			if !s.empty() {
				if !s.isTop() {
					gf.ctxSpecific = true
				}
				if nw := gf.ctx.join(s); nw != gf.ctx {
					gf.ctx = nw
					*changed = true
				}
			}
		}
		for i, p := range t.fn.Params {
			ai := i - t.off
			if !isFieldPtr(p.Type()) || ai < 0 || ai >= len(c.Common().Args) {
				continue
			}
			arg := c.Common().Args[ai]
			s := stTop
			if sts := ff.statesOf(arg); sts != nil {
				s = sts[b.Index]
			}
			if subjectField(arg) == subjectField(kf) {
				s.K &= t.kinds
			}
			if s.empty() {
				continue
			}
			if nw := gf.entry[p].join(s); nw != gf.entry[p] {
				gf.entry[p] = nw
				*changed = true
			}
		}
	}
}

// flow: forward dataflow for one field value in one function.
func (m *matrix) flow(ff *fnFacts, f ssa.Value) []St {
	n := len(ff.fn.Blocks)
	in := make([]St, n)
	if n == 0 {
		return in
	}
	start := ff.entry[f]
	if _, isParam := f.(*ssa.Parameter); !isParam {
		start = stTop
	}
	// a loop variable is defined inside the loop: its state is top at its definition block
	defBlock := -1
	if ins, ok := f.(ssa.Instruction); ok && ins.Block() != nil {
		defBlock = ins.Block().Index
	}
	in[0] = start
	work := []int{0}
	inWork := map[int]bool{0: true}
	for len(work) > 0 {
		bi := work[0]
		work = work[1:]
		inWork[bi] = false
		b := ff.fn.Blocks[bi]
		cur := in[bi]
		if bi == defBlock {
			cur = stTop
			in[bi] = stTop
		}
		if k, ok := uncheckedKind(b, f); ok {
			cur.K &= 1 << k
			in[bi] = cur
		}
		var tf ssa.Value
		var refine func(St, bool) St
		if c := branchCond(b); c != nil {
			tf, refine = fieldTest(c)
		}
		for si, s := range b.Succs {
			out := cur
			if refine != nil && tf != nil && (tf == f || subjectField(tf) == f) {
				out = refine(cur, si == 0)
			}
			if out.empty() {
				continue
			}
			nw := in[s.Index].join(out)
			if s.Index == defBlock {
				nw = stTop
			}
			if nw != in[s.Index] {
				in[s.Index] = nw
				if !inWork[s.Index] {
					work = append(work, s.Index)
					inWork[s.Index] = true
				}
			}
		}
	}
	return in
}

// statesOf: the block states of the field value v stands for (a load of the cell a captured parameter lives in is the parameter).
func (ff *fnFacts) statesOf(v ssa.Value) []St {
	if sts, ok := ff.st[v]; ok {
		return sts
	}
	if cf := subjectField(v); cf != nil && cf != v {
		if sts, ok := ff.st[cf]; ok {
			return sts
		}
	}
	return nil
}

func isFieldPtrPtr(t types.Type) bool {
	p, ok := t.(*types.Pointer)
	return ok && isFieldPtr(p.Elem())
}

// capturedField: the field value of fn that closure g (made in fn) finds in its free variable fv - nil when g is not made in fn or
// the captured variable is assigned more than once.
func capturedField(fn, g *ssa.Function, fv *ssa.FreeVar) ssa.Value {
	if g.Parent() != fn {
		return nil
	}
	idx := -1
	for j, v := range g.FreeVars {
		if v == fv {
			idx = j
		}
	}
	var out ssa.Value
	n := 0
	forEachInstr(fn, func(_ *ssa.BasicBlock, ins ssa.Instruction) {
		mc, ok := ins.(*ssa.MakeClosure)
		if !ok || mc.Fn != ssa.Value(g) || idx < 0 || idx >= len(mc.Bindings) {
			return
		}
		n++
		cell, ok := mc.Bindings[idx].(*ssa.Alloc)
		if !ok || cell.Referrers() == nil {
			return
		}
		var only ssa.Value
		stores := 0
		for _, ref := range *cell.Referrers() {
			if st, ok := ref.(*ssa.Store); ok && st.Addr == ssa.Value(cell) {
				stores++
				only = st.Val
			}
		}
		if stores == 1 {
			out = subjectField(only)
		}
	})
	if n != 1 {
		return nil
	}
	return out
}

// stateAt: the most specific field state that applies at block b of fn (parameter preferred), and the field it belongs to.
func (m *matrix) stateAt(fn *ssa.Function, b *ssa.BasicBlock) (St, ssa.Value) {
	ff := m.facts[fn]
	if ff == nil {
		return stTop, nil
	}
	best := stTop
	var bf ssa.Value
	for _, f := range ff.fields {
		sts := ff.st[f]
		if sts == nil {
			continue
		}
		s := sts[b.Index]
		// a loop variable only applies inside its loop: blocks dominated by its definition
		if ins, ok := f.(ssa.Instruction); ok {
			if !ins.Block().Dominates(b) {
				continue
			}
		}
		// a closure's captured field is the field its call sites' states are about: what the closure tests refines that state
		if fv, ok := f.(*ssa.FreeVar); ok && ff.hasCtx && !ff.ctx.empty() && !ff.ctxForeign[fv] {
			s = meetSt(s, ff.ctx)
		}
		if bf == nil || popcount(s) < popcount(best) {
			best, bf = s, f
		}
	}
	if ff.hasCtx && !ff.ctx.empty() && (bf == nil || popcount(ff.ctx) < popcount(best)) {
		best, bf = ff.ctx, ctxField
	}
	return best, bf
}

func popcount(s St) int {
	n := 0
	for _, x := range []uint8{s.K, s.R, s.L} {
		for ; x != 0; x &= x - 1 {
			n++
		}
	}
	return n
}

// edgeExcluded: the edge pred -> to is taken only on an outcome of a test of the function's subject field that unit u excludes.
func (m *matrix) edgeExcluded(fn *ssa.Function, pred, to *ssa.BasicBlock, u *unit) bool {
	if len(pred.Succs) != 2 || pred.Succs[0] == pred.Succs[1] {
		return false
	}
	cond := branchCond(pred)
	if cond == nil {
		return false
	}
	tf, refine := fieldTest(cond)
	if tf == nil || refine == nil {
		return false
	}
	s, f := m.stateAt(fn, pred)
	if f == nil || f == ctxField {
		return false
	}
	same := stripIdentity(tf) == stripIdentity(f)
	if !same {
		// the field lives in a cell (captured by a closure): two loads of one once-assigned variable
		if a, b := cellOf(tf), cellOf(f); a != nil && a == b {
			same = true
		}
		if p, ok := stripIdentity(f).(*ssa.Parameter); ok && !same {
			if al := cellOf(tf); al != nil {
				if st, esc := cellStores(al); !esc && len(st) == 1 && stripIdentity(st[0].Val) == ssa.Value(p) {
					same = true
				}
			}
		}
	}
	if !same {
		return false
	}
	idx := 0
	if pred.Succs[1] == to {
		idx = 1
	}
	rs := refine(s, idx == 0)
	return rs.empty() || !rs.admits(*u)
}

// feasible: can block b of fn execute for a field of unit u (when the function's field is the subject field)?
func (m *matrix) feasible(fn *ssa.Function, b *ssa.BasicBlock, u *unit) bool {
	if u == nil {
		return true
	}
	s, f := m.stateAt(fn, b)
	if f == nil {
		return true
	}
	if s.empty() {
		return false
	}
	return s.admits(*u)
}

// calleeOf: the function a call runs - statically, or through a closure value whose construction is visible (a local closure, or
// the result of a repo function that always returns a closure of the same function).
func calleeOf(c ssa.CallInstruction) *ssa.Function {
	if f := c.Common().StaticCallee(); f != nil {
		return f
	}
	if c.Common().IsInvoke() {
		return nil
	}
	return closureTarget(c.Common().Value, 0)
}

// closureTargets: every function a function-typed value may be: closure literals, function constants, what helper calls return,
// what is stored into the variable / record member it is loaded from, what the call sites pass for a parameter. Unknown origins
// contribute nothing (the result is a may-set that can be incomplete only for values that escape the repo).
func closureTargets(v ssa.Value, depth int, seen map[ssa.Value]bool) []*ssa.Function {
	if v == nil || depth > 6 || seen[v] {
		return nil
	}
	seen[v] = true
	var out []*ssa.Function
	add := func(fs []*ssa.Function) {
		for _, f := range fs {
			dup := false
			for _, g := range out {
				if g == f {
					dup = true
				}
			}
			if !dup && f != nil {
				out = append(out, f)
			}
		}
	}
	cellStores := func(al *ssa.Alloc) {
		if al.Referrers() == nil {
			return
		}
		for _, ref := range *al.Referrers() {
			if st, ok := ref.(*ssa.Store); ok && st.Addr == ssa.Value(al) {
				add(closureTargets(st.Val, depth+1, seen))
			}
		}
	}
	switch x := stripIdentity(v).(type) {
	case *ssa.MakeClosure:
		if f, ok := x.Fn.(*ssa.Function); ok {
			add([]*ssa.Function{f})
		}
	case *ssa.Function:
		add([]*ssa.Function{x})
	case *ssa.Phi:
		for _, e := range x.Edges {
			add(closureTargets(e, depth+1, seen))
		}
	case *ssa.Call:
		if g := x.Call.StaticCallee(); g != nil && g.Blocks != nil {
			for _, b := range g.Blocks {
				if ret, ok := b.Instrs[len(b.Instrs)-1].(*ssa.Return); ok && len(ret.Results) == 1 {
					add(closureTargets(ret.Results[0], depth+1, seen))
				}
			}
		}
	case *ssa.Parameter:
		if theWorld == nil {
			return nil
		}
		fn := x.Parent()
		for i, p := range fn.Params {
			if p != x {
				continue
			}
			for _, g := range theWorld.allFuncsInRepo() {
				forEachInstr(g, func(_ *ssa.BasicBlock, ins ssa.Instruction) {
					if c, ok := ins.(ssa.CallInstruction); ok && c.Common().StaticCallee() == fn && i < len(c.Common().Args) {
						add(closureTargets(c.Common().Args[i], depth+1, seen))
					}
				})
			}
			// fn is itself called through a function value (a member of a table of handlers)
			for _, c := range indirectSitesOf(fn) {
				if i < len(c.Common().Args) {
					add(closureTargets(c.Common().Args[i], depth+1, seen))
				}
			}
		}
	case *ssa.UnOp:
		if x.Op != token.MUL {
			return nil
		}
		switch c := x.X.(type) {
		case *ssa.Alloc:
			cellStores(c)
		case *ssa.Global:
			// a package-level function variable (`var leftOf side = (*T).Method`): what the repo stores into it
			vals, _ := globalStoredValues(c)
			for _, sv := range vals {
				add(closureTargets(sv, depth+1, seen))
			}
		case *ssa.FreeVar:
			g := c.Parent()
			if g == nil || g.Parent() == nil {
				return nil
			}
			for j, fv := range g.FreeVars {
				if fv != c {
					continue
				}
				forEachInstr(g.Parent(), func(_ *ssa.BasicBlock, ins ssa.Instruction) {
					if mc, ok := ins.(*ssa.MakeClosure); ok && mc.Fn == ssa.Value(g) && j < len(mc.Bindings) {
						if al, ok := mc.Bindings[j].(*ssa.Alloc); ok {
							cellStores(al)
						}
					}
				})
			}
		case *ssa.FieldAddr:
			if theWorld == nil {
				return nil
			}
			tn, fname, _, _ := fieldOf(c)
			for g := range theWorld.allFuncs {
				if p := pkgOfFunc(g); g.Blocks == nil || (p != theWorld.Parser && p != theWorld.Model && p != theWorld.Cmd) {
					continue
				}
				forEachInstr(g, func(_ *ssa.BasicBlock, ins ssa.Instruction) {
					st, ok := ins.(*ssa.Store)
					if !ok {
						return
					}
					if fa, ok := st.Addr.(*ssa.FieldAddr); ok {
						if tn2, f2, _, _ := fieldOf(fa); tn2 == tn && f2 == fname {
							add(closureTargets(st.Val, depth+1, seen))
						}
					}
				})
			}
		case *ssa.IndexAddr:
			// an element of a table of functions / of records: the members stored into elements of that table type
		}
	case *ssa.FreeVar:
		g := x.Parent()
		if g == nil || g.Parent() == nil {
			return nil
		}
		for j, fv := range g.FreeVars {
			if fv != x {
				continue
			}
			forEachInstr(g.Parent(), func(_ *ssa.BasicBlock, ins ssa.Instruction) {
				if mc, ok := ins.(*ssa.MakeClosure); ok && mc.Fn == ssa.Value(g) && j < len(mc.Bindings) {
					add(closureTargets(mc.Bindings[j], depth+1, seen))
				}
			})
		}
	case *ssa.Field:
		// a member of a record value (an element of a table of handlers copied into a loop variable): every function stored into
		// that member of that record type, anywhere in the repo (package initialisers included)
		if theWorld == nil {
			return nil
		}
		tn, fname, _, _ := fieldOf(x)
		for g := range theWorld.allFuncs {
			if p := pkgOfFunc(g); g.Blocks == nil || (p != theWorld.Parser && p != theWorld.Model && p != theWorld.Cmd) {
				continue
			}
			forEachInstr(g, func(_ *ssa.BasicBlock, ins ssa.Instruction) {
				st, ok := ins.(*ssa.Store)
				if !ok {
					return
				}
				if fa, ok := st.Addr.(*ssa.FieldAddr); ok {
					if tn2, f2, _, _ := fieldOf(fa); tn2 == tn && f2 == fname {
						add(closureTargets(st.Val, depth+1, seen))
					}
				}
			})
		}
	}
	return out
}

// calleesOfAll: the functions a call may enter: the static callee, or every target of the called function value.
func calleesOfAll(c ssa.CallInstruction) []*ssa.Function {
	if f := c.Common().StaticCallee(); f != nil {
		return []*ssa.Function{unwrapBound(f)}
	}
	if c.Common().IsInvoke() {
		return nil
	}
	out := closureTargets(c.Common().Value, 0, map[ssa.Value]bool{})
	for i, f := range out {
		out[i] = unwrapBound(f)
	}
	return out
}

// unwrapBound: the method behind a method value (x.m used as a function): go/ssa represents it by a synthetic wrapper that has the
// receiver as a captured variable and only forwards the call.
func unwrapBound(f *ssa.Function) *ssa.Function {
	if f == nil || !strings.HasPrefix(f.Synthetic, "bound method wrapper") {
		return f
	}
	var tgt *ssa.Function
	forEachInstr(f, func(_ *ssa.BasicBlock, ins ssa.Instruction) {
		if c, ok := ins.(ssa.CallInstruction); ok {
			if g := c.Common().StaticCallee(); g != nil {
				tgt = g
			}
		}
	})
	if tgt != nil {
		return tgt
	}
	return f
}

func closureTarget(v ssa.Value, depth int) *ssa.Function {
	if depth > 5 {
		return nil
	}
	switch x := stripIdentity(v).(type) {
	case *ssa.MakeClosure:
		f, _ := x.Fn.(*ssa.Function)
		return f
	case *ssa.Function:
		return x
	case *ssa.Parameter:
		// a function-typed parameter: the one function every call site in the program text passes
		if _, ok := x.Type().Underlying().(*types.Signature); !ok || theWorld == nil {
			return nil
		}
		fn := x.Parent()
		idx := -1
		for i, p := range fn.Params {
			if p == x {
				idx = i
			}
		}
		var tgt *ssa.Function
		sites := 0
		for _, g := range theWorld.allFuncsInRepo() {
			bad := false
			forEachInstr(g, func(_ *ssa.BasicBlock, ins ssa.Instruction) {
				c, ok := ins.(ssa.CallInstruction)
				if !ok || c.Common().StaticCallee() != fn || idx < 0 || idx >= len(c.Common().Args) {
					return
				}
				sites++
				t := closureTarget(c.Common().Args[idx], depth+1)
				if t == nil || (tgt != nil && tgt != t) {
					bad = true
				}
				tgt = t
			})
			if bad {
				return nil
			}
		}
		if sites == 0 {
			// fn is itself called through a function value (a member of a table of handlers)
			for _, c := range indirectSitesOf(fn) {
				if idx < 0 || idx >= len(c.Common().Args) {
					return nil
				}
				sites++
				t := closureTarget(c.Common().Args[idx], depth+1)
				if t == nil || (tgt != nil && tgt != t) {
					return nil
				}
				tgt = t
			}
		}
		if sites == 0 {
			return nil
		}
		return tgt
	case *ssa.Call:
		g := x.Call.StaticCallee()
		if g == nil || g.Blocks == nil {
			return nil
		}
		var tgt *ssa.Function
		for _, b := range g.Blocks {
			ret, ok := b.Instrs[len(b.Instrs)-1].(*ssa.Return)
			if !ok || len(ret.Results) != 1 {
				continue
			}
			t := closureTarget(ret.Results[0], depth+1)
			if t == nil || (tgt != nil && tgt != t) {
				return nil
			}
			tgt = t
		}
		return tgt
	case *ssa.Phi:
		var tgt *ssa.Function
		for _, e := range x.Edges {
			t := closureTarget(e, depth+1)
			if t == nil || (tgt != nil && tgt != t) {
				return nil
			}
			tgt = t
		}
		return tgt
	case *ssa.UnOp:
		// a function variable: `var visit func(..); visit = func(..) {.. visit(..) ..}` - the cell's stored values
		if x.Op != token.MUL {
			return nil
		}
		var cell *ssa.Alloc
		switch c := x.X.(type) {
		case *ssa.FieldAddr:
			// a function stored in a field of a record: the one function every store to that field (anywhere in the repo) puts there
			if _, ok := x.Type().Underlying().(*types.Signature); !ok || theWorld == nil {
				return nil
			}
			tn, fname, _, _ := fieldOf(c)
			var tgt *ssa.Function
			stores := 0
			for _, g := range theWorld.allFuncsInRepo() {
				bad := false
				forEachInstr(g, func(_ *ssa.BasicBlock, ins ssa.Instruction) {
					st, ok := ins.(*ssa.Store)
					if !ok {
						return
					}
					fa, ok := st.Addr.(*ssa.FieldAddr)
					if !ok {
						return
					}
					if tn2, f2, _, _ := fieldOf(fa); tn2 != tn || f2 != fname {
						return
					}
					if k, ok := st.Val.(*ssa.Const); ok && k.IsNil() {
						return
					}
					stores++
					t := closureTarget(st.Val, depth+1)
					if t == nil || (tgt != nil && tgt != t) {
						bad = true
					}
					tgt = t
				})
				if bad {
					return nil
				}
			}
			if stores == 0 {
				return nil
			}
			return tgt
		case *ssa.Alloc:
			cell = c
		case *ssa.FreeVar:
			g := c.Parent()
			if g == nil || g.Parent() == nil {
				return nil
			}
			idx := -1
			for j, fv := range g.FreeVars {
				if fv == c {
					idx = j
				}
			}
			forEachInstr(g.Parent(), func(_ *ssa.BasicBlock, ins ssa.Instruction) {
				if mc, ok := ins.(*ssa.MakeClosure); ok && mc.Fn == ssa.Value(g) && idx >= 0 && idx < len(mc.Bindings) {
					if al, ok := mc.Bindings[idx].(*ssa.Alloc); ok {
						cell = al
					}
				}
			})
		}
		if cell == nil || cell.Referrers() == nil {
			return nil
		}
		var tgt *ssa.Function
		for _, ref := range *cell.Referrers() {
			st, ok := ref.(*ssa.Store)
			if !ok || st.Addr != ssa.Value(cell) {
				continue
			}
			if k, ok := st.Val.(*ssa.Const); ok && k.IsNil() {
				continue
			}
			t := closureTarget(st.Val, depth+1)
			if t == nil || (tgt != nil && tgt != t) {
				return nil
			}
			tgt = t
		}
		return tgt
	}
	return nil
}

// ---- dependence ----

type depCtx struct {
	m          *matrix
	fn         *ssa.Function
	u          *unit
	memo       map[ssa.Value]src
	busy       map[ssa.Value]bool
	lfBusy     map[*ssa.Parameter]bool
	bindParams bool // parameters carry what the repo call sites pass in (site evaluation only, never inside helper summaries)
	noOpaque   bool // summarise calls to emitter roots like any helper (used by the sibling-arm rules)
}

type paramKey struct {
	p  *ssa.Parameter
	fv *ssa.FreeVar
	bp bool
	u  unit
	s  bool
}

func (m *matrix) ctx(fn *ssa.Function, u *unit) *depCtx {
	return &depCtx{m: m, fn: fn, u: u, memo: map[ssa.Value]src{}, busy: map[ssa.Value]bool{}}
}

func (c *depCtx) deps(v ssa.Value) src {
	if v == nil {
		return 0
	}
	if d, ok := c.memo[v]; ok {
		return d
	}
	if c.busy[v] {
		return 0
	}
	c.busy[v] = true
	d := c.compute(v)
	c.busy[v] = false
	c.memo[v] = d
	return d
}

func (c *depCtx) blockOK(ins ssa.Instruction) bool {
	if ins.Block() == nil {
		return true
	}
	return c.m.feasible(c.fn, ins.Block(), c.u)
}

func (c *depCtx) compute(v ssa.Value) src {
	switch x := v.(type) {
	case *ssa.Const, *ssa.Global, *ssa.Function, *ssa.Builtin:
		return 0
	case *ssa.Parameter:
		if !c.bindParams {
			return 0
		}
		return c.m.paramDeps(x, c.u)
	case *ssa.FreeVar:
		// a captured variable carries what the enclosing function has stored into it (the variable is shared: one binding)
		return c.freeVarDeps(x)
	case *ssa.Alloc:
		// object taint: everything stored into the object (in feasible blocks), builder writes included
		var d src
		if x.Referrers() == nil {
			return 0
		}
		var visit func(addr ssa.Value, depth int)
		visit = func(addr ssa.Value, depth int) {
			if depth > 4 || addr.Referrers() == nil {
				return
			}
			for _, ref := range *addr.Referrers() {
				switch y := ref.(type) {
				case *ssa.Store:
					if y.Addr == addr && c.blockOK(y) {
						d |= c.deps(y.Val)
						if y.Block() != x.Block() {
							d |= c.ctrlDeps(y.Block()) // a member set under a condition carries the condition
						}
					}
				case *ssa.FieldAddr:
					visit(y, depth+1)
				case *ssa.IndexAddr:
					visit(y, depth+1)
				case *ssa.MakeInterface:
					// fmt.Fprintf(&b, ...): the builder travels as an io.Writer
					if y.Referrers() != nil {
						for _, r2 := range *y.Referrers() {
							if call, ok := r2.(ssa.CallInstruction); ok {
								if f := call.Common().StaticCallee(); f != nil && fprintFuncs[f.String()] && len(call.Common().Args) > 1 && call.Common().Args[0] == ssa.Value(y) && c.blockOK(call) {
									for _, a := range call.Common().Args[1:] {
										d |= c.deps(a)
									}
									d |= c.ctrlDeps(call.Block())
								}
							}
						}
					}
				case ssa.CallInstruction:
					if f := y.Common().StaticCallee(); f != nil && builderWriters[f.String()] && len(y.Common().Args) > 1 && y.Common().Args[0] == addr && c.blockOK(y) {
						d |= c.deps(y.Common().Args[1])
						d |= c.ctrlDeps(y.Block())
					}
				}
			}
		}
		visit(x, 0)
		return d
	case *ssa.Phi:
		var d src
		for i, e := range x.Edges {
			pred := x.Block().Preds[i]
			if !c.m.feasible(c.fn, pred, c.u) {
				continue
			}
			// the edge itself: a test of the subject field that ends the predecessor and sends control here on the outcome the
			// cell excludes (`prefix := stringPrefix; if f.IsRepeat { prefix = listPrefix }` - in a list cell the first value never
			// arrives)
			if c.u != nil && c.m.edgeExcluded(c.fn, pred, x.Block(), c.u) {
				continue
			}
			d |= c.deps(e)
		}
		// a phi also depends on the conditions that select among its edges - except at loop headers,
		// where the "selection" is merely how often the loop has run
		loopHeader := false
		for _, p := range x.Block().Preds {
			if x.Block().Dominates(p) {
				loopHeader = true
			}
		}
		if !loopHeader {
			d |= c.phiSelectors(x.Block())
		}
		return d
	case *ssa.UnOp:
		if x.Op == token.MUL {
			d := src(0)
			if fa, ok := x.X.(*ssa.FieldAddr); ok {
				tn, f, _, _ := fieldOf(fa)
				d |= fieldSource(tn, f)
				if isLocalRecord(fa.X.Type()) {
					// a record of the generator's own (carried state): one member at a time
					if rd, ok := c.recordFieldDeps(fa.X, fa.Field, 0); ok {
						return d | rd
					}
				}
				if _, isAlloc := addrRoot(fa.X).(*ssa.Alloc); isAlloc {
					return d | c.deps(addrRoot(fa.X))
				}
				return d | c.deps(fa.X)
			}
			if _, isAlloc := addrRoot(x.X).(*ssa.Alloc); isAlloc {
				return c.deps(addrRoot(x.X))
			}
			return d | c.deps(x.X)
		}
		return c.deps(x.X)
	case *ssa.Field:
		tn, f, _, _ := fieldOf(x)
		if isLocalRecord(x.X.Type()) {
			if d, ok := c.recordFieldDeps(x.X, x.Field, 0); ok {
				return fieldSource(tn, f) | d
			}
		}
		return fieldSource(tn, f) | c.deps(x.X)
	case *ssa.FieldAddr:
		return c.deps(x.X)
	case *ssa.IndexAddr:
		return c.deps(x.X) | c.deps(x.Index)
	case *ssa.Index:
		return c.deps(x.X) | c.deps(x.Index)
	case *ssa.Lookup:
		d := c.deps(x.Index)
		if g, ok := valueRoot(x.X).(*ssa.Global); ok && strings.HasSuffix(g.Name(), "BasicTypeMap") {
			d |= sTBL
		} else {
			d |= c.deps(x.X)
		}
		return d
	case *ssa.Extract:
		return c.deps(x.Tuple)
	case *ssa.BinOp:
		return c.deps(x.X) | c.deps(x.Y)
	case *ssa.Slice:
		return c.deps(x.X)
	case *ssa.MakeInterface:
		return c.deps(x.X)
	case *ssa.ChangeInterface:
		return c.deps(x.X)
	case *ssa.ChangeType:
		return c.deps(x.X)
	case *ssa.Convert:
		return c.deps(x.X)
	case *ssa.TypeAssert:
		return c.deps(x.X)
	case *ssa.MakeMap:
		var d src
		if x.Referrers() != nil {
			for _, ref := range *x.Referrers() {
				if mu, ok := ref.(*ssa.MapUpdate); ok && c.blockOK(mu) {
					d |= c.deps(mu.Value) | c.deps(mu.Key)
					if mu.Block() != x.Block() {
						d |= c.ctrlDeps(mu.Block()) // an entry set under a condition carries the condition
					}
				}
			}
		}
		return d
	case *ssa.MakeClosure, *ssa.MakeSlice, *ssa.MakeChan:
		return 0
	case *ssa.Next:
		return c.deps(x.Iter)
	case *ssa.Range:
		return c.deps(x.X)
	case *ssa.Call:
		return c.callDeps(x)
	}
	return 0
}

// freeVarDeps: what the enclosing function put into the variable the closure captured, judged in the enclosing function for the
// same cell of the matrix.
func (c *depCtx) freeVarDeps(fv *ssa.FreeVar) src {
	g := fv.Parent()
	if g == nil || g.Parent() == nil || isFieldPtrPtr(fv.Type()) {
		return 0
	}
	switch modelTypeName(fv.Type()) {
	case "Packet", "BinaryModel", "Field", "Configuration":
		return 0 // containers: what is read out of them is a source of its own
	}
	if n := namedOf(fv.Type()); n != nil && strings.HasSuffix(n.Obj().Name(), "Generator") {
		return 0
	}
	if isBuilderPtr(fv.Type()) {
		return 0 // the text written so far is not an input of the text written next
	}
	parent := g.Parent()
	idx := -1
	for j, v := range g.FreeVars {
		if v == fv {
			idx = j
		}
	}
	key := paramKey{fv: fv, bp: c.bindParams}
	if c.u != nil {
		key.u, key.s = *c.u, true
	}
	if d, ok := c.m.pdeps[key]; ok {
		return d
	}
	if c.m.pbusy[key] {
		return 0
	}
	c.m.pbusy[key] = true
	defer delete(c.m.pbusy, key)
	pc := c.m.ctx(parent, c.u)
	pc.bindParams = c.bindParams
	var d src
	forEachInstr(parent, func(_ *ssa.BasicBlock, ins ssa.Instruction) {
		if mc, ok := ins.(*ssa.MakeClosure); ok && mc.Fn == ssa.Value(g) && idx >= 0 && idx < len(mc.Bindings) {
			d |= pc.deps(mc.Bindings[idx])
		}
	})
	d &^= sNAME
	c.m.pdeps[key] = d
	return d
}

func (c *depCtx) callDeps(call *ssa.Call) src {
	cc := call.Call
	var d src
	if cc.IsInvoke() {
		d |= c.deps(cc.Value)
		for _, a := range cc.Args {
			d |= c.deps(a)
		}
		if cc.Method.Name() == "GetType" && isModelType(cc.Value.Type()) {
			d |= sTY
			if c.fromLengthField(cc.Value) {
				d |= sLFT
			}
		}
		return d
	}
	f := calleeOf(call)
	if f == nil {
		for _, a := range cc.Args {
			d |= c.deps(a)
		}
		return d
	}
	name := f.String()
	// model accessors
	if f.Pkg == c.m.w.Model {
		switch f.Name() {
		case "GetType":
			d |= sTY
			for _, a := range cc.Args {
				d |= c.deps(a)
				if c.fromLengthField(a) {
					d |= sLFT
				}
			}
			return d
		case "IsDefault":
			d |= sISDEF | sPC | sPL
			for _, a := range cc.Args {
				d |= c.deps(a)
			}
			return d
		}
	}
	if c.m.anchors[f] && !c.noOpaque {
		// delegation to another emitter: what it reads itself, and what it makes of the arguments it is handed,
		// is judged at its own sites (parameters are bound to their call-site arguments there)
		return d
	}
	for i, a := range cc.Args {
		// a carried record handed to a repo helper counts through the members the helper reads
		if isLocalRecord(a.Type()) && f.Blocks != nil && i < len(f.Params) && c.m.w.isSubjectFunc(f) {
			if idxs, all := fieldsReadOfParam(f, f.Params[i]); !all {
				okAll := true
				var rd src
				for _, fi := range idxs {
					r, ok := c.recordFieldDeps(a, fi, 0)
					if !ok {
						okAll = false
						break
					}
					rd |= r
				}
				if okAll {
					d |= rd
					continue
				}
			}
		}
		d |= c.deps(a)
	}
	if c.m.facts[f] != nil || (c.m.w.isSubjectFunc(f) && f.Blocks != nil) {
		// repo helper: everything it reads on feasible paths
		spec := false
		if c.u != nil {
			// specialise when the callee's field parameter receives the caller's subject field
			for i, p := range f.Params {
				if isFieldPtr(p.Type()) && i < len(cc.Args) {
					if _, sf := c.m.stateAt(c.fn, call.Block()); sf != nil && stripIdentity(cc.Args[i]) == sf {
						spec = true
					}
				}
			}
			if gf := c.m.facts[f]; gf != nil && gf.hasCtx && !gf.ctx.isTop() {
				spec = true
			}
		}
		d |= c.m.summary(f, c.u, spec, c.noOpaque)
	}
	_ = name
	return d
}

// paramDeps: what a parameter carries into the function - the join, over the repo call sites, of the argument's dependence in the caller
// (field/packet/generator parameters carry nothing by themselves).
func (m *matrix) paramDeps(p *ssa.Parameter, u *unit) src {
	fn := p.Parent()
	if fn == nil || isFieldPtr(p.Type()) {
		return 0
	}
	switch modelTypeName(p.Type()) {
	case "Packet", "BinaryModel", "Field", "Configuration":
		return 0 // containers: what is read out of them is a source of its own
	}
	if n := namedOf(p.Type()); n != nil && strings.HasSuffix(n.Obj().Name(), "Generator") {
		return 0
	}
	key := paramKey{p: p}
	if u != nil {
		key.u, key.s = *u, true
	}
	if d, ok := m.pdeps[key]; ok {
		return d
	}
	if m.pbusy[key] {
		return 0
	}
	m.pbusy[key] = true
	idx := -1
	for i, q := range fn.Params {
		if q == p {
			idx = i
		}
	}
	var d src
	for _, site := range m.callers[fn] {
		args := site.Common().Args
		if idx < 0 || idx >= len(args) {
			continue
		}
		caller := site.Parent()
		if m.facts[caller] == nil {
			continue
		}
		if u != nil && !m.feasible(caller, site.Block(), u) {
			continue
		}
		cc := m.ctx(caller, u)
		cc.bindParams = true
		d |= cc.deps(args[idx])
		d |= cc.ctrlDepsSelective(site.Block(), args[idx])
	}
	delete(m.pbusy, key)
	// field-specific sources only travel with the field: a callee that is not handed the field under emission keeps the
	// configuration-derived part only (its caller's "current field" is a different one, e.g. the enclosing object field)
	hasField := false
	for _, q := range fn.Params {
		if isFieldPtr(q.Type()) {
			hasField = true
		}
	}
	if ff := m.facts[fn]; ff != nil && ff.hasCtx && !ff.ctx.empty() && !ff.ctx.isTop() {
		hasField = true
	}
	if !hasField {
		d &= sLE | sSP | sAP | sCP
	}
	m.pdeps[key] = d &^ sNAME
	return m.pdeps[key]
}

// ctrlDepsSelective: control dependence is not carried through arguments (the callee's own sites get the caller's control
// context only through their data); kept as a hook, returns nothing.
func (c *depCtx) ctrlDepsSelective(b *ssa.BasicBlock, v ssa.Value) src { return 0 }

// fromLengthField: v derives from Packet.LengthField or from a field's LenAttr (the length field's own attribute).
func (c *depCtx) fromLengthField(v ssa.Value) bool {
	for i := 0; i < 8; i++ {
		switch x := v.(type) {
		case *ssa.UnOp:
			if x.Op == token.MUL {
				if fa, ok := x.X.(*ssa.FieldAddr); ok {
					tn, f, _, _ := fieldOf(fa)
					if tn == "Packet" && f == "LengthField" || tn == "Field" && f == "LenAttr" {
						return true
					}
				}
				v = x.X
				continue
			}
			return false
		case *ssa.Extract:
			v = x.Tuple
		case *ssa.TypeAssert:
			v = x.X
		case *ssa.MakeInterface:
			v = x.X
		case *ssa.ChangeInterface:
			v = x.X
		case *ssa.FieldAddr:
			v = x.X
		case *ssa.Phi:
			for _, e := range x.Edges {
				if c.fromLengthField(e) {
					return true
				}
			}
			return false
		case *ssa.Parameter:
			// handed in: the length field when every call site passes it
			fn := x.Parent()
			sites := c.m.callers[fn]
			if len(sites) == 0 || c.lfBusy[x] {
				return false
			}
			if c.lfBusy == nil {
				c.lfBusy = map[*ssa.Parameter]bool{}
			}
			c.lfBusy[x] = true
			defer delete(c.lfBusy, x)
			for idx, q := range fn.Params {
				if q != x {
					continue
				}
				for _, s := range sites {
					if idx >= len(s.Common().Args) {
						return false
					}
					cc := c.m.ctx(s.Parent(), nil)
					cc.lfBusy = c.lfBusy
					if !cc.fromLengthField(s.Common().Args[idx]) {
						return false
					}
				}
				return true
			}
			return false
		default:
			return false
		}
	}
	return false
}

// ctrlDeps: sources of the branch conditions the block is (transitively) control dependent on.
func (c *depCtx) ctrlDeps(b *ssa.BasicBlock) src {
	ff := c.m.facts[c.fn]
	var cd *cdInfo
	if ff != nil {
		cd = ff.cd
	} else {
		cd = computeCD(c.fn)
	}
	var d src
	for _, dep := range cd.allCtrl(b) {
		if !c.m.feasible(c.fn, dep.Branch, c.u) {
			continue
		}
		if cond := branchCond(dep.Branch); cond != nil {
			d |= c.deps(cond)
		}
	}
	return d
}

// phiSelectors: sources of the branch conditions that decide through which predecessor the join block is entered
// (conditions that also decide whether the join executes at all are not selectors).
func (c *depCtx) phiSelectors(j *ssa.BasicBlock) src {
	ff := c.m.facts[c.fn]
	var cd *cdInfo
	if ff != nil {
		cd = ff.cd
	} else {
		cd = computeCD(c.fn)
	}
	own := map[*ssa.BasicBlock]bool{}
	for _, d := range cd.allCtrl(j) {
		own[d.Branch] = true
	}
	sel := map[*ssa.BasicBlock]bool{}
	for _, p := range j.Preds {
		if !c.m.feasible(c.fn, p, c.u) {
			continue
		}
		if branchCond(p) != nil && !own[p] {
			sel[p] = true
		}
		for _, d := range cd.allCtrl(p) {
			if !own[d.Branch] {
				sel[d.Branch] = true
			}
		}
	}
	var d src
	for b := range sel {
		if cond := branchCond(b); cond != nil && c.m.feasible(c.fn, b, c.u) {
			d |= c.deps(cond)
		}
	}
	return d
}

func (c *depCtx) ctrlDepsOfPreds(b *ssa.BasicBlock) src {
	var d src
	for _, p := range b.Preds {
		if c.m.feasible(c.fn, p, c.u) {
			d |= c.ctrlDeps(p)
			if cond := branchCond(p); cond != nil {
				d |= c.deps(cond)
			}
		}
	}
	return d
}

// summary: every source a helper reads (transitively) in blocks feasible for u.
func (m *matrix) summary(f *ssa.Function, u *unit, spec bool, full bool) src {
	var key summKey
	key.fn = f
	key.full = full
	if u != nil && spec {
		key.u, key.spec = *u, true
	}
	if d, ok := m.summ[key]; ok {
		return d
	}
	if m.inprog[key] {
		return 0
	}
	m.inprog[key] = true
	var uu *unit
	if spec {
		uu = u
	}
	c := m.ctx(f, uu)
	c.noOpaque = full
	var d src
	// a helper that only computes a value: what the value is made of and what selects it (not everything the helper happens to read)
	if f.Signature.Results().Len() > 0 && !m.emitsIntoOuterBuilder(f, 0) && !m.writesNonLocal(f) {
		for _, b := range f.Blocks {
			ret, ok := b.Instrs[len(b.Instrs)-1].(*ssa.Return)
			if !ok || !m.feasible(f, b, uu) {
				continue
			}
			for _, rv := range ret.Results {
				d |= c.deps(rv)
			}
			d |= c.ctrlDeps(b)
		}
		delete(m.inprog, key)
		m.summ[key] = d &^ sNAME
		return m.summ[key]
	}
	forEachInstr(f, func(b *ssa.BasicBlock, ins ssa.Instruction) {
		if !m.feasible(f, b, uu) {
			return
		}
		switch x := ins.(type) {
		case *ssa.UnOp:
			if x.Op == token.MUL {
				if fa, ok := x.X.(*ssa.FieldAddr); ok {
					tn, fn2, _, _ := fieldOf(fa)
					d |= fieldSource(tn, fn2)
				}
			}
		case *ssa.Field:
			tn, fn2, _, _ := fieldOf(x)
			d |= fieldSource(tn, fn2)
		case *ssa.Lookup:
			if g, ok := valueRoot(x.X).(*ssa.Global); ok && strings.HasSuffix(g.Name(), "BasicTypeMap") {
				d |= sTBL
			}
		case *ssa.Call:
			d |= c.callDeps(x)
		}
	})
	delete(m.inprog, key)
	m.summ[key] = d &^ sNAME
	return m.summ[key]
}

// ---- emission sites ----

type site struct {
	fn    *ssa.Function
	instr ssa.Instruction
	val   ssa.Value // emitted string value
}

func isStringish(t types.Type) bool {
	if b, ok := t.Underlying().(*types.Basic); ok && b.Info()&types.IsString != 0 {
		return true
	}
	if i, ok := t.Underlying().(*types.Interface); ok && i.NumMethods() == 0 {
		return true
	}
	return false
}

func (m *matrix) sitesOf(fn *ssa.Function) []site { return m.sitesOfX(fn, false) }

// sitesOfX: emission sites; withConst also lists constant pieces of assembled strings (needed when the text itself is judged).
func (m *matrix) sitesOfX(fn *ssa.Function, withConst bool) []site {
	var out []site
	// an accumulator is a string whose left spine of concatenations ends in a phi or a local variable (text emitted so far)
	var isAccum func(v ssa.Value, d int) bool
	isAccum = func(v ssa.Value, d int) bool {
		if d > 32 {
			return false
		}
		switch x := v.(type) {
		case *ssa.Phi:
			// text so far: some incoming value is itself a concatenation (a choice among constants is a selector, not an accumulator)
			for _, e := range x.Edges {
				if bo, ok := e.(*ssa.BinOp); ok && bo.Op == token.ADD {
					return true
				}
				if ph, ok := e.(*ssa.Phi); ok && ph != x && d < 8 && isAccum(ph, d+1) {
					return true
				}
			}
			return false
		case *ssa.BinOp:
			return x.Op == token.ADD && isAccum(x.X, d+1)
		case *ssa.UnOp:
			_, ok := x.X.(*ssa.Alloc)
			return ok && x.Op == token.MUL
		}
		return false
	}
	forEachInstr(fn, func(b *ssa.BasicBlock, ins ssa.Instruction) {
		switch x := ins.(type) {
		case ssa.CallInstruction:
			if bi, ok := x.Common().Value.(*ssa.Builtin); ok && bi.Name() == "append" && len(x.Common().Args) == 2 {
				// pieces appended to a []string
				if sl, ok := x.Common().Args[1].(*ssa.Slice); ok {
					if al, ok := sl.X.(*ssa.Alloc); ok {
						if arr, ok := al.Type().(*types.Pointer).Elem().Underlying().(*types.Array); ok && isStringType(arr.Elem()) {
							for _, ref := range *al.Referrers() {
								if ia, ok := ref.(*ssa.IndexAddr); ok {
									for _, r2 := range *ia.Referrers() {
										if st, ok := r2.(*ssa.Store); ok && st.Addr == ssa.Value(ia) {
											if _, isConst := st.Val.(*ssa.Const); !isConst || withConst {
												out = append(out, site{fn, ins, st.Val})
											}
										}
									}
								}
							}
						}
					}
				} else if vs := x.Common().Args[1]; isStringSlice(vs.Type()) {
					// append(a, b...): the pieces of another collected list (a helper's result)
					if _, isConst := vs.(*ssa.Const); !isConst {
						out = append(out, site{fn, ins, vs})
					}
				}
				return
			}
			if f := x.Common().StaticCallee(); f != nil && builderWriters[f.String()] && len(x.Common().Args) > 1 {
				out = append(out, site{fn, ins, x.Common().Args[1]})
			} else if g := calleeOf(x); g != nil && !m.anchors[g] && g != fn && m.emitsIntoOuterBuilder(g, 0) {
				// a helper (or closure) that writes into a builder it was handed or captured: what it writes is emitted here, made of
				// what it is handed and what it reads itself
				if v, ok := ins.(ssa.Value); ok {
					out = append(out, site{fn, ins, v})
				}
			} else if f != nil && fprintFuncs[f.String()] && len(x.Common().Args) > 1 {
				for _, a := range x.Common().Args[1:] {
					if _, isConst := a.(*ssa.Const); !isConst || withConst {
						out = append(out, site{fn, ins, a})
					}
				}
			}
		case *ssa.Store:
			// element of a []string literal that collects pieces of text
			if ia, ok := x.Addr.(*ssa.IndexAddr); ok {
				if al, ok := ia.X.(*ssa.Alloc); ok && al.Comment == "slicelit" && isStringType(x.Val.Type()) {
					if _, isConst := x.Val.(*ssa.Const); !isConst || withConst {
						out = append(out, site{fn, ins, x.Val})
					}
				}
			}
		case *ssa.BinOp:
			// string accumulation: code = code + piece  -> the piece is emitted here
			if x.Op != token.ADD {
				return
			}
			if bt, ok := x.Type().Underlying().(*types.Basic); !ok || bt.Info()&types.IsString == 0 {
				return
			}
			if isAccum(x.X, 0) {
				out = append(out, site{fn, ins, x.Y})
			}
		case *ssa.Return:
			if len(x.Results) == 0 || !isStringish(x.Results[0].Type()) {
				return
			}
			v := x.Results[0]
			if mi, ok := v.(*ssa.MakeInterface); ok {
				v = mi.X
			}
			if call, ok := v.(*ssa.Call); ok {
				if f := call.Call.StaticCallee(); f != nil && (f.String() == "(*strings.Builder).String" || f.String() == "(*bytes.Buffer).String") {
					return // the builder's writes are the sites
				}
			}
			// a string assembled from pieces (out := a; out += b; return out): every piece is a site in the block that
			// appended it (for a phi: the block the value arrives from)
			type leaf struct {
				v  ssa.Value
				at ssa.Instruction
			}
			var leaves []leaf
			seen := map[ssa.Value]bool{}
			var pieces func(v ssa.Value, at ssa.Instruction)
			pieces = func(v ssa.Value, at ssa.Instruction) {
				if seen[v] {
					return
				}
				seen[v] = true
				switch y := v.(type) {
				case *ssa.Phi:
					konst := false
					for _, e := range y.Edges {
						if _, ok := e.(*ssa.Const); ok {
							konst = true
						}
					}
					if konst {
						leaves = append(leaves, leaf{y, at}) // the choice among constants is the information
						return
					}
					for i, e := range y.Edges {
						pred := y.Block().Preds[i]
						pieces(e, pred.Instrs[len(pred.Instrs)-1])
					}
				case *ssa.BinOp:
					if y.Op == token.ADD {
						pieces(y.X, y)
						pieces(y.Y, y)
						return
					}
					leaves = append(leaves, leaf{y, at})
				default:
					leaves = append(leaves, leaf{v, at})
				}
			}
			pieces(v, ins)
			for _, l := range leaves {
				if _, ok := l.v.(*ssa.Const); ok && !withConst {
					continue
				}
				out = append(out, site{fn, l.at, l.v})
			}
		}
	})
	// the same piece can be reached as an accumulator append and as a leaf of the returned concatenation
	seenSite := map[[2]any]bool{}
	var uniq []site
	for _, st := range out {
		k := [2]any{st.instr, st.val}
		if seenSite[k] {
			continue
		}
		seenSite[k] = true
		uniq = append(uniq, st)
	}
	out = uniq
	return out
}

// emitsIntoOuterBuilder: g writes text into a builder that is a parameter or a captured variable (not one of its own).
func (m *matrix) emitsIntoOuterBuilder(g *ssa.Function, depth int) bool {
	if m.emitOuter == nil {
		m.emitOuter = map[*ssa.Function]int{}
	}
	if v, ok := m.emitOuter[g]; ok {
		return v == 1
	}
	m.emitOuter[g] = 0
	if g.Blocks == nil || depth > 3 || !m.w.isSubjectFunc(g) {
		return false
	}
	res := false
	forEachInstr(g, func(_ *ssa.BasicBlock, ins ssa.Instruction) {
		c, ok := ins.(ssa.CallInstruction)
		if !ok || res {
			return
		}
		f := c.Common().StaticCallee()
		if f == nil || len(c.Common().Args) == 0 {
			return
		}
		if builderWriters[f.String()] || fprintFuncs[f.String()] {
			switch root := valueRoot(c.Common().Args[0]).(type) {
			case *ssa.Parameter, *ssa.FreeVar:
				_ = root
				res = true
			}
			return
		}
		if m.w.isSubjectFunc(f) && f != g && m.emitsIntoOuterBuilder(f, depth+1) {
			// forwards its own outer builder?
			for _, a := range c.Common().Args {
				switch valueRoot(a).(type) {
				case *ssa.Parameter, *ssa.FreeVar:
					if isBuilderPtr(a.Type()) {
						res = true
					}
				}
			}
		}
	})
	if res {
		m.emitOuter[g] = 1
	}
	return res
}

// writesNonLocal: the function stores through a parameter, a captured variable or a global (its effect is not only its result).
func (m *matrix) writesNonLocal(f *ssa.Function) bool {
	res := false
	forEachInstr(f, func(_ *ssa.BasicBlock, ins ssa.Instruction) {
		switch x := ins.(type) {
		case *ssa.Store:
			switch valueRoot(x.Addr).(type) {
			case *ssa.Parameter, *ssa.FreeVar, *ssa.Global:
				res = true
			}
		case *ssa.MapUpdate:
			switch valueRoot(x.Map).(type) {
			case *ssa.Parameter, *ssa.FreeVar, *ssa.Global:
				res = true
			}
		}
	})
	return res
}

func isStringSlice(t types.Type) bool {
	sl, ok := t.Underlying().(*types.Slice)
	return ok && isStringType(sl.Elem())
}

func isBuilderPtr(t types.Type) bool {
	s := t.String()
	return s == "*strings.Builder" || s == "*bytes.Buffer" || s == "io.Writer"
}

// siteDeps: data and control dependence of an emission site, specialised to u.
func (m *matrix) siteDeps(s site, u *unit) (data, ctrl src) {
	c := m.ctx(s.fn, u)
	c.bindParams = true
	data = c.deps(s.val) &^ sNAME
	ctrl = c.ctrlDeps(s.instr.Block()) &^ sNAME
	if dbg := os.Getenv("FINLINT_DEBUG_SITE"); dbg != "" && strings.Contains(fnKey(s.fn), dbg) && u != nil {
		fmt.Printf("DBG site %s %s unit=%s data=%s ctrl=%s val=%s\n", fnKey(s.fn), m.w.instrPos(s.instr), u, data, ctrl, s.val)
		if call, ok := s.val.(*ssa.Call); ok {
			for _, a := range call.Call.Args {
				for _, v := range variadicOperands(a) {
					if v != nil {
						fmt.Printf("DBG    operand %s = %s deps=%s\n", v.Name(), v, c.deps(v))
					}
				}
			}
		}
	}
	return
}

// siteDataFull: data dependence of a site with calls to other emitter roots summarised instead of opaque.
func (m *matrix) siteDataFull(s site, u *unit) src {
	c := m.ctx(s.fn, u)
	c.bindParams = true
	c.noOpaque = true
	return c.deps(s.val) &^ sNAME
}

// ---- anchors ----

type genAnchors struct {
	Lang  string
	Recv  string
	Table string
}

var anchorTable = []genAnchors{
	{Lang: "go", Recv: "GoGenerator", Table: "goBasicTypeMap"},
	{Lang: "rust", Recv: "RustGenerator"},
	{Lang: "java", Recv: "JavaGenerator", Table: "javaBasicTypeMap"},
	{Lang: "python", Recv: "PythonGenerator", Table: "pyBasicTypeMap"},
	{Lang: "cpp", Recv: "CppGenerator", Table: "cppBasicTypeMap"},
	{Lang: "lua", Recv: "LuaWspGenerator", Table: "luaBasicTypeMap"},
}

// camelWords splits an identifier into lower-cased words (generateStructCode -> generate, struct, code).
func camelWords(name string) []string {
	var words []string
	cur := ""
	rs := []rune(name)
	for i, r := range rs {
		if r == '_' {
			if cur != "" {
				words = append(words, strings.ToLower(cur))
				cur = ""
			}
			continue
		}
		if i > 0 && r >= 'A' && r <= 'Z' && cur != "" {
			prevUpper := rs[i-1] >= 'A' && rs[i-1] <= 'Z'
			nextLower := i+1 < len(rs) && rs[i+1] >= 'a' && rs[i+1] <= 'z'
			if !prevUpper || nextLower {
				words = append(words, strings.ToLower(cur))
				cur = ""
			}
		}
		cur += string(r)
	}
	if cur != "" {
		words = append(words, strings.ToLower(cur))
	}
	return words
}

// nameHas: some word of the function's name starts with one of the given stems.
func nameHas(fn *ssa.Function, stems ...string) bool {
	for _, w := range camelWords(fn.Name()) {
		for _, s := range stems {
			if strings.HasPrefix(w, s) {
				return true
			}
		}
	}
	return false
}

// roleOf classifies a generator function by the project's naming convention (every generator names its emitters
// ...Encod..., ...Decod..., ...Test/Instance...); everything inside the functions is found semantically.
func roleOf(fn *ssa.Function) string {
	switch {
	case nameHas(fn, "test", "instance", "fixture", "sample"):
		return "test"
	case nameHas(fn, "encod"):
		return "enc"
	case nameHas(fn, "decod", "dissect"):
		return "dec"
	}
	return ""
}

// resolveAnchors discovers, per generator, the encode / decode emitter roots (by name), their helper closure,
// the dispatch emitters (semantically: a site depending on both key and packet of a match pair), the test emitters and the padding helper.
// Keys: "enc"/"dec" = roots + helpers (all functions whose sites belong to the direction), "encroots"/"decroots" = roots only.
func (m *matrix) resolveAnchors(r *Report) map[string]map[string][]*ssa.Function {
	out := map[string]map[string][]*ssa.Function{}
	gens, err := m.w.generateFuncs()
	if err != nil {
		r.fatal("%v", err)
		return out
	}
	inSet := map[*ssa.Function]bool{}
	for _, f := range m.funcs {
		inSet[f] = true
	}
	for _, ga := range anchorTable {
		out[ga.Lang] = map[string][]*ssa.Function{}
		reach := m.w.subjectsOnly(m.w.reachable([]*ssa.Function{gens[ga.Lang]}, func(f *ssa.Function) bool { return m.w.isRepoLike(f) }))
		var own []*ssa.Function
		for _, f := range sortedFuncs(reach) {
			if !inSet[f] || f.Pkg != m.w.Parser {
				continue
			}
			if rn := recvNamedCore(f); rn != "" && rn != ga.Recv {
				continue
			}
			own = append(own, f)
		}
		roots := map[string][]*ssa.Function{}
		for _, f := range own {
			if f.Name() == "Generate" {
				continue
			}
			if role := roleOf(f); role != "" {
				roots[role] = append(roots[role], f)
			}
			// padding helper: func(*model.Field) *model.Padding
			sig := f.Signature
			if sig.Results().Len() == 1 && typeIs(sig.Results().At(0).Type(), modPath+"/internal/model", "Padding") && sig.Params().Len() == 1 && isFieldPtr(sig.Params().At(0).Type()) && recvNamedCore(f) == ga.Recv {
				out[ga.Lang]["padding"] = append(out[ga.Lang]["padding"], f)
			}
		}
		ownSet := map[*ssa.Function]bool{}
		for _, f := range own {
			ownSet[f] = true
		}
		isRoot := map[*ssa.Function]string{}
		for role, fs := range roots {
			for _, f := range fs {
				isRoot[f] = role
			}
		}
		for _, role := range []string{"enc", "dec", "test"} {
			// closure: roots + helpers reachable by static calls, not entering roots of another role
			seen := map[*ssa.Function]bool{}
			var stack []*ssa.Function
			for _, f := range roots[role] {
				seen[f] = true
				stack = append(stack, f)
			}
			for len(stack) > 0 {
				f := stack[len(stack)-1]
				stack = stack[:len(stack)-1]
				visit := func(g *ssa.Function) {
					if g == nil || seen[g] || !inSet[g] || g.Pkg != m.w.Parser {
						return
					}
					if rn := recvNamedCore(g); rn != "" && rn != ga.Recv {
						return
					}
					if rr, ok := isRoot[g]; ok && rr != role {
						return
					}
					seen[g] = true
					stack = append(stack, g)
				}
				forEachInstr(f, func(b *ssa.BasicBlock, ins ssa.Instruction) {
					c, ok := ins.(ssa.CallInstruction)
					if !ok {
						return
					}
					if g := calleeOf(c); g != nil {
						visit(g)
						return
					}
					if c.Common().IsInvoke() {
						return
					}
					// a call through a function value (method value, dispatch table): the generator's own methods of that signature,
					// reached directly or through a bound-method wrapper / thunk
					if n := m.w.CallGraph().Nodes[f]; n != nil {
						for _, e := range n.Out {
							if e.Site != c {
								continue
							}
							g := e.Callee.Func
							if g != nil && g.Synthetic != "" && g.Pkg == nil {
								for _, bb := range g.Blocks {
									for _, i2 := range bb.Instrs {
										if c2, ok := i2.(ssa.CallInstruction); ok && c2.Common().StaticCallee() != nil {
											if t := c2.Common().StaticCallee(); ownSet[t] && recvNamedCore(t) == ga.Recv {
												visit(t)
											}
										}
									}
								}
								continue
							}
							if ownSet[g] && (recvNamedCore(g) == ga.Recv || recvNamedCore(g) == "") {
								visit(g)
							}
						}
					}
				})
			}
			out[ga.Lang][role] = sortedFuncs(seen)
			out[ga.Lang][role+"roots"] = roots[role]
		}
		// a call of another emitter is opaque because the callee's text is judged at the callee's own emission sites. A function that
		// has the role's name but no emission site (it hands back a record, a flag, a list of packets) has nothing that could be
		// judged there: it is a helper of its callers, and what it returns is followed like any helper's result.
		var emitting []*ssa.Function
		for _, role := range []string{"enc", "dec"} {
			for _, f := range roots[role] {
				if len(m.sitesOf(f)) > 0 {
					emitting = append(emitting, f)
				}
			}
		}
		for _, f := range emitting {
			m.anchors[f] = true
		}
		out[ga.Lang]["own"] = own
		if os.Getenv("FINLINT_DEBUG_ANCHORS") == ga.Lang {
			for _, role := range []string{"enc", "dec", "test"} {
				var names []string
				for _, f := range out[ga.Lang][role] {
					names = append(names, f.Name())
				}
				fmt.Printf("DBG anchors %s %s: %v\n", ga.Lang, role, names)
			}
		}
	}
	return out
}

// unitGroups: for a direction's emitter functions, the per-function dependence of the sites that can execute for u.
type groupDeps struct {
	fn    *ssa.Function
	deps  src
	sites int
	state St
	root  bool
	data  src // data dependence only (what the emitted text is made from)
}

func (m *matrix) unitGroups(fns []*ssa.Function, u unit) []groupDeps {
	var out []groupDeps
	for _, fn := range fns {
		g := groupDeps{fn: fn, root: m.anchors[fn]}
		miss := tableMissBlocks(fn)
		for _, s := range m.sitesOf(fn) {
			if miss[s.instr.Block()] {
				continue // reached only when the field's type has no row in the scalar table: not the emission of any grammatical type
			}
			st, f := m.stateAt(fn, s.instr.Block())
			if f == nil || st.empty() || !st.admits(u) {
				continue
			}
			if isParam := isCarriedField(f); st.isTop() && !isParam && !(f == ctxField && m.facts[fn].ctxSpecific && m.anchors[fn]) {
				continue // no test on the (loop variable) field dominates this site: common text, not specific to any cell
			}
			if u.Target && st.L != 1 {
				continue // the back-patch cell consists of the sites under the LenAttr test only
			}
			d, c := m.siteDeps(s, &u)
			g.deps |= d | c
			g.data |= d
			g.sites++
			g.state = g.state.join(st)
		}
		if g.sites > 0 {
			out = append(out, g)
		}
	}
	return out
}

func sortFuncsByName(fs []*ssa.Function) {
	sort.Slice(fs, func(i, j int) bool { return fnKey(fs[i]) < fnKey(fs[j]) })
}

// isLocalRecord: t is (a pointer to) a named struct declared in the parser package that is neither a generator nor a visitor: a
// record the code uses to carry state between its own functions.
func isLocalRecord(t types.Type) bool {
	if p, ok := t.Underlying().(*types.Pointer); ok {
		t = p.Elem()
	}
	n := namedOf(t)
	if n == nil || n.Obj().Pkg() == nil || n.Obj().Pkg().Path() != parserPath {
		return false
	}
	if _, ok := n.Underlying().(*types.Struct); !ok {
		return false
	}
	name := n.Obj().Name()
	if strings.HasSuffix(name, "Generator") || strings.HasSuffix(name, "Impl") || strings.HasSuffix(name, "Formattor") || strings.HasSuffix(name, "Type") {
		return false
	}
	return true
}

// recordFieldDeps: what member idx of the record value (or pointer) v depends on - member by member, through helper returns,
// local variables, phis and parameters (joined over the call sites). ok=false: not understood, use the whole-object taint.
func (c *depCtx) recordFieldDeps(v ssa.Value, idx int, depth int) (d0 src, ok0 bool) {
	if depth > 14 || v == nil {
		return 0, false
	}
	if os.Getenv("FINLINT_DEBUG_RECORD") != "" {
		defer func() { fmt.Printf("DBG record %s%s idx=%d -> %s %v\n", strings.Repeat("  ", depth), v, idx, d0, ok0) }()
	}
	resIdx := 0
	if ex, ok := v.(*ssa.Extract); ok {
		// one result of a helper that returns the record together with other results (a flag, an error)
		call, ok := ex.Tuple.(*ssa.Call)
		if !ok {
			return 0, false
		}
		v, resIdx = call, ex.Index
	}
	switch x := v.(type) {
	case *ssa.Const:
		return 0, true // the zero record: every member is its type's zero value
	case *ssa.Call:
		h := calleeOf(x) // a method, a function, a closure of the function at hand
		if h == nil || h.Blocks == nil || !c.m.w.isSubjectFunc(h) || x.Call.IsInvoke() {
			return 0, false
		}
		cc := c.m.ctx(h, c.u)
		cc.bindParams = c.bindParams
		cc.noOpaque = c.noOpaque
		var d src
		n := 0
		var rets []*ssa.BasicBlock
		for _, b := range h.Blocks {
			ret, ok := b.Instrs[len(b.Instrs)-1].(*ssa.Return)
			if !ok || resIdx >= len(ret.Results) || !c.m.feasible(h, b, c.u) {
				continue
			}
			r, ok := cc.recordFieldDeps(ret.Results[resIdx], idx, depth+1)
			if !ok {
				return 0, false
			}
			n++
			d |= r
			rets = append(rets, b)
		}
		// which of several returns is taken is itself a dependence: `if cfg.LittleEndian { return order{"LE"} }; return order{""}`
		if len(rets) > 1 {
			for _, b := range rets {
				d |= cc.ctrlDeps(b)
			}
		}
		return d, n > 0
	case *ssa.UnOp:
		if x.Op == token.MUL {
			return c.recordFieldDeps(x.X, idx, depth+1)
		}
		return 0, false
	case *ssa.Alloc:
		if x.Referrers() == nil {
			return 0, false
		}
		var d src
		for _, ref := range *x.Referrers() {
			switch y := ref.(type) {
			case *ssa.Store:
				if y.Addr != ssa.Value(x) {
					return 0, false // the record's address is stored somewhere
				}
				if !c.blockOK(y) {
					continue
				}
				if r, ok := c.recordFieldDeps(y.Val, idx, depth+1); ok {
					d |= r
				} else if _, isConst := y.Val.(*ssa.Const); !isConst {
					d |= c.deps(y.Val)
				}
			case *ssa.FieldAddr:
				if y.Field != idx || y.Referrers() == nil {
					continue
				}
				for _, r2 := range *y.Referrers() {
					if st, ok := r2.(*ssa.Store); ok && st.Addr == ssa.Value(y) && c.blockOK(st) {
						d |= c.deps(st.Val)
						if st.Block() != x.Block() {
							d |= c.ctrlDeps(st.Block())
						}
					}
				}
			case *ssa.UnOp, *ssa.DebugRef:
			case ssa.CallInstruction:
				// handed to a function by address: fine when that function does not write through it
				g := y.Common().StaticCallee()
				if g == nil || g.Blocks == nil {
					return 0, false
				}
				for i, a := range y.Common().Args {
					if a == ssa.Value(x) && i < len(g.Params) && writesThroughParam(g, g.Params[i]) {
						return 0, false
					}
				}
			default:
				return 0, false
			}
		}
		return d, true
	case *ssa.Phi:
		var d src
		for i, e := range x.Edges {
			if !c.m.feasible(c.fn, x.Block().Preds[i], c.u) {
				continue
			}
			r, ok := c.recordFieldDeps(e, idx, depth+1)
			if !ok {
				return 0, false
			}
			d |= r
		}
		return d, true
	case *ssa.Parameter:
		if !c.bindParams {
			return 0, true
		}
		fn := x.Parent()
		pidx := -1
		for i, q := range fn.Params {
			if q == x {
				pidx = i
			}
		}
		var d src
		n := 0
		for _, site := range c.m.callers[fn] {
			args := site.Common().Args
			if pidx < 0 || pidx >= len(args) {
				continue
			}
			caller := site.Parent()
			if c.m.facts[caller] == nil {
				continue
			}
			if c.u != nil && !c.m.feasible(caller, site.Block(), c.u) {
				continue
			}
			cc := c.m.ctx(caller, c.u)
			cc.bindParams = true
			r, ok := cc.recordFieldDeps(args[pidx], idx, depth+1)
			if !ok {
				return 0, false
			}
			n++
			d |= r
		}
		return d, n > 0
	case *ssa.MakeInterface, *ssa.ChangeType:
		return 0, false
	}
	return 0, false
}

// writesThroughParam: fn stores through the pointer parameter p (directly).
func writesThroughParam(fn *ssa.Function, p *ssa.Parameter) bool {
	w := false
	forEachInstr(fn, func(_ *ssa.BasicBlock, ins ssa.Instruction) {
		if st, ok := ins.(*ssa.Store); ok && addrRoot(st.Addr) == ssa.Value(p) {
			w = true
		}
	})
	return w
}

// fieldsReadOfParam: the member indices of record parameter p that fn reads; all=true when the record is used whole (passed on,
// stored, returned, compared).
func fieldsReadOfParam(fn *ssa.Function, p *ssa.Parameter) (idxs []int, all bool) {
	seen := map[int]bool{}
	var visit func(v ssa.Value, depth int)
	visit = func(v ssa.Value, depth int) {
		refs := v.Referrers()
		if refs == nil || depth > 3 {
			return
		}
		for _, ref := range *refs {
			switch x := ref.(type) {
			case *ssa.Field:
				seen[x.Field] = true
			case *ssa.FieldAddr:
				seen[x.Field] = true
			case *ssa.DebugRef:
			case *ssa.Store:
				// a by-value receiver spilled into a local: follow the local
				if x.Val == v {
					if al, ok := x.Addr.(*ssa.Alloc); ok {
						visit(al, depth+1)
						continue
					}
				}
				if x.Addr == v {
					continue // the spill itself
				}
				all = true
			case *ssa.UnOp:
				if x.Op == token.MUL {
					visit(x, depth+1)
				} else {
					all = true
				}
			default:
				all = true
			}
		}
	}
	visit(p, 0)
	for i := range seen {
		idxs = append(idxs, i)
	}
	sort.Ints(idxs)
	return idxs, all
}

// tableMissBlocks: the blocks of fn dominated by the miss edge of a comma-ok lookup in a scalar type table (xBasicTypeMap[typ]).
// Every grammatical scalar type has a row (table-agreement rule), so text emitted there belongs to no cell.
func tableMissBlocks(fn *ssa.Function) map[*ssa.BasicBlock]bool {
	out := map[*ssa.BasicBlock]bool{}
	for _, b := range fn.Blocks {
		cond := branchCond(b)
		if cond == nil {
			continue
		}
		val := true
		for {
			if u, ok := cond.(*ssa.UnOp); ok && u.Op == token.NOT {
				cond, val = u.X, !val
				continue
			}
			break
		}
		ex, ok := cond.(*ssa.Extract)
		if !ok || ex.Index != 1 {
			continue
		}
		lk, ok := ex.Tuple.(*ssa.Lookup)
		if !ok || !lk.CommaOk {
			continue
		}
		g, ok := valueRoot(lk.X).(*ssa.Global)
		if !ok || !strings.HasSuffix(g.Name(), "BasicTypeMap") {
			continue
		}
		missSucc := 1
		if !val {
			missSucc = 0
		}
		for _, bb := range fn.Blocks {
			if edgeDominates(b, missSucc, bb) {
				out[bb] = true
			}
		}
	}
	return out
}

var indirectSitesMemo = map[*ssa.Function][]ssa.CallInstruction{}
var indirectSitesBusy = map[*ssa.Function]bool{}

// indirectSitesOf: the calls through a function value (not a static call, not an interface method) that can reach fn: the value
// called is one whose possible targets include fn. Only anonymous functions and method values are looked for - a named function
// that is only ever called statically has none.
func indirectSitesOf(fn *ssa.Function) []ssa.CallInstruction {
	if out, ok := indirectSitesMemo[fn]; ok {
		return out
	}
	if theWorld == nil || indirectSitesBusy[fn] {
		return nil
	}
	indirectSitesBusy[fn] = true
	defer delete(indirectSitesBusy, fn)
	var out []ssa.CallInstruction
	for _, g := range theWorld.allFuncsInRepo() {
		forEachInstr(g, func(_ *ssa.BasicBlock, ins ssa.Instruction) {
			c, ok := ins.(ssa.CallInstruction)
			if !ok || c.Common().IsInvoke() || c.Common().StaticCallee() != nil {
				return
			}
			if _, isB := c.Common().Value.(*ssa.Builtin); isB {
				return
			}
			if !types.Identical(c.Common().Value.Type().Underlying(), fn.Signature) {
				return
			}
			for _, t := range closureTargets(c.Common().Value, 0, map[ssa.Value]bool{}) {
				if t == fn {
					out = append(out, c)
				}
			}
		})
	}
	indirectSitesMemo[fn] = out
	return out
}
