package main

// C10/token-text-not-cut: the formatter moves tokens, it does not take them apart.
//
// GetText() of a rule context is the texts of its tokens glued together; GetText() of a token is that token. A character-level
// splitter applied to such text (strings.Split*, Fields*, Cut*, a regexp split) finds its separator inside tokens as well as between
// them - a comma inside a string literal, a blank inside a comment - and what is put together again afterwards is no longer the
// token: the output changes the token and, typically, changes it again on every further pass. Decided: no value derived by identity,
// slicing, trimming or concatenation from a GetText() call of an antlr / generated-parser type, in a formatter function, is the
// subject of such a splitter. Splitting on a line break is the business of */multi-line-token-text-untouched and not judged here.

import (
	"fmt"
	"go/constant"
	"go/token"
	"go/types"
	"sort"
	"strconv"
	"strings"

	"golang.org/x/tools/go/ssa"
)

func c10TokenTextNotCut(w *World, r *Report, prop string) {
	rule := prop + "/token-text-not-cut"
	cf := newCmtFlow(w)
	isSplitter := func(f *ssa.Function) bool {
		if f == nil || f.Pkg == nil {
			return false
		}
		switch f.Pkg.Pkg.Path() {
		case "strings", "bytes":
			n := f.Name()
			return strings.HasPrefix(n, "Split") || strings.HasPrefix(n, "Fields") || strings.HasPrefix(n, "Cut") && n != "Cutset"
		case "regexp":
			return f.Name() == "Split" || strings.HasPrefix(f.Name(), "FindAll")
		}
		return false
	}
	seeds := tokenTextSeeds(cf)
	if len(seeds) == 0 {
		r.fail(rule, "token text found", "internal/parser/packet_dsl_formattor.go", "no GetText() call found in the formatter: the rule lost its sources")
		return
	}
	c10TokenTextNotCutRest(w, r, rule, cf, seeds, isSplitter, prop)
}

// tokenTextSeeds: the GetText() calls on antlr / generated-parser types in the formatter's functions.
func tokenTextSeeds(cf *cmtFlow) []ssa.Value {
	var seeds []ssa.Value
	for _, fn := range cf.fns {
		forEachInstr(fn, func(_ *ssa.BasicBlock, ins ssa.Instruction) {
			c, ok := ins.(*ssa.Call)
			if !ok {
				return
			}
			name, recv := "", types.Type(nil)
			if c.Call.IsInvoke() {
				name, recv = c.Call.Method.Name(), c.Call.Value.Type()
			} else if f := c.Call.StaticCallee(); f != nil && f.Signature.Recv() != nil {
				name, recv = f.Name(), f.Signature.Recv().Type()
			}
			if name != "GetText" || recv == nil {
				return
			}
			ts := types.TypeString(recv, nil)
			if strings.Contains(ts, "antlr") || strings.Contains(ts, "/gen.") || strings.Contains(ts, "/grammar") {
				seeds = append(seeds, c)
			}
		})
	}
	return seeds
}

func c10TokenTextNotCutRest(w *World, r *Report, rule string, cf *cmtFlow, seeds []ssa.Value, isSplitter func(*ssa.Function) bool, prop string) {
	// derived text: identity flow plus trimming, case mapping, concatenation and formatting
	set := cf.flowFrom(seeds)
	for changed := true; changed; {
		changed = false
		var more []ssa.Value
		for _, fn := range cf.fns {
			forEachInstr(fn, func(_ *ssa.BasicBlock, ins ssa.Instruction) {
				v, ok := ins.(ssa.Value)
				if !ok || set[v] {
					return
				}
				switch x := ins.(type) {
				case *ssa.BinOp:
					if x.Op == token.ADD && (set[x.X] || set[x.Y]) {
						more = append(more, x)
					}
				case *ssa.Call:
					f := x.Call.StaticCallee()
					if f == nil || f.Pkg == nil || isSplitter(f) {
						return
					}
					p := f.Pkg.Pkg.Path()
					if p != "strings" && p != "fmt" {
						return
					}
					if !isStringType(x.Type()) {
						return
					}
					for _, a := range x.Call.Args {
						if set[a] {
							more = append(more, x)
							return
						}
						// variadic ...any
						if sl, ok := a.(*ssa.Slice); ok {
							if al, ok := sl.X.(*ssa.Alloc); ok && al.Referrers() != nil {
								for _, ref := range *al.Referrers() {
									if ia, ok := ref.(*ssa.IndexAddr); ok && ia.Referrers() != nil {
										for _, r2 := range *ia.Referrers() {
											if st, ok := r2.(*ssa.Store); ok && set[st.Val] {
												more = append(more, x)
												return
											}
										}
									}
								}
							}
						}
					}
				}
			})
		}
		if len(more) > 0 {
			for v := range cf.flowFrom(more) {
				if !set[v] {
					set[v] = true
					changed = true
				}
			}
		}
	}
	type hit struct {
		c   *ssa.Call
		sep string
	}
	var hits []hit
	for _, fn := range cf.fns {
		forEachInstr(fn, func(_ *ssa.BasicBlock, ins ssa.Instruction) {
			c, ok := ins.(*ssa.Call)
			if !ok || !isSplitter(c.Call.StaticCallee()) {
				return
			}
			args := c.Call.Args
			subj := 0
			if c.Call.StaticCallee().Signature.Recv() != nil { // (*regexp.Regexp).Split(s, n)
				subj = 1
			}
			if subj >= len(args) || !set[args[subj]] {
				return
			}
			sep := "white space"
			if subj+1 < len(args) {
				if k, ok := args[subj+1].(*ssa.Const); ok && k.Value != nil && k.Value.Kind() == constant.String {
					s := constant.StringVal(k.Value)
					if s == "\n" || s == "\r\n" {
						return
					}
					sep = strconv.Quote(s)
				} else if isStringType(args[subj+1].Type()) {
					sep = "a computed separator"
				}
			}
			hits = append(hits, hit{c, sep})
		})
	}
	sort.Slice(hits, func(i, j int) bool { return hits[i].c.Pos() < hits[j].c.Pos() })
	cnt := map[string]int{}
	for _, h := range hits {
		k := fnKey(h.c.Parent())
		cnt[k]++
		r.fail(rule, k+": token text is passed on whole", w.instrPos(h.c), calleeName(h.c)+" at "+h.sep+" is applied to text taken from GetText(): the separator is also found inside tokens (a string literal, a comment), the pieces put together again are not the token that was written - the output changes it, and again on every further pass")
	}
	for _, fn := range cf.fns {
		if fn.Parent() == nil && cnt[fnKey(fn)] == 0 {
			has := false
			forEachInstr(fn, func(_ *ssa.BasicBlock, ins ssa.Instruction) {
				if v, ok := ins.(ssa.Value); ok && set[v] {
					has = true
				}
			})
			if has {
				r.pass(rule, fnKey(fn)+": token text is passed on whole", w.pos(fn.Pos()), "")
			}
		}
	}
	r.note("%s: %d GetText() sources, %d derived values followed", rule, len(seeds), len(set))
	c10TokenTextNotAFormat(w, r, prop, cf, set)
}

// */token-text-not-a-format: text taken from a token never stands in the *format* position of a printf-style call of the
// formatter. A '%' the author wrote (in a documentation string, a string key, a comment) would be read as a verb: the token is
// printed as something else ("100% of" -> "100%!o(MISSING)f"), the compiled output changes, and the text changes again on the next
// pass. The derived set is widened for this sink: a repository helper that is handed token text and hands back a string hands back
// token text (an indentation helper, a joiner). Escaping is recognised: ReplaceAll(x, "%", "%%") ends the flow.
func c10TokenTextNotAFormat(w *World, r *Report, prop string, cf *cmtFlow, base map[ssa.Value]bool) {
	rule := prop + "/token-text-not-a-format"
	if cf == nil {
		cf = newCmtFlow(w)
		base = cf.flowFrom(tokenTextSeeds(cf))
	}
	set := map[ssa.Value]bool{}
	for v := range base {
		set[v] = true
	}
	isEscape := func(c *ssa.Call) bool {
		f := c.Call.StaticCallee()
		if f == nil || f.Pkg == nil || f.Pkg.Pkg.Path() != "strings" || !strings.HasPrefix(f.Name(), "Replace") || len(c.Call.Args) < 3 {
			return false
		}
		a, ok1 := c.Call.Args[1].(*ssa.Const)
		b, ok2 := c.Call.Args[2].(*ssa.Const)
		return ok1 && ok2 && a.Value != nil && b.Value != nil && a.Value.Kind() == constant.String && constant.StringVal(a.Value) == "%" && constant.StringVal(b.Value) == "%%"
	}
	for v := range set {
		if c, ok := v.(*ssa.Call); ok && isEscape(c) {
			delete(set, v)
		}
	}
	for changed := true; changed; {
		changed = false
		var more []ssa.Value
		for _, fn := range cf.fns {
			forEachInstr(fn, func(_ *ssa.BasicBlock, ins ssa.Instruction) {
				switch x := ins.(type) {
				case *ssa.BinOp:
					if x.Op == token.ADD && !set[x] && (set[x.X] || set[x.Y]) {
						more = append(more, x)
					}
				case *ssa.Call:
					if set[x] || !isStringType(x.Type()) || isEscape(x) {
						return
					}
					f := x.Call.StaticCallee()
					if f == nil {
						return
					}
					if !(w.isSubjectFunc(f) || f.Pkg != nil && (f.Pkg.Pkg.Path() == "strings" || f.Pkg.Pkg.Path() == "fmt")) {
						return
					}
					for _, a := range x.Call.Args {
						if set[a] && isStringType(a.Type()) {
							more = append(more, x)
							return
						}
					}
				}
			})
		}
		for _, v := range more {
			if !set[v] {
				set[v] = true
				changed = true
			}
		}
		if len(more) > 0 {
			for v := range cf.flowFrom(more) {
				if c, ok := v.(*ssa.Call); ok && isEscape(c) {
					continue
				}
				if !set[v] {
					set[v] = true
					changed = true
				}
			}
		}
	}
	n := 0
	var hits []*ssa.Call
	for _, fn := range cf.fns {
		forEachInstr(fn, func(_ *ssa.BasicBlock, ins ssa.Instruction) {
			c, ok := ins.(*ssa.Call)
			if !ok {
				return
			}
			f := c.Call.StaticCallee()
			if f == nil || f.Pkg == nil || f.Signature.Recv() != nil {
				return
			}
			if p := f.Pkg.Pkg.Path(); p != "fmt" && p != "log" && p != "errors" {
				return
			}
			params := f.Signature.Params()
			for i := 0; i < params.Len() && i < len(c.Call.Args); i++ {
				if params.At(i).Name() != "format" {
					continue
				}
				n++
				if set[c.Call.Args[i]] {
					hits = append(hits, c)
				}
			}
		})
	}
	sort.Slice(hits, func(i, j int) bool { return hits[i].Pos() < hits[j].Pos() })
	bad := map[string]bool{}
	for _, h := range hits {
		k := fnKey(h.Parent())
		if bad[k] {
			continue
		}
		bad[k] = true
		r.fail(rule, k+": formats are the formatter's own", w.instrPos(h), "text taken from GetText() reaches the format operand of "+calleeName(h)+": a '%' the author wrote in a string, a documentation string or a comment is read as a verb, the token is printed as something else and changes again on every further pass")
	}
	for _, fn := range cf.fns {
		if fn.Parent() == nil && !bad[fnKey(fn)] {
			has := false
			forEachInstr(fn, func(_ *ssa.BasicBlock, ins ssa.Instruction) {
				if c, ok := ins.(*ssa.Call); ok {
					if f := c.Call.StaticCallee(); f != nil && f.Pkg != nil && f.Pkg.Pkg.Path() == "fmt" && strings.HasSuffix(f.Name(), "f") {
						has = true
					}
				}
			})
			if has {
				r.pass(rule, fnKey(fn)+": formats are the formatter's own", w.pos(fn.Pos()), "")
			}
		}
	}
	r.note("%s: %d printf-style calls in the formatter, %d values derived from token text", rule, n, len(set))
}

// C09|C10/sibling-independence: what the formatter prints for one child does not depend on its earlier siblings.
//
// The formatter walks the children of a node in a loop (`for _, pair := range ctx.AllMatchPair()`) and prints each from its own
// tokens. State that is carried from one iteration to the next and *read inside the loop* - a list of keys that is appended to but
// never reset, say - makes the text of the second child contain material of the first: the output parses, but it is another program.
// Accumulating the output itself (lines appended to a slice, text added to a string, and used after the loop) is the normal case and
// is recognised by the fact that nothing inside the loop reads the accumulated value except the operation that extends it.
func c09SiblingIndependence(w *World, r *Report, prop string) {
	rule := prop + "/sibling-independence"
	ctxs := w.ctxTable()
	n := 0
	for _, fn := range formatterFuncs(w) {
		// loops over a list of children
		var headers []*ssa.BasicBlock
		forEachInstr(fn, func(_ *ssa.BasicBlock, ins ssa.Instruction) {
			ia, ok := ins.(*ssa.IndexAddr)
			if !ok {
				return
			}
			c, ok := stripIdentity(ia.X).(*ssa.Call)
			if !ok {
				return
			}
			if _, ai, ok := w.accessorOf(c, ctxs); !ok || !ai.Known || !strings.HasSuffix(ai.What, "*") {
				return
			}
			var phi *ssa.Phi
			switch ix := ia.Index.(type) {
			case *ssa.BinOp:
				phi, _ = ix.X.(*ssa.Phi)
			case *ssa.Phi:
				phi = ix
			}
			if phi != nil {
				headers = append(headers, phi.Block())
			}
		})
		seenH := map[*ssa.BasicBlock]bool{}
		for _, h := range headers {
			if seenH[h] {
				continue
			}
			seenH[h] = true
			loop := naturalLoop(h)
			n++
			key := fmt.Sprintf("%s: loop over children #%d carries nothing from one child into the text of the next", fnKey(fn), len(seenH))
			bad := ""
			for _, ins := range h.Instrs {
				phi, ok := ins.(*ssa.Phi)
				if !ok {
					break
				}
				if phi.Comment == "rangeindex" {
					continue
				}
				switch phi.Type().Underlying().(type) {
				case *types.Slice, *types.Map:
				default:
					if !isStringType(phi.Type()) {
						continue
					}
				}
				// the values that flow around the loop
				var inLoopVals []ssa.Value
				for i, e := range phi.Edges {
					if loop[h.Preds[i]] && e != ssa.Value(phi) {
						inLoopVals = append(inLoopVals, e)
					}
				}
				if len(inLoopVals) == 0 {
					continue
				}
				// the accumulation: everything obtained from the carried value by extending it (concatenation, append, an accumulating
				// helper that takes it and returns the same type, merges)
				isReset := func(ins ssa.Instruction) bool {
					sl, ok := ins.(*ssa.Slice)
					if !ok || sl.High == nil {
						return false
					}
					c, ok := sl.High.(*ssa.Const)
					return ok && c.Value != nil && c.Int64() == 0
				}
				carried := map[ssa.Value]bool{phi: true}
				isExt := func(ref ssa.Instruction, from ssa.Value) (ssa.Value, bool) {
					switch x := ref.(type) {
					case *ssa.BinOp:
						if x.Op == token.ADD && (x.X == from || x.Y == from) {
							return x, true
						}
					case *ssa.Phi:
						return x, true
					case *ssa.Call:
						if bi, ok := x.Call.Value.(*ssa.Builtin); ok {
							if bi.Name() == "append" && len(x.Call.Args) > 0 && x.Call.Args[0] == from {
								return x, true
							}
							return nil, false
						}
						if types.Identical(x.Type(), from.Type()) {
							for _, a := range x.Call.Args {
								if a == from {
									return x, true
								}
							}
						}
					case *ssa.Slice:
						if x.X == from && !isReset(x) {
							return x, true
						}
					}
					return nil, false
				}
				for changed := true; changed; {
					changed = false
					for v := range carried {
						if v.Referrers() == nil {
							continue
						}
						for _, ref := range *v.Referrers() {
							if !loop[ref.Block()] {
								continue
							}
							if nv, ok := isExt(ref, v); ok && !carried[nv] {
								carried[nv] = true
								changed = true
							}
						}
					}
				}
				for v := range carried {
					if v.Referrers() == nil {
						continue
					}
					for _, ref := range *v.Referrers() {
						if _, isDbg := ref.(*ssa.DebugRef); isDbg || !loop[ref.Block()] || ref == ssa.Instruction(phi) {
							continue
						}
						if _, ok := isExt(ref, v); ok {
							continue
						}
						if isReset(ref) {
							continue // v[:0]: the collected elements are dropped, only the storage is reused
						}
						bad = fmt.Sprintf("the value accumulated across the children (%s, carried around the loop at %s) is read inside the loop by %s at %s: the text printed for one child contains what was collected from its earlier siblings", types.TypeString(phi.Type(), shortQual), w.instrPos(phi), instrKind(ref), w.instrPos(ref))
					}
				}
			}
			if bad == "" {
				r.pass(rule, key, w.instrPos(h.Instrs[0]), "")
			} else {
				r.fail(rule, key, w.instrPos(h.Instrs[0]), bad)
			}
		}
	}
	if n == 0 {
		r.fail(rule, "loops over children found", "internal/parser/packet_dsl_formattor.go", "no loop over an All<Child>() list found in the formatter")
	}
}
