package main

import (
	"fmt"
	"go/types"
	"sort"
	"strings"

	"golang.org/x/tools/go/ssa"
)

func init() {
	register("C14", "Frame argument: a generator's output is a function of (the model it reads, its own fresh instance state) iff nothing reachable from any Generate method or generator constructor writes to storage another generator can read. "+
		"Decided on SSA: every Store / MapUpdate / in-place mutator call (sort, slices.Sort/Reverse, copy) reachable from the six Generate methods and constructors is classified by its base object: fresh (allocated in the same function: local copy, composite literal) or per-instance generator state passes; "+
		"a model object, a slice/map reachable from one, or a package-level variable fails. Plus: no strcase.Configure* call, generator instances do not escape their closure in cmd.Compile, closures capture only the model. "+
		"This collapses the 64 subsets x 6! orders quantifier to one frame check; it does not compare output trees.", runC14)
}

var inPlaceMutators = map[string]int{ // callee -> index of mutated argument
	"sort.Strings": 0, "sort.Ints": 0, "sort.Float64s": 0, "sort.Slice": 0, "sort.SliceStable": 0, "sort.Sort": 0, "sort.Stable": 0,
	"slices.Sort": 0, "slices.SortFunc": 0, "slices.SortStableFunc": 0, "slices.Reverse": 0,
}

// baseClass classifies the object an address/aggregate value belongs to.
//   "fresh"    : Alloc / MakeMap / MakeSlice in this function
//   "instance" : reached through a field of a generator struct (internal/parser *Generator types)
//   "model"    : reached through a model-typed object that is not fresh
//   "global"   : package-level variable
//   "other"    : parameter / call result of non-model type
func (w *World) baseClass(v ssa.Value) (class string, via string) {
	return w.baseClassSeen(v, map[ssa.Value]bool{})
}

func (w *World) baseClassSeen(v ssa.Value, seen map[ssa.Value]bool) (class string, via string) {
	return w.baseClassFrom(v, seen, false)
}

// storedInto: what a load out of the freshly made container c (a local record, a made slice / map, a local array) can yield -
// the join over everything that was put there: element and member stores, copy(c, src), append(c, src...), whole-record copies.
// A container made here is fresh; the pointers it was filled with are whatever they were before.
func (w *World) storedInto(c ssa.Value, field int, seen map[ssa.Value]bool) (class string, via string) {
	worst, wvia := "fresh", "empty"
	join := func(c, via string) {
		if classRank(c) > classRank(worst) {
			worst, wvia = c, via
		}
	}
	var visit func(h ssa.Value, depth int)
	visit = func(h ssa.Value, depth int) {
		if depth > 6 || h.Referrers() == nil {
			return
		}
		for _, ref := range *h.Referrers() {
			switch r := ref.(type) {
			case *ssa.IndexAddr:
				if r.X != h {
					continue
				}
				for _, rr := range *r.Referrers() {
					if st, ok := rr.(*ssa.Store); ok && st.Addr == ssa.Value(r) {
						join(w.baseClassFrom(st.Val, seen, false))
					}
				}
			case *ssa.FieldAddr:
				if r.X != h || (field >= 0 && r.Field != field) {
					continue
				}
				for _, rr := range *r.Referrers() {
					if st, ok := rr.(*ssa.Store); ok && st.Addr == ssa.Value(r) {
						join(w.baseClassFrom(st.Val, seen, false))
					}
				}
			case *ssa.Store:
				if r.Addr == h {
					// whole-value store (p := *q; arr := [..]): what the copied value holds is what the source held
					if u, ok := r.Val.(*ssa.UnOp); ok && u.Op.String() == "*" {
						join(w.baseClassFrom(u.X, seen, true))
					} else if _, isConst := r.Val.(*ssa.Const); !isConst {
						join(w.baseClassFrom(r.Val, seen, true))
					}
				}
			case *ssa.MapUpdate:
				if r.Map == h {
					join(w.baseClassFrom(r.Value, seen, false))
				}
			case *ssa.Slice:
				if r.X == h {
					visit(r, depth+1)
				}
			case *ssa.Phi:
				visit(r, depth+1)
			case *ssa.Call:
				if b, ok := r.Call.Value.(*ssa.Builtin); ok {
					switch b.Name() {
					case "copy":
						if len(r.Call.Args) == 2 && r.Call.Args[0] == h {
							join(w.baseClassFrom(r.Call.Args[1], seen, true))
						}
					case "append":
						if len(r.Call.Args) == 2 && r.Call.Args[0] == h {
							join(w.baseClassFrom(r.Call.Args[1], seen, true))
							visit(r, depth+1)
						}
					}
				}
			}
		}
	}
	visit(c, 0)
	return worst, wvia
}

func (w *World) baseClassFrom(v ssa.Value, seen map[ssa.Value]bool, loaded bool) (class string, via string) {
	if seen[v] {
		return "fresh", "cycle"
	}
	seen[v] = true
	sawModel := ""
	sawGen := ""
	lastField := -1 // member of the record the walk last stepped out of
	// loaded: passed through a pointer/field load on the way down
	for i := 0; i < 128; i++ {
		t := v.Type()
		if n := modelTypeName(t); n != "" && sawModel == "" {
			sawModel = n
		}
		if nt := namedOf(t); nt != nil && nt.Obj().Pkg() != nil && nt.Obj().Pkg().Path() == modPath+"/internal/parser" && strings.HasSuffix(nt.Obj().Name(), "Generator") {
			sawGen = nt.Obj().Name()
		}
		switch x := v.(type) {
		case *ssa.Alloc:
			// go/ssa spills value parameters/receivers whose fields are addressed: the spill stands for the parameter
			var spilled ssa.Value
			for _, ref := range *x.Referrers() {
				if st, ok := ref.(*ssa.Store); ok && st.Addr == ssa.Value(x) {
					if p, ok := st.Val.(*ssa.Parameter); ok {
						spilled = p
					}
				}
			}
			if spilled != nil && loaded && !seen[spilled] {
				seen[spilled] = true
				v = spilled
				continue
			}
			// a local copy of a model struct (p := *padding) or a composite literal: fresh - but a pointer loaded out of it is
			// whatever was stored there
			if loaded {
				if c, via := w.storedInto(x, lastField, seen); c != "fresh" {
					if c == "other" {
						return w.finishClass(sawModel, sawGen, "other")
					}
					return c, via
				}
			}
			return "fresh", "alloc"
		case *ssa.MakeMap, *ssa.MakeSlice:
			if loaded {
				if c, via := w.storedInto(x, -1, seen); c != "fresh" {
					if c == "other" {
						return w.finishClass(sawModel, sawGen, "other")
					}
					return c, via
				}
			}
			return "fresh", "make"
		case *ssa.Global:
			return "global", x.Name()
		case *ssa.FieldAddr:
			tn, fn, _, _ := fieldOf(x)
			if sawModel == "" && isModelType(x.X.Type()) {
				sawModel = tn
			}
			_ = fn
			lastField = x.Field
			v = x.X
		case *ssa.Field:
			lastField = x.Field
			v = x.X
		case *ssa.IndexAddr:
			v = x.X
		case *ssa.Index:
			v = x.X
		case *ssa.Slice:
			v = x.X
		case *ssa.ChangeType:
			v = x.X
		case *ssa.MakeInterface:
			v = x.X
		case *ssa.ChangeInterface:
			v = x.X
		case *ssa.TypeAssert:
			v = x.X
		case *ssa.Extract:
			v = x.Tuple
		case *ssa.UnOp:
			if x.Op.String() == "*" {
				// loading a pointer/map/slice out of memory: the loaded thing is shared unless the memory is a fresh local var
				if al, ok := x.X.(*ssa.Alloc); ok {
					// local variable holding a pointer: look at what was stored into it
					var stored []ssa.Value
					for _, ref := range *al.Referrers() {
						if st, ok := ref.(*ssa.Store); ok && st.Addr == ssa.Value(al) {
							stored = append(stored, st.Val)
						}
					}
					if len(stored) == 1 {
						if seen[stored[0]] {
							return "fresh", "cycle"
						}
						seen[stored[0]] = true
						v = stored[0]
						continue
					}
					// several definitions: classify each, worst wins
					worst := "fresh"
					wvia := "alloc"
					for _, s := range stored {
						c, via := w.baseClassSeen(s, seen)
						if classRank(c) > classRank(worst) {
							worst, wvia = c, via
						}
					}
					if len(stored) == 0 {
						return "fresh", "alloc"
					}
					if sawModel != "" && worst == "other" {
						return "model", sawModel
					}
					return worst, wvia
				}
				loaded = true
				v = x.X
				continue
			}
			return w.finishClass(sawModel, sawGen, "other")
		case *ssa.Phi:
			worst := "fresh"
			wvia := "phi"
			for _, e := range x.Edges {
				if e == ssa.Value(x) {
					continue
				}
				if _, isPhi := e.(*ssa.Phi); isPhi {
					// avoid deep recursion on phi cycles: treat as other
					if classRank("other") > classRank(worst) {
						worst, wvia = "other", "phi"
					}
					continue
				}
				c, via := w.baseClassSeen(e, seen)
				if classRank(c) > classRank(worst) {
					worst, wvia = c, via
				}
			}
			if worst == "other" {
				return w.finishClass(sawModel, sawGen, "other")
			}
			return worst, wvia
		case *ssa.FreeVar:
			// a variable of the enclosing function that the closure captured: the free variable *is* what the enclosing function bound it
			// to where it made the closure (the address of its local, or the value it captured) - judged there
			var bound []ssa.Value
			if c := x.Parent(); c != nil && c.Parent() != nil {
				for j, fv := range c.FreeVars {
					if fv != x {
						continue
					}
					forEachInstr(c.Parent(), func(_ *ssa.BasicBlock, ins ssa.Instruction) {
						if mc, ok := ins.(*ssa.MakeClosure); ok && mc.Fn == ssa.Value(c) && j < len(mc.Bindings) {
							bound = append(bound, mc.Bindings[j])
						}
					})
				}
			}
			if len(bound) == 0 {
				return w.finishClass(sawModel, sawGen, "other")
			}
			if len(bound) == 1 && !seen[bound[0]] {
				seen[bound[0]] = true
				v = bound[0]
				continue
			}
			worst, wvia := "fresh", "captured"
			for _, bv := range bound {
				c, via := w.baseClassFrom(bv, seen, loaded)
				if classRank(c) > classRank(worst) {
					worst, wvia = c, via
				}
			}
			if worst == "other" {
				return w.finishClass(sawModel, sawGen, "other")
			}
			return worst, wvia
		case *ssa.Parameter:
			return w.finishClass(sawModel, sawGen, "other")
		case *ssa.Call:
			// results of calls: constructors of fresh things are not tracked; model-typed results are shared
			if f := x.Call.StaticCallee(); f != nil {
				n := f.String()
				if strings.HasPrefix(n, "(*strings.Builder)") || strings.HasPrefix(n, "fmt.") || strings.HasPrefix(n, "strings.") || n == "append" {
					return "fresh", n
				}
			}
			if b, ok := x.Call.Value.(*ssa.Builtin); ok && b.Name() == "append" {
				// append(x, ...) may alias x; an element loaded out of the result may come from either argument
				if loaded && len(x.Call.Args) == 2 {
					if c, via := w.baseClassFrom(x.Call.Args[1], seen, true); classRank(c) > classRank("instance") {
						if c == "other" {
							return w.finishClass(sawModel, sawGen, "other")
						}
						return c, via
					}
				}
				v = x.Call.Args[0]
				continue
			}
			return w.finishClass(sawModel, sawGen, "other")
		case *ssa.Const:
			return "fresh", "const"
		case *ssa.Lookup:
			v = x.X
		default:
			return w.finishClass(sawModel, sawGen, "other")
		}
	}
	return w.finishClass(sawModel, sawGen, "other")
}

func (w *World) finishClass(sawModel, sawGen, dflt string) (string, string) {
	if sawModel != "" {
		return "model", sawModel
	}
	if sawGen != "" {
		return "instance", sawGen
	}
	return dflt, ""
}

func classRank(c string) int {
	switch c {
	case "fresh":
		return 0
	case "instance":
		return 1
	case "other":
		return 2
	case "global":
		return 3
	case "model":
		return 4
	}
	return 2
}

// reslicedBase: v is (a phi/append chain over) x[:n] with an explicit upper bound -> returns that Slice instruction.
func reslicedBase(v ssa.Value) *ssa.Slice {
	seen := map[ssa.Value]bool{}
	var walk func(v ssa.Value, d int) *ssa.Slice
	walk = func(v ssa.Value, d int) *ssa.Slice {
		if d > 12 || seen[v] {
			return nil
		}
		seen[v] = true
		switch x := v.(type) {
		case *ssa.Slice:
			if _, isArr := x.X.Type().Underlying().(*types.Pointer); isArr {
				return nil // slice of a local array (varargs literal)
			}
			if x.High != nil || x.Max != nil {
				return x
			}
			return walk(x.X, d+1)
		case *ssa.Phi:
			for _, e := range x.Edges {
				if r := walk(e, d+1); r != nil {
					return r
				}
			}
		case *ssa.Call:
			if b, ok := x.Call.Value.(*ssa.Builtin); ok && b.Name() == "append" {
				return walk(x.Call.Args[0], d+1)
			}
		case *ssa.ChangeType:
			return walk(x.X, d+1)
		case *ssa.UnOp:
			// a list variable that lives in a cell (captured by a closure): whatever was assigned to it, anywhere
			if al := cellOf(x); al != nil {
				if _, isSl := x.Type().Underlying().(*types.Slice); isSl {
					stores, _ := cellStores(al)
					for _, st := range stores {
						if r := walk(st.Val, d+1); r != nil {
							return r
						}
					}
				}
			}
		}
		return nil
	}
	return walk(v, 0)
}

// mutatedParams: for each repo function, the parameter indices whose pointed-to storage (slice backing array, map, pointee)
// the function may write, directly or through callees.
func mutatedParams(w *World) map[*ssa.Function]map[int]string {
	sum := map[*ssa.Function]map[int]string{}
	pidx := func(fn *ssa.Function, v ssa.Value) int {
		root := valueRoot(v)
		// look through append/phi/reslice chains
		for i := 0; i < 16; i++ {
			switch x := root.(type) {
			case *ssa.Call:
				if b, ok := x.Call.Value.(*ssa.Builtin); ok && b.Name() == "append" {
					root = valueRoot(x.Call.Args[0])
					continue
				}
			case *ssa.Phi:
				for _, e := range x.Edges {
					if p, ok := valueRoot(e).(*ssa.Parameter); ok {
						root = p
					}
				}
			}
			break
		}
		for i, p := range fn.Params {
			if root == ssa.Value(p) {
				return i
			}
		}
		return -1
	}
	mark := func(fn *ssa.Function, i int, why string) bool {
		if i < 0 {
			return false
		}
		// value-typed struct parameters are copies: writing their own fields is local, but maps/slices/pointers inside are shared
		if sum[fn] == nil {
			sum[fn] = map[int]string{}
		}
		if _, ok := sum[fn][i]; ok {
			return false
		}
		sum[fn][i] = why
		return true
	}
	changed := true
	for changed {
		changed = false
		for _, fn := range w.srcFuncs {
			forEachInstr(fn, func(b *ssa.BasicBlock, ins ssa.Instruction) {
				switch x := ins.(type) {
				case *ssa.Store:
					// store through a pointer/slice element rooted at a parameter (not a store into the local copy of a struct param)
					if _, isAlloc := valueRoot(x.Addr).(*ssa.Alloc); isAlloc {
						return
					}
					if ia, ok := x.Addr.(*ssa.IndexAddr); ok {
						if mark(fn, pidx(fn, ia.X), "stores into an element of it") {
							changed = true
						}
						return
					}
					if fa, ok := x.Addr.(*ssa.FieldAddr); ok {
						if mark(fn, pidx(fn, fa.X), "stores into a field through it") {
							changed = true
						}
					}
				case *ssa.MapUpdate:
					if mark(fn, pidx(fn, x.Map), "updates the map") {
						changed = true
					}
				case ssa.CallInstruction:
					cc := x.Common()
					if b, ok := cc.Value.(*ssa.Builtin); ok && b.Name() == "append" && len(cc.Args) > 0 {
						if sl := reslicedBase(cc.Args[0]); sl != nil {
							if mark(fn, pidx(fn, sl.X), "appends onto a re-slice x[:n] of it (overwrites its elements)") {
								changed = true
							}
						}
						return
					}
					f := cc.StaticCallee()
					if f == nil {
						return
					}
					n := f.String()
					if i := strings.Index(n, "["); i > 0 {
						n = n[:i]
					}
					if idx, ok := inPlaceMutators[n]; ok && idx < len(cc.Args) {
						if mark(fn, pidx(fn, cc.Args[idx]), "sorts/reverses it in place") {
							changed = true
						}
						return
					}
					if s := sum[f]; s != nil {
						for i, why := range s {
							if i < len(cc.Args) {
								if mark(fn, pidx(fn, cc.Args[i]), "passes it to "+fnKey(f)+" which "+why) {
									changed = true
								}
							}
						}
					}
				}
			})
		}
	}
	return sum
}

type frameFinding struct {
	rule, what, pos string
	typ             types.Type // type of the written storage when it is a sequence (slice / array element), else nil
}

// scanFrame: the writes of fn that leave fresh / per-instance storage.
func scanFrame(w *World, fn *ssa.Function, mparams map[*ssa.Function]map[int]string, nWrites *int) []frameFinding {
	const ruleFrame = "C14/model-frame"
	const ruleGlobal = "C14/no-shared-state"
	var fs []frameFinding
		forEachInstr(fn, func(b *ssa.BasicBlock, ins ssa.Instruction) {
			switch x := ins.(type) {
			case *ssa.Store:
				*nWrites++
				cls, via := w.baseClass(x.Addr)
				switch cls {
				case "model":
					fs = append(fs, frameFinding{ruleFrame, fmt.Sprintf("store to %s through a shared %s", describeTarget(x.Addr), via), w.instrPos(ins), storeSeqType(x.Addr)})
				case "global":
					fs = append(fs, frameFinding{ruleGlobal, fmt.Sprintf("store to package-level variable %s", via), w.instrPos(ins), nil})
				}
			case *ssa.MapUpdate:
				*nWrites++
				cls, via := w.baseClass(x.Map)
				switch cls {
				case "model":
					fs = append(fs, frameFinding{ruleFrame, fmt.Sprintf("map update on %s reached through shared %s", describeTarget(x.Map), via), w.instrPos(ins), nil})
				case "global":
					fs = append(fs, frameFinding{ruleGlobal, fmt.Sprintf("map update on package-level map %s", via), w.instrPos(ins), nil})
				}
			case ssa.CallInstruction:
				cc := x.Common()
				if f := cc.StaticCallee(); f != nil {
					if mp := mparams[f]; mp != nil {
						for i, why := range mp {
							if i >= len(cc.Args) {
								continue
							}
							cls, via := w.baseClass(cc.Args[i])
							if cls == "model" || cls == "global" {
								fs = append(fs, frameFinding{ruleFrame, fmt.Sprintf("passes storage reached through shared %s to %s, which %s", via, fnKey(f), why), w.instrPos(ins), cc.Args[i].Type()})
							}
						}
					}
					n := f.String()
					if i := strings.Index(n, "["); i > 0 {
						n = n[:i]
					}
					if idx, ok := inPlaceMutators[n]; ok && idx < len(cc.Args) {
						*nWrites++
						cls, via := w.baseClass(cc.Args[idx])
						if cls == "model" || cls == "global" {
							fs = append(fs, frameFinding{ruleFrame, fmt.Sprintf("%s mutates in place a slice reached through shared %s", n, via), w.instrPos(ins), sliceArgType(cc.Args[idx])})
						}
					}
					if strings.HasPrefix(n, "github.com/iancoleman/strcase.Configure") {
						fs = append(fs, frameFinding{ruleGlobal, "call to " + n + " changes process-wide case-conversion state", w.instrPos(ins), nil})
					}
				}
				if b, ok := cc.Value.(*ssa.Builtin); ok && b.Name() == "append" && len(cc.Args) > 0 {
					// append(x[:n], ...) writes into x's visible backing array when x is shared
					if sl := reslicedBase(cc.Args[0]); sl != nil {
						*nWrites++
						cls, via := w.baseClass(sl.X)
						if cls == "model" || cls == "global" {
							fs = append(fs, frameFinding{ruleFrame, fmt.Sprintf("append onto a re-slice (x[:n]) of a slice reached through shared %s overwrites its elements in place", via), w.instrPos(ins), sl.X.Type()})
						}
					}
				}
				if b, ok := cc.Value.(*ssa.Builtin); ok && (b.Name() == "copy" || b.Name() == "clear" || b.Name() == "delete") && len(cc.Args) > 0 {
					*nWrites++
					cls, via := w.baseClass(cc.Args[0])
					if cls == "model" || cls == "global" {
						fs = append(fs, frameFinding{ruleFrame, fmt.Sprintf("%s() on storage reached through shared %s", b.Name(), via), w.instrPos(ins), cc.Args[0].Type()})
					}
				}
			}
		})
	return fs
}

// storeSeqType: the slice type when addr is an element of a slice (x[i] = ...), or the type of a slice-typed member being replaced.
func storeSeqType(addr ssa.Value) types.Type {
	switch a := addr.(type) {
	case *ssa.IndexAddr:
		return a.X.Type()
	case *ssa.FieldAddr:
		if p, ok := a.Type().(*types.Pointer); ok {
			if _, isSl := p.Elem().Underlying().(*types.Slice); isSl {
				return p.Elem()
			}
		}
	}
	return nil
}

func sliceArgType(v ssa.Value) types.Type {
	if mi, ok := v.(*ssa.MakeInterface); ok {
		return mi.X.Type()
	}
	return v.Type()
}

func c14Subjects(w *World) ([]*ssa.Function, error) {
	gens, err := w.generateFuncs()
	if err != nil {
		return nil, err
	}
	var roots []*ssa.Function
	for _, g := range generators {
		roots = append(roots, gens[g.Lang])
		c := w.Parser.Func(g.Ctor)
		if c == nil {
			return nil, fmt.Errorf("anchor unresolved: parser.%s", g.Ctor)
		}
		roots = append(roots, c)
	}
	reach := w.subjectsOnly(w.reachable(roots, func(f *ssa.Function) bool { return w.isRepoLike(f) }))
	var out []*ssa.Function
	for f := range reach {
		out = append(out, f)
	}
	sort.Slice(out, func(i, j int) bool { return fnKey(out[i]) < fnKey(out[j]) })
	return out, nil
}

// describeTarget gives a line-free description of the written location.
func describeTarget(addr ssa.Value) string {
	switch x := addr.(type) {
	case *ssa.FieldAddr:
		tn, fn, _, _ := fieldOf(x)
		return tn + "." + fn
	case *ssa.IndexAddr:
		return describeTarget(x.X) + "[i]"
	case *ssa.UnOp:
		return describeTarget(x.X)
	case *ssa.Global:
		return "global " + x.Name()
	case *ssa.Field:
		tn, fn, _, _ := fieldOf(x)
		return tn + "." + fn
	case *ssa.Phi:
		return "phi(" + x.Type().String() + ")"
	}
	return types.TypeString(addr.Type(), func(p *types.Package) string { return p.Name() })
}

func runC14(w *World, r *Report) {
	entryPointsKeepNoState(w, r, "C14", compileEntryRoots(w), "reachable from compile", "code that runs once per requested target writes package-level storage: what a target gets depends on which targets were handled before it")

	subjects, err := c14Subjects(w)
	if err != nil {
		r.fatal("%v", err)
		return
	}
	r.note("subjects: %d functions reachable from the 6 Generate methods and 6 constructors", len(subjects))
	const ruleFrame = "C14/model-frame"
	const ruleGlobal = "C14/no-shared-state"
	nWrites := 0
	mparams := mutatedParams(w)
	for _, fn := range subjects {
		fs := scanFrame(w, fn, mparams, &nWrites)
		if len(fs) == 0 {
			r.pass(ruleFrame, fnKey(fn), w.pos(fn.Pos()), "no write outside fresh/instance storage")
			continue
		}
		// one obligation per (function, target description)
		seen := map[string]bool{}
		for _, f := range fs {
			k := fnKey(fn) + ": " + f.what
			if seen[f.rule+k] {
				continue
			}
			seen[f.rule+k] = true
			r.fail(f.rule, k, f.pos, "generator-reachable code writes to storage other generators read; outputs can depend on which generators ran before")
		}
	}
	r.floor(ruleFrame, 100)
	r.note("write instructions classified: %d", nWrites)
	// each target's files reach that target's own directory whatever else was requested: the pairing (outputs[k], files of generator k)
	// is intact at every write under cmd.Compile (a table keyed by the output path instead of the target loses it when two targets share
	// a directory)
	r.refile("C16/compile", "C14/target-pairing", func(sr *Report) { c16Compile(w, sr) }, func(o Obligation) bool {
		return strings.Contains(o.Key, "receives the files of") || strings.Contains(o.Key, "operands resolve")
	})
	// what one target leaves on disk is not touched on behalf of another: under compile only the writer mutates the file system
	r.refile("C16/compile-writes-only-in-writer", "C14/compile-writes-only-in-writer", func(sr *Report) { c16Compile(w, sr) }, nil)

	// ---- driver: generator instances are per-closure, closures capture only the model ----
	const ruleDrv = "C14/driver"
	compile := w.Cmd.Func("Compile")
	if compile == nil {
		r.fatal("anchor unresolved: cmd.Compile")
		return
	}
	ctorSeen := 0
	isCtorFn := func(f *ssa.Function) bool {
		if f == nil || fnPkg(f) != w.Parser {
			return false
		}
		for _, g := range generators {
			if f.Name() == g.Ctor {
				return true
			}
		}
		return false
	}
	// a type whose values are generators: it (or, for a type parameter, its constraint) has a Generate method
	isGeneratorType := func(t types.Type) bool {
		if t == nil {
			return false
		}
		obj, _, _ := types.LookupFieldOrMethod(t, true, w.Parser.Pkg, "Generate")
		_, isFn := obj.(*types.Func)
		return isFn
	}
	// the signature of a generator constructor: from the model (only) to a generator
	isCtorSig := func(t types.Type) bool {
		sig, ok := t.Underlying().(*types.Signature)
		if !ok || sig.Params().Len() != 1 || sig.Results().Len() != 1 {
			return false
		}
		pt, ok := sig.Params().At(0).Type().(*types.Pointer)
		return ok && typeIs(pt.Elem(), modPath+"/internal/model", "BinaryModel") && isGeneratorType(sig.Results().At(0).Type())
	}
	// a call through a function value (table member, captured or passed constructor) that yields a generator instance
	yieldsGenerator := func(call *ssa.Call) bool {
		if call.Call.IsInvoke() || call.Call.StaticCallee() != nil {
			return false
		}
		if _, isB := call.Call.Value.(*ssa.Builtin); isB {
			return false
		}
		return isCtorSig(call.Call.Value.Type())
	}
	// can running fn construct or drive a generator? (a closure that cannot - a bound method handed out as a lookup callback, say -
	// is not a generator closure, whatever it captures)
	var reachesGenerator func(fn *ssa.Function, depth int) bool
	reachesGenerator = func(fn *ssa.Function, depth int) bool {
		if fn == nil || fn.Blocks == nil {
			return false
		}
		if depth > 4 {
			return true
		}
		found := false
		forEachInstr(fn, func(_ *ssa.BasicBlock, ins ssa.Instruction) {
			c, ok := ins.(ssa.CallInstruction)
			if !ok || found {
				return
			}
			cc := c.Common()
			switch {
			case cc.IsInvoke():
				found = cc.Method.Name() == "Generate"
			case cc.StaticCallee() != nil:
				f := cc.StaticCallee()
				if fnPkg(f) == w.Parser {
					found = true
				} else if fnPkg(f) == w.Cmd || (f.Parent() != nil && fnPkg(f.Parent()) == w.Cmd) {
					found = reachesGenerator(f, depth+1)
				}
			default:
				if _, isB := cc.Value.(*ssa.Builtin); !isB {
					found = true // a function value: may be anything
				}
			}
		})
		for _, an := range fn.AnonFuncs {
			if !found {
				found = reachesGenerator(an, depth+1)
			}
		}
		return found
	}
	dynCtorCalls := 0
	var scan func(fn *ssa.Function)
	scan = func(fn *ssa.Function) {
		forEachInstr(fn, func(b *ssa.BasicBlock, ins ssa.Instruction) {
			// round 9: a closure of the driver that assigns a variable it captured (`binModel = pruned(binModel)` with `=` where `:=`
			// was meant) replaces what the closures of the targets generated after it read
			if st, ok := ins.(*ssa.Store); ok && fn.Parent() != nil {
				if fv, ok := st.Addr.(*ssa.FreeVar); ok {
					if _, isFn := fv.Type().(*types.Pointer).Elem().Underlying().(*types.Signature); !isFn && !isErrorType(fv.Type().(*types.Pointer).Elem()) {
						r.fail(ruleDrv, fmt.Sprintf("%s assigns the captured variable of type %s", fnKey(fn.Parent()), types.TypeString(fv.Type().(*types.Pointer).Elem(), shortQual)), w.instrPos(ins), "a closure of the driver assigns a variable captured from "+fnKey(fn.Parent())+" ("+fv.Name()+"): the targets generated after this one read what it stored - which files they produce depends on which other targets were requested")
					}
				}
			}
			if mc, ok := ins.(*ssa.MakeClosure); ok && reachesGenerator(mc.Fn.(*ssa.Function), 0) {
				for _, bnd := range mc.Bindings {
					t := bnd.Type()
					if p, ok := t.(*types.Pointer); ok {
						t = p.Elem() // captured variables are passed by reference
					}
					if isCtorSig(t) {
						continue // a constructor carried as a value holds no instance; if it is itself a closure it is judged on its own
					}
					if !typeIs(t, modPath+"/internal/model", "BinaryModel") {
						r.fail(ruleDrv, fmt.Sprintf("%s closure captures %s", fnKey(fn), types.TypeString(t, nil)), w.instrPos(ins), "generator closures must capture only the parsed model")
					}
				}
			}
			call, ok := ins.(*ssa.Call)
			if !ok {
				return
			}
			f := call.Call.StaticCallee()
			ctorName := ""
			switch {
			case isCtorFn(f):
				ctorName = f.Name()
				ctorSeen++
			case yieldsGenerator(call):
				// the instance is made here, by whichever constructor the function value holds
				ctorName = "a generator through a constructor value"
				dynCtorCalls++
			default:
				return
			}
			escapes := false
			for _, ref := range *call.Referrers() {
				if c2, ok := ref.(ssa.CallInstruction); ok {
					cc := c2.Common()
					// allowed: used as receiver of Generate (static or invoke) directly, or dereferenced for a value-receiver call
					if (cc.IsInvoke() && cc.Value == ssa.Value(call)) || (len(cc.Args) > 0 && cc.Args[0] == ssa.Value(call)) {
						continue
					}
				}
				if u, ok := ref.(*ssa.UnOp); ok && u.Op.String() == "*" {
					ok2 := true
					for _, r2 := range *u.Referrers() {
						if c3, ok := r2.(ssa.CallInstruction); !ok || len(c3.Common().Args) == 0 || c3.Common().Args[0] != ssa.Value(u) {
							ok2 = false
						}
					}
					if ok2 {
						continue
					}
				}
				var mi ssa.Value
				switch cv := ref.(type) {
				case *ssa.MakeInterface:
					mi = cv
				case *ssa.ChangeType:
					mi = cv // a type parameter's value converted to the interface
				case *ssa.ChangeInterface:
					mi = cv
				}
				if mi != nil {
					// handed out as parser.Generator: fine when it is only returned (a fresh instance per call of the closure)
					onlyReturned := true
					for _, r2 := range *mi.Referrers() {
						if _, isRet := r2.(*ssa.Return); !isRet {
							onlyReturned = false
						}
					}
					if onlyReturned {
						continue
					}
				}
				if _, isRet := ref.(*ssa.Return); isRet {
					continue
				}
				escapes = true
			}
			key := fmt.Sprintf("%s constructs %s", fnKey(fn), ctorName)
			if escapes {
				r.fail(ruleDrv, key, w.instrPos(ins), "generator instance flows somewhere other than its own Generate call: instance state (visited sets) may be shared")
			} else {
				r.pass(ruleDrv, key, w.instrPos(ins), "instance used only as receiver of Generate")
			}
		})
		for _, an := range fn.AnonFuncs {
			scan(an)
		}
	}
	// Compile, the cmd helpers it calls, and every closure of the package (table entries may be package-level closures)
	scanned := map[*ssa.Function]bool{}
	for _, fn := range newDriver(w).sortedFns() {
		if !scanned[fn] {
			scanned[fn] = true
			scan(fn)
		}
	}
	for _, fn := range w.srcFuncs {
		if fn.Pkg == w.Cmd && fn.Parent() != nil && !scanned[fn] && !scanned[fn.Parent()] {
			scanned[fn] = true
			scan(fn)
		}
		// named functions used as values (constructor adapters referenced from a target table)
		if fn.Pkg == w.Cmd && fn.Parent() == nil && !scanned[fn] && w.addressTaken(fn) {
			scanned[fn] = true
			scan(fn)
		}
	}
	// constructors handed around as values (rows of a target table, arguments of an adapter) are constructions when something under
	// Compile calls such a value
	if dynCtorCalls > 0 {
		valueCtors := map[string]bool{}
		for _, fn := range w.srcFuncs {
			if fn.Pkg != w.Cmd && (fn.Parent() == nil || fn.Parent().Pkg != w.Cmd) {
				continue
			}
			forEachInstr(fn, func(_ *ssa.BasicBlock, ins ssa.Instruction) {
				var callee ssa.Value
				if c, ok := ins.(ssa.CallInstruction); ok && !c.Common().IsInvoke() {
					callee = c.Common().Value
				}
				for _, op := range ins.Operands(nil) {
					if op == nil || *op == nil || *op == callee {
						continue
					}
					if f, ok := (*op).(*ssa.Function); ok && isCtorFn(f) {
						valueCtors[f.Name()] = true
					}
				}
			})
		}
		ctorSeen += len(valueCtors)
	}
	r.RuleCounts[ruleDrv] += 0
	if ctorSeen < len(generators) {
		r.fail(ruleDrv, "constructor-calls", w.pos(compile.Pos()), fmt.Sprintf("expected %d generator constructions under cmd.Compile, found %d", len(generators), ctorSeen))
	}
	r.assume("no unsafe/reflect writes in subject code; html/template receives value copies")
	r.assume("field-based heap abstraction: a value loaded from a model object's field is shared; a local Alloc (copy, composite literal) is fresh until proven otherwise")
}
