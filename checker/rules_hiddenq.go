package main

// Hidden-channel queries that are not written as a direct method call.
//
// The formatter finds comments with (*antlr.CommonTokenStream).GetHiddenTokensToLeft/Right. The rules of C09/C10 that start from
// such a query (anchors, delivery, emit-once, same-line test, comment-ends-its-line, GetTokenIndex use) must find it when it is
// invoked through a function value as well: a method expression `(*antlr.CommonTokenStream).GetHiddenTokensToLeft`, a bound method
// value `stream.GetHiddenTokensToLeft`, a package-level variable / record member / local holding one of them, or a parameter of
// function type that the call sites bind. Which side is asked is then a property of the *call site of the helper*, not of the helper.

import (
	"go/constant"
	"go/token"
	"go/types"
	"strings"

	"golang.org/x/tools/go/ssa"
)

var globalStoresMemo = map[*ssa.Global][]ssa.Value{}
var globalStoresOpen = map[*ssa.Global]bool{}

// globalStoredValues: every value stored into package-level variable g by the repo (package initialisers included). open reports
// that the variable's address is used other than by loads and stores (it may then hold values the scan does not see).
func globalStoredValues(g *ssa.Global) (vals []ssa.Value, open bool) {
	if v, ok := globalStoresMemo[g]; ok {
		return v, globalStoresOpen[g]
	}
	if theWorld == nil {
		return nil, true
	}
	for fn := range theWorld.allFuncs {
		if fn.Blocks == nil {
			continue
		}
		if p := pkgOfFunc(fn); p != g.Pkg && p != theWorld.Parser && p != theWorld.Model && p != theWorld.Cmd {
			continue
		}
		forEachInstr(fn, func(_ *ssa.BasicBlock, ins ssa.Instruction) {
			switch x := ins.(type) {
			case *ssa.Store:
				if x.Addr == ssa.Value(g) {
					vals = append(vals, x.Val)
				}
				if x.Val == ssa.Value(g) {
					open = true
				}
			case *ssa.UnOp:
			case *ssa.DebugRef:
			default:
				for _, op := range ins.Operands(nil) {
					if op != nil && *op == ssa.Value(g) {
						open = true
					}
				}
			}
		})
	}
	// deterministic order
	sortValuesByPos(vals)
	globalStoresMemo[g] = vals
	globalStoresOpen[g] = open
	return vals, open
}

func sortValuesByPos(vs []ssa.Value) {
	for i := 1; i < len(vs); i++ {
		for j := i; j > 0 && vs[j].Pos() < vs[j-1].Pos(); j-- {
			vs[j], vs[j-1] = vs[j-1], vs[j]
		}
	}
}

// throughWrapper: the method behind a synthetic forwarding function of go/ssa (the thunk of a method expression, the wrapper of a
// bound method value, a promoted-method wrapper): such a function consists of one call to the method it stands for.
func throughWrapper(f *ssa.Function) *ssa.Function {
	for i := 0; i < 3 && f != nil && f.Synthetic != "" && f.Blocks != nil; i++ {
		var tgt *ssa.Function
		n := 0
		forEachInstr(f, func(_ *ssa.BasicBlock, ins ssa.Instruction) {
			if c, ok := ins.(ssa.CallInstruction); ok {
				n++
				tgt = c.Common().StaticCallee()
			}
		})
		if n != 1 || tgt == nil {
			return f
		}
		f = tgt
	}
	return f
}

// hiddenQueryKindOf: "left" / "right" when f is (a forwarding wrapper of) one of the token stream's hidden-channel queries.
func hiddenQueryKindOf(f *ssa.Function) string {
	f = throughWrapper(f)
	if f == nil {
		return ""
	}
	switch f.Name() {
	case "GetHiddenTokensToLeft":
		return "left"
	case "GetHiddenTokensToRight":
		return "right"
	}
	return ""
}

// maybeHiddenQuerySig: a function type that can hold a hidden-channel query: it yields a slice of tokens.
func maybeHiddenQuerySig(t types.Type) bool {
	sig, ok := t.Underlying().(*types.Signature)
	if !ok || sig.Results().Len() != 1 {
		return false
	}
	sl, ok := sig.Results().At(0).Type().Underlying().(*types.Slice)
	return ok && strings.HasSuffix(types.TypeString(sl.Elem(), shortQual), "antlr.Token")
}

// hiddenQueryKindsOfValue: the sides asked by function value v when every function it may be is a hidden-channel query (nil
// otherwise: a value that may also be something else is not "the query").
func hiddenQueryKindsOfValue(v ssa.Value) []string {
	if v == nil || !maybeHiddenQuerySig(v.Type()) {
		return nil
	}
	if ld, ok := stripIdentity(v).(*ssa.UnOp); ok && ld.Op == token.MUL {
		if g, ok := ld.X.(*ssa.Global); ok {
			if _, open := globalStoredValues(g); open {
				return nil // the variable's address is handed out: it may hold functions the scan does not see
			}
		}
	}
	ts := closureTargets(v, 0, map[ssa.Value]bool{})
	if len(ts) == 0 {
		return nil
	}
	var kinds []string
	for _, t := range ts {
		k := hiddenQueryKindOf(t)
		if k == "" {
			return nil
		}
		dup := false
		for _, x := range kinds {
			if x == k {
				dup = true
			}
		}
		if !dup {
			kinds = append(kinds, k)
		}
	}
	if len(kinds) == 2 && kinds[0] != "left" {
		kinds[0], kinds[1] = kinds[1], kinds[0]
	}
	return kinds
}

// hiddenQueryAt: the hidden-channel queries call c runs - written as a method call, or made through a function value all of whose
// possible targets are such queries. kinds is nil when c is no hidden-channel query.
func hiddenQueryAt(c ssa.CallInstruction) (kinds []string) {
	cc := c.Common()
	if f := cc.StaticCallee(); f != nil {
		if k := hiddenQueryKindOf(f); k != "" {
			return []string{k}
		}
		return nil
	}
	if cc.IsInvoke() {
		return nil
	}
	if _, isB := cc.Value.(*ssa.Builtin); isB {
		return nil
	}
	return hiddenQueryKindsOfValue(cc.Value)
}

func isHiddenQueryCall(c ssa.CallInstruction) bool { return len(hiddenQueryAt(c)) > 0 }

// hiddenQueryIndexArg: the token-index operand of a hidden-channel query (tokenIndex, channel are the last two operands whether or
// not the stream is an operand too - it is not for a bound method value).
func hiddenQueryIndexArg(c ssa.CallInstruction) ssa.Value {
	args := c.Common().Args
	if len(args) < 2 {
		return nil
	}
	return args[len(args)-2]
}

// hiddenQueryAnchor: the token whose neighbours are asked for: idx is tok.GetTokenIndex().
func hiddenQueryAnchor(c ssa.CallInstruction) ssa.Value {
	idx, ok := stripIdentity(hiddenQueryIndexArg(c)).(*ssa.Call)
	if !ok || !idx.Call.IsInvoke() || idx.Call.Method.Name() != "GetTokenIndex" {
		return nil
	}
	return idx.Call.Value
}

// calledParam: the parameter of fn (index, receiver included) whose function value call c invokes, -1 if c does not call a parameter.
func calledParam(fn *ssa.Function, c ssa.CallInstruction) int {
	cc := c.Common()
	if cc.IsInvoke() || cc.StaticCallee() != nil {
		return -1
	}
	return paramIndexOf(fn, cc.Value)
}

func paramIndexOf(fn *ssa.Function, v ssa.Value) int {
	p, ok := stripIdentity(v).(*ssa.Parameter)
	if !ok {
		return -1
	}
	for i, q := range fn.Params {
		if q == p {
			return i
		}
	}
	return -1
}

// ---- the seen set as a type with a test-and-set method ----

type testAndSet struct {
	mapParam, keyParam int
}

// testAndSetHelper: f(m, k) bool is a test-and-set on map m: it returns the constant true only where the lookup of k in m missed and
// k was inserted into m, and nothing but constants. (`func (s set) claim(t T) bool { if _, ok := s[t]; ok { return false }; s[t] =
// struct{}{}; return true }`.) The true edge of a call is then the not-yet-seen edge of the lookup, with the insert on it.
func testAndSetHelper(f *ssa.Function) (testAndSet, bool) {
	if f == nil || f.Blocks == nil || f.Signature.Results().Len() != 1 {
		return testAndSet{}, false
	}
	if b, ok := f.Signature.Results().At(0).Type().Underlying().(*types.Basic); !ok || b.Kind() != types.Bool {
		return testAndSet{}, false
	}
	for _, t := range membershipTests(f) {
		mi, ki := paramIndexOf(f, t.lookup.X), paramIndexOf(f, t.lookup.Index)
		if mi < 0 || ki < 0 {
			continue
		}
		okAll, sawTrue := true, false
		for _, b := range f.Blocks {
			ret, isRet := b.Instrs[len(b.Instrs)-1].(*ssa.Return)
			if !isRet {
				continue
			}
			k, isK := ret.Results[0].(*ssa.Const)
			if !isK || k.Value == nil || k.Value.Kind() != constant.Bool {
				// a phi of constants: judge each incoming edge
				if phi, isPhi := ret.Results[0].(*ssa.Phi); isPhi && phi.Block() == b {
					for i, e := range phi.Edges {
						ek, isEK := e.(*ssa.Const)
						if !isEK || ek.Value == nil || ek.Value.Kind() != constant.Bool {
							okAll = false
							continue
						}
						if constant.BoolVal(ek.Value) {
							sawTrue = true
							if !missAndInsert(f, t, b.Preds[i], mi, ki) {
								okAll = false
							}
						}
					}
					continue
				}
				okAll = false
				continue
			}
			if !constant.BoolVal(k.Value) {
				continue
			}
			sawTrue = true
			if !missAndInsert(f, t, b, mi, ki) {
				okAll = false
			}
		}
		if okAll && sawTrue {
			return testAndSet{mi, ki}, true
		}
	}
	return testAndSet{}, false
}

// missAndInsert: block b is dominated by the miss edge of test t, and an insert of parameter ki into map parameter mi lies on the way
// (in b or in a block that dominates b and is itself behind the miss edge).
func missAndInsert(f *ssa.Function, t membership, b *ssa.BasicBlock, mi, ki int) bool {
	if !edgeDominates(t.branch, 1-t.presentSucc, b) {
		return false
	}
	found := false
	forEachInstr(f, func(b2 *ssa.BasicBlock, ins ssa.Instruction) {
		mu, ok := ins.(*ssa.MapUpdate)
		if !ok || paramIndexOf(f, mu.Map) != mi || paramIndexOf(f, mu.Key) != ki {
			return
		}
		if (b2 == b || b2.Dominates(b)) && edgeDominates(t.branch, 1-t.presentSucc, b2) {
			found = true
		}
	})
	return found
}

// testAndSetEdge: call c is a test-and-set (see testAndSetHelper) whose result decides the branch that ends its block; returns the
// map and key operands and the successor taken when the key was new.
func testAndSetEdge(c *ssa.Call) (m, key ssa.Value, newSucc int, ok bool) {
	var ts testAndSet
	found := false
	for _, f := range calleesOfAll(c) {
		x, isTS := testAndSetHelper(f)
		if !isTS || (found && x != ts) {
			return nil, nil, 0, false
		}
		ts, found = x, true
	}
	if !found || ts.mapParam >= len(c.Call.Args) || ts.keyParam >= len(c.Call.Args) {
		return nil, nil, 0, false
	}
	cond := branchCond(c.Block())
	if cond == nil {
		return nil, nil, 0, false
	}
	neg := false
	for {
		if u, isU := cond.(*ssa.UnOp); isU && u.Op == token.NOT {
			cond, neg = u.X, !neg
			continue
		}
		break
	}
	if cond != ssa.Value(c) {
		return nil, nil, 0, false
	}
	newSucc = 0
	if neg {
		newSucc = 1
	}
	return c.Call.Args[ts.mapParam], c.Call.Args[ts.keyParam], newSucc, true
}

// funcsReadingLine: function value v may be a function that reads a token's line (GetLine), in itself or in a closure it makes.
func funcValueReadsLine(v ssa.Value) bool {
	if _, ok := v.Type().Underlying().(*types.Signature); !ok {
		return false
	}
	for _, t := range closureTargets(v, 0, map[ssa.Value]bool{}) {
		t = throughWrapper(t)
		if t == nil || t.Blocks == nil {
			continue
		}
		reads := false
		for _, g := range append([]*ssa.Function{t}, t.AnonFuncs...) {
			forEachInstr(g, func(_ *ssa.BasicBlock, ins ssa.Instruction) {
				if c, ok := ins.(*ssa.Call); ok && c.Call.IsInvoke() && c.Call.Method.Name() == "GetLine" {
					reads = true
				}
			})
		}
		if reads {
			return true
		}
	}
	return false
}
