package main

// Rules written for the round-7 seeds.

import (
	"fmt"
	"go/token"
	"go/types"
	"sort"
	"strings"

	"golang.org/x/tools/go/ssa"
)

// */name-keyed-set-over-inline-packets: a "seen" set keyed by Packet.Name identifies a packet only among the *declared* packets.
//
// The names of declared packets are unique (the duplicate is rejected). An inline object `Leg { ... }` is a packet too, built by the
// visitor for its owner, and its name is unique only among the members of that owner: two packets may each declare an inline `Leg`
// with another layout, and an inline object may be called like a declared packet. A set that outlives one packet (a member of the
// generator, a parameter handed down the recursion, a captured variable) and is keyed by the name alone therefore confuses them:
// the second `Leg` is "already resolved" (its references stay unlinked and unvalidated - C11/C12), "already emitted" (its members are
// encoded with the first one's layout - C01/C07) or "already ordered" (its dissector is missing - C15).
// Decided: for every lookup `set[p.Name]` in a map that is also updated under a packet's name in the same function and that is not
// made in that function, the packet p - followed through parameters to the call sites, two levels - is never the RefPacket of an
// object attribute unless the IsIner flag of that attribute is known to be false at that point.
func nameKeyedSetOverInline(w *World, r *Report, prop string, inScope func(fn *ssa.Function) bool, why string) {
	rule := prop + "/name-keyed-set-over-inline-packets"
	packetOfName := func(v ssa.Value) ssa.Value {
		ld, ok := stripIdentity(v).(*ssa.UnOp)
		if !ok || ld.Op != token.MUL {
			return nil
		}
		fa, ok := ld.X.(*ssa.FieldAddr)
		if !ok {
			return nil
		}
		if tn, f, _, _ := fieldOf(fa); tn != "Packet" || f != "Name" {
			return nil
		}
		return stripIdentity(fa.X)
	}
	// mayBeInline: the packet value can be the packet of an inline object; the witness says where
	var mayBeInline func(fn *ssa.Function, v ssa.Value, at *ssa.BasicBlock, depth int, seen map[ssa.Value]bool) string
	mayBeInline = func(fn *ssa.Function, v ssa.Value, at *ssa.BasicBlock, depth int, seen map[ssa.Value]bool) string {
		v = stripIdentity(v)
		if v == nil || seen[v] || depth > 3 {
			return ""
		}
		seen[v] = true
		switch x := v.(type) {
		case *ssa.UnOp:
			if x.Op != token.MUL {
				return ""
			}
			if fa, ok := x.X.(*ssa.FieldAddr); ok {
				if tn, f, _, _ := fieldOf(fa); tn == "ObjectFieldAttribute" && f == "RefPacket" {
					if w.underNotIsIner(at, fa.X) || w.underNotIsIner(x.Block(), fa.X) {
						return ""
					}
					return fmt.Sprintf("RefPacket of an object field that may be an inline object (%s, %s)", fnKey(fn), w.instrPos(x))
				}
				return ""
			}
			// a local variable / cell: what was stored
			if al := cellOf(x); al != nil {
				stores, _ := cellStores(al)
				for _, st := range stores {
					if why := mayBeInline(st.Parent(), st.Val, st.Block(), depth, seen); why != "" {
						return why
					}
				}
			}
		case *ssa.Phi:
			for i, e := range x.Edges {
				if why := mayBeInline(fn, e, x.Block().Preds[i], depth, seen); why != "" {
					return why
				}
			}
		case *ssa.Parameter:
			idx := -1
			for i, q := range fn.Params {
				if q == x {
					idx = i
				}
			}
			n := w.CallGraph().Nodes[fn]
			if n == nil || idx < 0 {
				return ""
			}
			for _, e := range n.In {
				if e.Site == nil || e.Caller.Func == nil || !w.isRepoLike(e.Caller.Func) {
					continue
				}
				args := e.Site.Common().Args
				off := 0
				if e.Site.Common().StaticCallee() != fn {
					// a call through a function value (method value, callback): receiver-less view of the arguments
					if fn.Signature.Recv() != nil && len(args) == len(fn.Params)-1 {
						off = 1
					} else if len(args) != len(fn.Params) {
						continue
					}
				}
				if idx-off < 0 || idx-off >= len(args) {
					continue
				}
				if why := mayBeInline(e.Caller.Func, args[idx-off], e.Site.Block(), depth+1, seen); why != "" {
					return why
				}
			}
		case *ssa.Extract:
			// a helper that hands out the packet of an inline object (and nil otherwise)
			if c, ok := x.Tuple.(*ssa.Call); ok {
				if h := c.Call.StaticCallee(); h != nil && w.isSubjectFunc(h) && w.yieldsOnlyInlinePackets(h, x.Index) {
					return fmt.Sprintf("result of %s, which hands out the packets of inline objects (%s)", fnKey(h), w.instrPos(c))
				}
			}
		case *ssa.Call:
			if h := x.Call.StaticCallee(); h != nil && w.isSubjectFunc(h) && w.yieldsOnlyInlinePackets(h, 0) {
				return fmt.Sprintf("result of %s, which hands out the packets of inline objects (%s)", fnKey(h), w.instrPos(x))
			}
		}
		return ""
	}
	n := 0
	seenKey := map[string]bool{}
	var fns []*ssa.Function
	for _, fn := range w.srcFuncs {
		if fn.Blocks != nil && w.isSubjectFunc(fn) && (inScope == nil || inScope(fn)) {
			fns = append(fns, fn)
		}
	}
	sortFuncsByName(fns)
	for _, fn := range fns {
		cnt := 0
		forEachInstr(fn, func(b *ssa.BasicBlock, ins ssa.Instruction) {
			lk, ok := ins.(*ssa.Lookup)
			if !ok {
				return
			}
			mt, isMap := lk.X.Type().Underlying().(*types.Map)
			if !isMap {
				return
			}
			if bt, ok := mt.Key().Underlying().(*types.Basic); !ok || bt.Kind() != types.String {
				return
			}
			p := packetOfName(lk.Index)
			if p == nil {
				return
			}
			if _, fresh := valueRoot(lk.X).(*ssa.MakeMap); fresh {
				return // a set made for this call only
			}
			if mapDesc(lk.X) == ".PacketsMap" {
				return // the namespace of the declared packets itself
			}
			// a seen set: the same map is updated under a packet's name in this function
			updated := false
			forEachInstr(fn, func(_ *ssa.BasicBlock, i2 ssa.Instruction) {
				if mu, ok := i2.(*ssa.MapUpdate); ok && sameMapExpr(mu.Map, lk.X) && packetOfName(mu.Key) != nil {
					updated = true
				}
			})
			if !updated {
				return
			}
			n++
			_ = cnt
			// keyed by the type whose methods keep the set and by the set, not by the function (a renamed or split emitter is the same set)
			owner := recvNamedCore(fn)
			if owner == "" {
				owner = ownerPkgName(fn)
				// a shared helper of the generators: the finding belongs to the generators that use it
				if gs := generatorsReaching(w, fn); len(gs) > 0 && !parsePhaseSet(w)[fn] {
					owner = strings.Join(gs, "+")
				}
			}
			key := fmt.Sprintf("%s: a set keyed by a packet's name sees declared packets only", owner)
			if seenKey[key] {
				return
			}
			seenKey[key] = true
			if wit := mayBeInline(fn, p, b, 0, map[ssa.Value]bool{}); wit != "" {
				r.fail(rule, key, w.instrPos(lk), why+" - the set is "+mapDesc(lk.X)+" in "+fnKey(fn)+", the packet can be: "+wit)
			} else {
				r.pass(rule, key, w.instrPos(lk), "")
			}
		})
	}
	r.note("%s: name-keyed seen-sets examined: %d", rule, n)
}

// underNotIsIner: blk is dominated by the false edge of a test of attr.IsIner for the same attribute value.
func (w *World) underNotIsIner(blk *ssa.BasicBlock, attr ssa.Value) bool {
	if blk == nil {
		return false
	}
	fn := blk.Parent()
	for _, b := range fn.Blocks {
		cond := branchCond(b)
		if cond == nil {
			continue
		}
		neg := false
		c := cond
		for {
			if u, ok := c.(*ssa.UnOp); ok && u.Op == token.NOT {
				neg = !neg
				c = u.X
				continue
			}
			break
		}
		ld, ok := c.(*ssa.UnOp)
		if !ok || ld.Op != token.MUL {
			continue
		}
		fa, ok := ld.X.(*ssa.FieldAddr)
		if !ok {
			continue
		}
		_, fname, _, _ := fieldOf(fa)
		if fname != "IsIner" || stripIdentity(fa.X) != stripIdentity(attr) {
			continue
		}
		succ := 1
		if neg {
			succ = 0
		}
		if edgeDominates(b, succ, blk) {
			return true
		}
	}
	return false
}

func isGeneratorFunc(fn *ssa.Function) bool {
	rn := recvNamedCore(fn)
	return strings.HasSuffix(rn, "Generator")
}

func sortedStrings(m map[string]bool) []string {
	var out []string
	for k := range m {
		out = append(out, k)
	}
	sort.Strings(out)
	return out
}

// */match-keys-checked-wherever-collected: the duplicate-key check of a match table covers every match table.
//
// A match field is built in one place (the routine that makes the MatchFieldAttribute from the parse tree) and enters a field list
// in two: the collector of a packet body and the collector of an inline object's body, which the tree walk re-enters. The check
// that a key occurs once (a set keyed by MatchPair.Key, C12/namespace judges its shape) sees every table when it runs where the
// table is built; moved into the linking loop of *one* collector it leaves the tables of the other collector unchecked - `match`
// inside an inline object then accepts `1 : A, 1 : B`, and the dispatch the decoders emit for that table is whatever the target
// language makes of a duplicate arm. Decided: a routine that holds the key set is reached (three call levels) from a routine that
// constructs a MatchFieldAttribute, or from every field collector of the parse phase.
func matchKeysCheckedWhereverCollected(w *World, r *Report, prop string) {
	rule := prop + "/match-keys-checked-wherever-collected"
	phase := parsePhaseFuncs(w)
	var checkers, builders []*ssa.Function
	for _, fn := range phase {
		if isGeneratorFunc(fn) {
			continue
		}
		holds, builds := false, false
		forEachInstr(fn, func(_ *ssa.BasicBlock, ins ssa.Instruction) {
			switch x := ins.(type) {
			case *ssa.MapUpdate:
				if pairFieldOf(x.Key) == "Key" {
					holds = true
				}
			case *ssa.Alloc:
				if pt, ok := x.Type().(*types.Pointer); ok && modelTypeName(pt.Elem()) == "MatchFieldAttribute" {
					if _, isStruct := pt.Elem().Underlying().(*types.Struct); isStruct {
						builds = true
					}
				}
			}
		})
		if holds {
			checkers = append(checkers, fn)
		}
		if builds {
			builders = append(builders, fn)
		}
	}
	key := "the duplicate-key check runs for every match table"
	if len(checkers) == 0 {
		// C12/namespace reports the missing check; nothing to place
		r.note("%s: no routine keeps a set of match keys", rule)
		return
	}
	reaches := func(from *ssa.Function, targets []*ssa.Function) bool {
		tset := map[*ssa.Function]bool{}
		for _, t := range targets {
			tset[t] = true
		}
		seen := map[*ssa.Function]bool{}
		var walk func(f *ssa.Function, d int) bool
		walk = func(f *ssa.Function, d int) bool {
			if f == nil || seen[f] || d > 3 || f.Blocks == nil {
				return false
			}
			seen[f] = true
			if tset[f] {
				return true
			}
			hit := false
			forEachInstr(f, func(_ *ssa.BasicBlock, ins ssa.Instruction) {
				if hit {
					return
				}
				c, ok := ins.(ssa.CallInstruction)
				if !ok {
					return
				}
				for _, g := range calleesOfAll(c) {
					if g != nil && w.isSubjectFunc(g) && !isGeneratorFunc(g) && walk(g, d+1) {
						hit = true
						return
					}
				}
			})
			return hit
		}
		return walk(from, 0)
	}
	for _, b := range builders {
		if reaches(b, checkers) {
			r.pass(rule, key, w.pos(b.Pos()), "checked where the table is built: "+fnKey(b))
			return
		}
	}
	var uncovered []string
	cols := fieldCollectors(w)
	for _, c := range cols {
		if !reaches(c, checkers) {
			uncovered = append(uncovered, fnKey(c))
		}
	}
	pos := w.pos(checkers[0].Pos())
	switch {
	case len(cols) == 0:
		r.fail(rule, key, pos, "a set of match keys is kept in "+fnKey(checkers[0])+", but neither the routine that builds a match table nor any field collector reaches it")
	case len(uncovered) > 0:
		sort.Strings(uncovered)
		r.fail(rule, key, pos, "the duplicate-key check ("+fnKey(checkers[0])+") is not run where match tables are built, and of the routines that collect declared fields "+strings.Join(uncovered, ", ")+" does not reach it: a match table that enters a field list there accepts the same key twice")
	default:
		r.pass(rule, key, pos, fmt.Sprintf("every field collector (%d) reaches the check", len(cols)))
	}
}

// C09/optional-parts-independent: two parts of a declaration that the grammar lets the author leave out independently of each
// other are printed independently of each other.
//
// `objectField: REPEAT? ftype=IDENTIFIER fname=IDENTIFIER? STRING_LITERAL?` - a field may have a name of its own, a documentation
// string, both or neither. A formatter routine (or a helper it hands the two parts to) that reads the documentation string only on
// paths on which the name is known to be present - `if name == nil { return typeName }` ahead of `if doc != nil { .. }` - deletes
// the documentation of every field that has none of its own name. Which parts are independent is read from the grammar: the
// elements with a `?` of their own at the top level of one alternative. Decided per routine and ordered pair (X, Y) of such parts
// of one parse-tree node: of the places where the routine uses X (other than asking whether it is there), at least one stays
// reachable when every "Y is present" edge is taken away; the same inside a helper that receives both parts as parameters.
func optionalPartsIndependent(w *World, r *Report, prop string, ctxs map[string]*CtxInfo, fns []*ssa.Function) {
	rule := prop + "/optional-parts-independent"
	// independent optional children per context type: names as accInfo.What spells them (child, or label=)
	indep := map[string]map[string]bool{}
	for _, ci := range ctxs {
		pr := w.G4.prule[ci.Rule]
		if pr == nil {
			continue
		}
		var alt *Alt
		for _, a := range pr.Alts {
			if a.Label != "" && title(a.Label)+"Context" == ci.CtxType {
				alt = a
			}
		}
		if alt == nil && ci.AltLabel == "" && len(pr.Alts) == 1 {
			alt = pr.Alts[0]
		}
		if alt == nil {
			continue
		}
		set := map[string]bool{}
		cnt := map[string]int{}
		for _, e := range alt.Elems {
			if e.Kind == ekToken || e.Kind == ekRule {
				cnt[e.Name]++
			}
		}
		for _, e := range alt.Elems {
			// `(fname = IDENTIFIER)?`: a group of one element with a `?` of its own is that element
			if e.Kind == ekGroup && e.Suffix == '?' && len(e.Group) == 1 && len(e.Group[0].Elems) == 1 && e.Group[0].Elems[0].Suffix == 0 {
				inner := *e.Group[0].Elems[0]
				inner.Suffix = '?'
				e = &inner
			}
			if e.Suffix != '?' || (e.Kind != ekToken && e.Kind != ekRule) {
				continue
			}
			if e.Label != "" {
				set[e.Label+"="] = true
			} else if cnt[e.Name] == 1 {
				set[e.Name] = true
			}
		}
		if len(set) >= 2 {
			indep[ci.CtxType] = set
		}
	}
	type acc struct {
		call *ssa.Call
		ctx  string
		what string
		path string
	}
	usesOf := func(v ssa.Value) []ssa.Instruction {
		var out []ssa.Instruction
		seen := map[ssa.Value]bool{}
		var walk func(x ssa.Value)
		walk = func(x ssa.Value) {
			if seen[x] || x.Referrers() == nil {
				return
			}
			seen[x] = true
			for _, ref := range *x.Referrers() {
				switch y := ref.(type) {
				case *ssa.DebugRef:
				case *ssa.BinOp:
					if isNilConst(y.X) || isNilConst(y.Y) {
						continue
					}
					out = append(out, y)
				case *ssa.ChangeInterface:
					walk(y)
				case *ssa.MakeInterface:
					walk(y)
				case *ssa.ChangeType:
					walk(y)
				case *ssa.Phi:
					walk(y)
				default:
					out = append(out, ref)
				}
			}
		}
		walk(v)
		return out
	}
	// reachable blocks of fn when the "present" edge of every nil test of a value isY recognises is removed
	reachWithout := func(fn *ssa.Function, isY func(v ssa.Value) bool) map[*ssa.BasicBlock]bool {
		seen := map[*ssa.BasicBlock]bool{}
		var walk func(b *ssa.BasicBlock)
		walk = func(b *ssa.BasicBlock) {
			if seen[b] {
				return
			}
			seen[b] = true
			skip := -1
			if cond := branchCond(b); cond != nil {
				if x, nn, ok := nilTest(cond); ok && isY(stripIdentity(x)) {
					skip = nn
				}
			}
			for i, s := range b.Succs {
				if i != skip {
					walk(s)
				}
			}
		}
		if len(fn.Blocks) > 0 {
			walk(fn.Blocks[0])
		}
		return seen
	}
	n := 0
	reported := map[string]bool{}
	judge := func(fn *ssa.Function, uses []ssa.Instruction, isY func(v ssa.Value) bool, key, pos, xName, yName string) {
		if len(uses) == 0 || reported[key] {
			return
		}
		reported[key] = true
		n++
		all := reachWithout(fn, func(ssa.Value) bool { return false })
		cut := reachWithout(fn, isY)
		live, stays := false, false
		for _, u := range uses {
			if all[u.Block()] {
				live = true
			}
			if cut[u.Block()] {
				stays = true
			}
		}
		if !live || stays {
			r.pass(rule, key, pos, "")
			return
		}
		r.fail(rule, key, pos, fmt.Sprintf("every place where %s uses %s lies behind an edge on which %s is present: the grammar lets the author write %s without %s, and what was written there is then not printed", fnKey(fn), xName, yName, xName, yName))
	}
	for _, fn := range fns {
		// the optional accessor calls of fn, by node
		var accs []acc
		forEachInstr(fn, func(_ *ssa.BasicBlock, ins ssa.Instruction) {
			c, ok := ins.(*ssa.Call)
			if !ok {
				return
			}
			recv, ai, ok := w.accessorOf(c, ctxs)
			if !ok || !ai.Known || !ai.Optional || indep[ai.Ctx] == nil || !indep[ai.Ctx][ai.What] {
				return
			}
			accs = append(accs, acc{c, ai.Ctx, ai.What, w.accessPath(recv, ctxs, 0)})
		})
		// form A: inside fn
		for _, x := range accs {
			for _, y := range accs {
				if x.ctx != y.ctx || x.path != y.path || x.what == y.what {
					continue
				}
				var uses []ssa.Instruction
				for _, x2 := range accs {
					if x2.ctx == x.ctx && x2.path == x.path && x2.what == x.what {
						uses = append(uses, usesOf(x2.call)...)
					}
				}
				isY := func(v ssa.Value) bool {
					c, ok := v.(*ssa.Call)
					if !ok {
						return false
					}
					for _, y2 := range accs {
						if y2.call == c && y2.ctx == y.ctx && y2.path == y.path && y2.what == y.what {
							return true
						}
					}
					return false
				}
				key := fmt.Sprintf("%s: %s.%s is printed whether or not %s is there", fnKey(fn), x.ctx, strings.TrimSuffix(x.what, "="), strings.TrimSuffix(y.what, "="))
				judge(fn, uses, isY, key, w.instrPos(x.call), strings.TrimSuffix(x.what, "="), strings.TrimSuffix(y.what, "="))
			}
		}
		// form B: a helper that is handed two independent parts of one node
		forEachInstr(fn, func(_ *ssa.BasicBlock, ins ssa.Instruction) {
			c, ok := ins.(ssa.CallInstruction)
			if !ok {
				return
			}
			h := c.Common().StaticCallee()
			if h == nil || h.Blocks == nil || !w.isSubjectFunc(h) {
				return
			}
			args := c.Common().Args
			if len(args) != len(h.Params) {
				return
			}
			type pa struct {
				idx int
				a   acc
			}
			var ps []pa
			for i, a := range args {
				ac, ok := stripIdentity(a).(*ssa.Call)
				if !ok {
					continue
				}
				for _, x := range accs {
					if x.call == ac {
						ps = append(ps, pa{i, x})
					}
				}
			}
			for _, px := range ps {
				for _, py := range ps {
					if px.idx == py.idx || px.a.ctx != py.a.ctx || px.a.path != py.a.path || px.a.what == py.a.what {
						continue
					}
					q := h.Params[py.idx]
					isY := func(v ssa.Value) bool { return v == ssa.Value(q) }
					key := fmt.Sprintf("%s (for %s): %s.%s is printed whether or not %s is there", fnKey(h), fnKey(fn), px.a.ctx, strings.TrimSuffix(px.a.what, "="), strings.TrimSuffix(py.a.what, "="))
					judge(h, usesOf(h.Params[px.idx]), isY, key, w.instrPos(ins), strings.TrimSuffix(px.a.what, "="), strings.TrimSuffix(py.a.what, "="))
				}
			}
		})
	}
	r.note("%s: pairs of independent optional parts examined: %d", rule, n)
}

// */inline-object-keeps-its-own-packet: the packet of an inline object is the one built from its own body.
//
// An object field either names a declared packet (`Leg firstLeg,` - resolved by name after parsing) or declares its members in
// place (`Leg { u8 a, }` - the visitor builds a packet for it and stores it in the attribute together with IsIner). The name of an
// inline object is free: it may coincide with the name of a declared packet. A resolution step that assigns RefPacket from the table
// of declared packets without excluding inline objects replaces the inline object's own packet by the declared packet of that name;
// every target then encodes the members of the wrong packet, without a diagnostic. Decided: a store into
// ObjectFieldAttribute.RefPacket of a value that is not a packet built in the same routine lies behind the "not inline" edge of a
// test of the same attribute's IsIner, or behind the "is nil" edge of a test of the same attribute's RefPacket (inline attributes are
// constructed with their packet - checked on every literal that sets IsIner), or writes an attribute constructed there with IsIner
// left false.
func inlineObjectKeepsItsPacket(w *World, r *Report, prop string) {
	rule := prop + "/inline-object-keeps-its-own-packet"
	// premise of the nil-guard justification: every literal that sets IsIner to true also sets RefPacket
	inlineHavePacket := true
	for _, fn := range w.srcFuncs {
		if !w.isSubjectFunc(fn) {
			continue
		}
		forEachInstr(fn, func(_ *ssa.BasicBlock, ins ssa.Instruction) {
			al, ok := ins.(*ssa.Alloc)
			if !ok {
				return
			}
			pt, ok := al.Type().(*types.Pointer)
			if !ok || modelTypeName(pt.Elem()) != "ObjectFieldAttribute" || al.Referrers() == nil {
				return
			}
			setsInline, setsRef := false, false
			for _, ref := range *al.Referrers() {
				fa, ok := ref.(*ssa.FieldAddr)
				if !ok || fa.Referrers() == nil {
					continue
				}
				_, f, _, _ := fieldOf(fa)
				for _, r2 := range *fa.Referrers() {
					st, ok := r2.(*ssa.Store)
					if !ok || st.Addr != ssa.Value(fa) {
						continue
					}
					if f == "IsIner" {
						if k, ok := st.Val.(*ssa.Const); !ok || k.Value == nil || k.Value.String() != "false" {
							setsInline = true
						}
					}
					if f == "RefPacket" {
						if k, ok := st.Val.(*ssa.Const); !ok || k.Value != nil {
							setsRef = true
						}
					}
				}
			}
			if setsInline && !setsRef {
				inlineHavePacket = false
			}
		})
	}
	n := 0
	for _, fn := range w.srcFuncs {
		if !w.isSubjectFunc(fn) || fn.Blocks == nil {
			continue
		}
		cnt := 0
		forEachInstr(fn, func(b *ssa.BasicBlock, ins ssa.Instruction) {
			st, ok := ins.(*ssa.Store)
			if !ok {
				return
			}
			fa, ok := st.Addr.(*ssa.FieldAddr)
			if !ok {
				return
			}
			if tn, f, _, _ := fieldOf(fa); tn != "ObjectFieldAttribute" || f != "RefPacket" {
				return
			}
			v := stripIdentity(st.Val)
			if _, isAlloc := v.(*ssa.Alloc); isAlloc {
				return // the packet built here
			}
			if k, ok := v.(*ssa.Const); ok && k.Value == nil {
				return
			}
			attr := stripIdentity(fa.X)
			if al, ok := attr.(*ssa.Alloc); ok && al.Parent() == fn {
				return // an attribute under construction
			}
			n++
			cnt++
			key := fmt.Sprintf("%s: RefPacket assignment #%d leaves inline objects alone", fnKey(fn), cnt)
			if w.underNotIsIner(b, attr) {
				r.pass(rule, key, w.instrPos(ins), "behind the not-inline edge")
				return
			}
			// behind the nil edge of a test of the same attribute's RefPacket
			if inlineHavePacket {
				for _, tb := range fn.Blocks {
					cond := branchCond(tb)
					if cond == nil {
						continue
					}
					x, nn, ok := nilTest(cond)
					if !ok {
						continue
					}
					ld, ok := stripIdentity(x).(*ssa.UnOp)
					if !ok || ld.Op != token.MUL {
						continue
					}
					fa2, ok := ld.X.(*ssa.FieldAddr)
					if !ok || fa2.Field != fa.Field || stripIdentity(fa2.X) != attr {
						continue
					}
					if edgeDominates(tb, 1-nn, b) {
						r.pass(rule, key, w.instrPos(ins), "behind the edge on which the attribute has no packet yet (inline objects are constructed with theirs)")
						return
					}
				}
			}
			r.fail(rule, key, w.instrPos(ins), "a packet found by name is stored into an object attribute that may belong to an inline object: an inline object named like a declared packet loses the packet built from its own body, and every target encodes the declared packet's members in its place")
		})
	}
	r.note("%s: assignments examined: %d", rule, n)
}

// */size-sum-honours-repeat: a byte count added up over the members of a packet asks each member whether it repeats.
//
// A generator that computes a size from the model (a "fixed size" shortcut that writes a constant into the length field, a minimum
// size the decoder refuses below) walks Packet.Fields and adds the width of each member: the Size of its scalar type, the Length of
// its fixed string, the size of its packet. A member declared `repeat` occupies a count prefix and n elements - any sum that does
// not look at IsRepeat counts it as exactly one element, and the number emitted into the codec is wrong for every message whose
// list does not hold exactly one element. Decided: a loop over a list of *model.Field in generator code that carries an integer
// to which a width taken from the model is added reads IsRepeat of the loop's element inside the loop.
func sizeSumHonoursRepeat(w *World, r *Report, prop string) {
	rule := prop + "/size-sum-honours-repeat"
	n := 0
	for _, fn := range w.srcFuncs {
		if !w.isSubjectFunc(fn) || fn.Blocks == nil || !isGeneratorFunc(fn) {
			continue
		}
		for _, hb := range fn.Blocks {
			if hb.Comment != "rangeindex.loop" {
				continue
			}
			loop := naturalLoop(hb)
			if len(loop) < 2 {
				continue
			}
			// the element: a load of an IndexAddr of a []*model.Field inside the loop
			var elem ssa.Value
			for b := range loop {
				for _, ins := range b.Instrs {
					if ld, ok := ins.(*ssa.UnOp); ok && ld.Op == token.MUL {
						if ia, ok := ld.X.(*ssa.IndexAddr); ok {
							if sl, ok := ia.X.Type().Underlying().(*types.Slice); ok && isFieldPtr(sl.Elem()) {
								elem = ld
							}
						}
					}
				}
			}
			if elem == nil {
				continue
			}
			// an integer carried around the loop with a model width added to it
			var sum *ssa.Phi
			for _, ins := range hb.Instrs {
				ph, ok := ins.(*ssa.Phi)
				if !ok || !isInt(ph.Type()) {
					continue
				}
				for _, e := range ph.Edges {
					if addsModelWidth(w, fn, e, ph, loop, 0, map[ssa.Value]bool{}) {
						sum = ph
					}
				}
			}
			if sum == nil {
				continue
			}
			n++
			// the blocks that test IsRepeat of the element
			var tests []*ssa.BasicBlock
			for b := range loop {
				cond := branchCond(b)
				if cond == nil {
					continue
				}
				c := cond
				for {
					if u, ok := c.(*ssa.UnOp); ok && u.Op == token.NOT {
						c = u.X
						continue
					}
					break
				}
				if ld, ok := c.(*ssa.UnOp); ok && ld.Op == token.MUL {
					if fa, ok := ld.X.(*ssa.FieldAddr); ok {
						if tn, f, _, _ := fieldOf(fa); tn == "Field" && f == "IsRepeat" && stripIdentity(fa.X) == stripIdentity(elem) {
							tests = append(tests, b)
						}
					}
				}
			}
			// every addition of a width to the carried number lies behind such a test
			var blind ssa.Instruction
			for b := range loop {
				for _, ins := range b.Instrs {
					bo, ok := ins.(*ssa.BinOp)
					if !ok || bo.Op != token.ADD || !isInt(bo.Type()) {
						continue
					}
					adds := false
					for _, pair := range [][2]ssa.Value{{bo.X, bo.Y}, {bo.Y, bo.X}} {
						if reachesPhi(pair[0], sum, 0) && isModelWidth(fn, pair[1], 0) {
							adds = true
						}
					}
					if !adds {
						continue
					}
					// the width comes from a helper that is handed the member and asks it itself
					if helperAsksRepeat(bo.X, elem) || helperAsksRepeat(bo.Y, elem) {
						continue
					}
					behind := false
					for _, t := range tests {
						if t != b && t.Dominates(b) {
							behind = true
						}
					}
					if !behind && blind == nil {
						blind = ins
					}
				}
			}
			key := fmt.Sprintf("%s: the size added up over the members counts repeated members as lists", fnKey(fn))
			if blind == nil {
				r.pass(rule, key, w.instrPos(sum), "")
			} else {
				r.fail(rule, key, w.instrPos(blind), "a number of bytes is added up over the members of a packet (scalar sizes, fixed-string lengths, nested sizes) and a width is added without asking the member whether it is declared `repeat`: a repeated member is counted as one element without its count prefix, and the number the generated code is given is wrong whenever the list does not hold exactly one element")
			}
		}
	}
	r.note("%s: size sums over members examined: %d", rule, n)
}

// addsModelWidth: v is (a chain of additions / phis inside the loop over) carried + x where x comes from the model's widths: a
// FixedStringFieldAttribute.Length, the Size member of a type-table row, or the integer result of a call of the same function.
func addsModelWidth(w *World, fn *ssa.Function, v ssa.Value, carried *ssa.Phi, loop map[*ssa.BasicBlock]bool, depth int, seen map[ssa.Value]bool) bool {
	if depth > 8 || seen[v] {
		return false
	}
	seen[v] = true
	switch x := v.(type) {
	case *ssa.Phi:
		if x == carried || !loop[x.Block()] {
			return false
		}
		for _, e := range x.Edges {
			if addsModelWidth(w, fn, e, carried, loop, depth+1, seen) {
				return true
			}
		}
	case *ssa.BinOp:
		if x.Op != token.ADD || !loop[x.Block()] {
			return false
		}
		for _, pair := range [][2]ssa.Value{{x.X, x.Y}, {x.Y, x.X}} {
			acc, add := pair[0], pair[1]
			if acc == ssa.Value(carried) || addsModelWidth(w, fn, acc, carried, loop, depth+1, seen) || reachesPhi(acc, carried, 0) {
				if isModelWidth(fn, add, 0) {
					return true
				}
			}
		}
	}
	return false
}

func reachesPhi(v ssa.Value, target *ssa.Phi, depth int) bool {
	if depth > 6 {
		return false
	}
	switch x := v.(type) {
	case *ssa.Phi:
		if x == target {
			return true
		}
		for _, e := range x.Edges {
			if e != ssa.Value(x) && reachesPhi(e, target, depth+1) {
				return true
			}
		}
	case *ssa.BinOp:
		return reachesPhi(x.X, target, depth+1) || reachesPhi(x.Y, target, depth+1)
	}
	return false
}

func isModelWidth(fn *ssa.Function, v ssa.Value, depth int) bool {
	if depth > 4 {
		return false
	}
	switch x := stripIdentity(v).(type) {
	case *ssa.UnOp:
		if fa, ok := x.X.(*ssa.FieldAddr); ok && x.Op == token.MUL {
			tn, f, _, _ := fieldOf(fa)
			return (tn == "FixedStringFieldAttribute" && f == "Length") || f == "Size"
		}
	case *ssa.Field:
		_, f, _, _ := fieldOf(x)
		return f == "Size" || f == "Length"
	case *ssa.Extract:
		if c, ok := x.Tuple.(*ssa.Call); ok {
			return c.Call.StaticCallee() == fn || (c.Call.StaticCallee() != nil && isGeneratorFunc(c.Call.StaticCallee()) && isInt(x.Type()))
		}
	case *ssa.Call:
		g := x.Call.StaticCallee()
		return g == fn || (g != nil && isGeneratorFunc(g) && isInt(x.Type()))
	case *ssa.BinOp:
		return isModelWidth(fn, x.X, depth+1) || isModelWidth(fn, x.Y, depth+1)
	case *ssa.Phi:
		for _, e := range x.Edges {
			if isModelWidth(fn, e, depth+1) {
				return true
			}
		}
	}
	return false
}

// C17/cycle-guard-is-path-scoped: a guard that keeps a sample builder from expanding a packet inside its own sample is taken off
// again when the builder returns.
//
// The sample-instance emitters recurse over the members of a packet; a packet that contains itself would make them recurse for
// ever (C11/R). The cure is a set of the packets *being built*: marked on entry, consulted before descending. Unlike the "already
// emitted" set of a type emitter, this set must forget a packet when its sample is complete - otherwise the second member of a type
// that already got a sample in the same message (two legs, sender and owner) is taken for a cycle and left out, and the emitted test
// encodes a message with a missing member. Decided: a recursive test/sample emitter that marks a set which outlives the call and
// consults it in front of its recursive call also removes the mark (delete, or a store of false) in the same routine.
func cycleGuardIsPathScoped(w *World, r *Report, prop string) {
	rule := prop + "/cycle-guard-is-path-scoped"
	n := 0
	for _, fn := range w.srcFuncs {
		if !w.isSubjectFunc(fn) || fn.Blocks == nil || !isGeneratorFunc(fn) || roleOf(fn) != "test" {
			continue
		}
		// recursive?
		recursive := false
		forEachInstr(fn, func(_ *ssa.BasicBlock, ins ssa.Instruction) {
			if c, ok := ins.(ssa.CallInstruction); ok && c.Common().StaticCallee() == fn {
				recursive = true
			}
		})
		if !recursive {
			continue
		}
		type guard struct {
			m   ssa.Value
			pos string
		}
		var guards []guard
		forEachInstr(fn, func(_ *ssa.BasicBlock, ins ssa.Instruction) {
			mu, ok := ins.(*ssa.MapUpdate)
			if !ok {
				return
			}
			if _, fresh := valueRoot(mu.Map).(*ssa.MakeMap); fresh {
				return
			}
			if k, ok := mu.Value.(*ssa.Const); !ok || k.Value == nil || k.Value.String() != "true" {
				return
			}
			// consulted in this routine
			consulted := false
			forEachInstr(fn, func(_ *ssa.BasicBlock, i2 ssa.Instruction) {
				if lk, ok := i2.(*ssa.Lookup); ok && sameMapExpr(lk.X, mu.Map) {
					consulted = true
				}
			})
			if consulted {
				guards = append(guards, guard{mu.Map, w.instrPos(mu)})
			}
		})
		for i, g := range guards {
			n++
			unmarked := false
			forEachInstr(fn, func(_ *ssa.BasicBlock, ins ssa.Instruction) {
				switch x := ins.(type) {
				case *ssa.MapUpdate:
					if k, ok := x.Value.(*ssa.Const); ok && k.Value != nil && k.Value.String() == "false" && sameMapExpr(x.Map, g.m) {
						unmarked = true
					}
				case ssa.CallInstruction:
					if b, ok := x.Common().Value.(*ssa.Builtin); ok && b.Name() == "delete" && len(x.Common().Args) == 2 && sameMapExpr(x.Common().Args[0], g.m) {
						unmarked = true
					}
				}
			})
			key := fmt.Sprintf("%s: the set %s of packets being sampled forgets a packet when its sample is done", recvNamedCore(fn), mapDesc(g.m))
			if i > 0 {
				key += fmt.Sprintf(" #%d", i+1)
			}
			if unmarked {
				r.pass(rule, key, g.pos, "")
			} else {
				r.fail(rule, key, g.pos, fnKey(fn)+" marks a packet in a set that outlives the call, consults the set before descending into a member, and never removes the mark: the second member of a packet type that already got a sample in the same message is taken for a cycle and left out of the emitted test")
			}
		}
	}
	r.note("%s: recursion guards of sample emitters examined: %d", rule, n)
}

// C17/sample-key-and-payload-from-one-pair: the emitted self-test of a packet with a match field fills in the key member and the
// payload member; the decoder rebuilds the payload from the key. The two are emitted by different routines of a generator's test
// emitters, each picking "the sample alternative" of the match table itself. They agree as long as every one of them picks the same
// way. Decided per generator: the places where a test emitter selects one pair out of MatchFieldAttribute.MatchPairs (a constant
// index, or a helper that returns one pair / one member of a pair - evaluated: a helper that always returns element 0 is "index 0")
// all select by the same rule. A payload taken from "the first alternative whose packet has members" next to a key taken from
// alternative 0 round-trips to another packet than the test built.
func sampleKeyAndPayloadFromOnePair(w *World, r *Report, prop string) {
	rule := prop + "/sample-key-and-payload-from-one-pair"
	isPairs := func(v ssa.Value) bool {
		ld, ok := stripIdentity(v).(*ssa.UnOp)
		if !ok || ld.Op != token.MUL {
			return false
		}
		fa, ok := ld.X.(*ssa.FieldAddr)
		if !ok {
			return false
		}
		tn, f, _, _ := fieldOf(fa)
		return tn == "MatchFieldAttribute" && f == "MatchPairs"
	}
	// the selectors a function applies to a match table: "index N" for constant indices outside loops over the table
	var selectorsOf func(fn *ssa.Function, depth int) map[string]string
	selectorsOf = func(fn *ssa.Function, depth int) map[string]string {
		out := map[string]string{}
		if fn == nil || fn.Blocks == nil || depth > 2 {
			return out
		}
		forEachInstr(fn, func(_ *ssa.BasicBlock, ins ssa.Instruction) {
			switch x := ins.(type) {
			case *ssa.IndexAddr:
				if !isPairs(x.X) {
					return
				}
				if k, ok := x.Index.(*ssa.Const); ok && k.Value != nil {
					out["index "+k.Value.String()] = w.instrPos(x)
				}
			case *ssa.Call:
				g := x.Call.StaticCallee()
				if g == nil || g == fn || !w.isSubjectFunc(g) || !isGeneratorFunc(g) {
					return
				}
				// a helper handed the match attribute that hands back a pair (or a string taken from one)
				takes := false
				for _, a := range x.Call.Args {
					if modelTypeName(derefType(a.Type())) == "MatchFieldAttribute" {
						takes = true
					}
				}
				if !takes {
					return
				}
				res := x.Type()
				isPair := modelTypeName(derefType(res)) == "MatchPair"
				if bt, ok := res.Underlying().(*types.Basic); ok && bt.Kind() == types.String {
					isPair = true
				}
				if !isPair {
					return
				}
				inner := selectorsOf(g, depth+1)
				loops := false
				forEachInstr(g, func(b *ssa.BasicBlock, i2 ssa.Instruction) {
					if b.Comment == "rangeindex.loop" || b.Comment == "rangeindex.body" {
						for _, i3 := range b.Instrs {
							if ia, ok := i3.(*ssa.IndexAddr); ok && isPairs(ia.X) {
								loops = true
							}
						}
					}
				})
				if !loops && len(inner) == 1 {
					for k, p := range inner {
						out[k] = p
					}
					return
				}
				if loops || len(inner) > 0 {
					out["the choice made by "+fnKey(g)] = w.instrPos(x)
				}
			}
		})
		return out
	}
	byGen := map[string]map[string]string{}
	for _, fn := range w.srcFuncs {
		if !w.isSubjectFunc(fn) || fn.Blocks == nil || !isGeneratorFunc(fn) || roleOf(fn) != "test" {
			continue
		}
		g := recvNamedCore(fn)
		// a helper that is itself a selector is judged at its callers
		for k, p := range selectorsOf(fn, 0) {
			if byGen[g] == nil {
				byGen[g] = map[string]string{}
			}
			if _, ok := byGen[g][k]; !ok {
				byGen[g][k] = fnKey(fn) + " (" + p + ")"
			}
		}
	}
	n := 0
	for _, g := range sortedStringKeys(byGen) {
		sel := byGen[g]
		n++
		key := g + ": the sample's key and payload are taken from one alternative of the match table"
		if len(sel) <= 1 {
			r.pass(rule, key, "", "")
			continue
		}
		var parts []string
		for _, k := range sortedStringKeys2(sel) {
			parts = append(parts, k+" in "+sel[k])
		}
		r.fail(rule, key, "", "the test emitters of "+g+" pick the sample alternative of a match table in different ways: "+strings.Join(parts, "; ")+" - where they disagree the emitted test fills in the key of one alternative and the payload of another, and the decoded message is not the one the test built")
	}
	r.note("%s: generators with sample selections: %d", rule, n)
}

func derefType(t types.Type) types.Type {
	if p, ok := t.Underlying().(*types.Pointer); ok {
		return p.Elem()
	}
	return t
}

func sortedStringKeys(m map[string]map[string]string) []string {
	var out []string
	for k := range m {
		out = append(out, k)
	}
	sort.Strings(out)
	return out
}

func sortedStringKeys2(m map[string]string) []string {
	var out []string
	for k := range m {
		out = append(out, k)
	}
	sort.Strings(out)
	return out
}

// */match-table-read-from-the-field: the pairs of a match field are read from the match field.
//
// Packet.MatchFields is an index from the *key field's name* to a pair list, filled by the visitor as it meets match fields. Two
// match fields of one packet may switch on the same key field (`match Kind as Request {..}, match Kind as Reply {..}`): the index
// keeps the list of the one declared last. It answers "is this field the key of some match" correctly, but whoever takes a pair
// list out of it - to emit a factory, to validate the packets a table names, to order the dissectors a table calls - works on the
// wrong table for every match field but the last of its key. Decided: unless every insert into the index is guarded by a membership
// test whose already-present edge reports a diagnostic (two match fields on one key rejected), no routine uses the *value* of a
// lookup in, or of a range over, Packet.MatchFields; presence tests (`_, ok :=`, `!= nil`, `len`) are not uses.
func matchTableReadFromTheField(w *World, r *Report, prop string, inScope func(fn *ssa.Function) bool, why string) {
	rule := prop + "/match-table-read-from-the-field"
	isIndex := func(v ssa.Value) bool {
		ld, ok := stripIdentity(v).(*ssa.UnOp)
		if !ok || ld.Op != token.MUL {
			return false
		}
		fa, ok := ld.X.(*ssa.FieldAddr)
		if !ok {
			return false
		}
		tn, f, _, _ := fieldOf(fa)
		return tn == "Packet" && f == "MatchFields"
	}
	// is the index lossy? an insert into a map of pair lists in the parse phase without a guarding membership test
	lossy := false
	for _, fn := range parsePhaseFuncs(w) {
		tests := membershipTests(fn)
		forEachInstr(fn, func(b *ssa.BasicBlock, ins ssa.Instruction) {
			mu, ok := ins.(*ssa.MapUpdate)
			if !ok {
				return
			}
			mt, ok := mu.Map.Type().Underlying().(*types.Map)
			if !ok {
				return
			}
			sl, ok := mt.Elem().Underlying().(*types.Slice)
			if !ok || modelTypeName(sl.Elem()) != "MatchPair" {
				return
			}
			guarded := false
			for _, t := range tests {
				if !sameMapExpr(t.lookup.X, mu.Map) || !sameKey(t.lookup.Index, mu.Key) || !edgeDominates(t.branch, 1-t.presentSucc, b) {
					continue
				}
				for _, db := range w.diagnosticBlocks(fn) {
					if edgeDominates(t.branch, t.presentSucc, db) {
						guarded = true
					}
				}
			}
			if !guarded {
				lossy = true
			}
		})
	}
	if !lossy {
		r.pass(rule, "the per-key index of match tables keeps every table", "", "every insert is guarded by a membership test that reports the second match field on a key")
		return
	}
	// An accessor is a routine that hands a value of the index to its caller (`func (p *Packet) PairsFor(k) ([]MatchPair, bool)`): the
	// value is used where the caller uses it - a caller that only tests presence does not take a table out of the index. accessor[fn]
	// holds the result positions that carry an index value; a routine that is also called dynamically (function value, interface,
	// bound-method wrapper) cannot be followed, its return counts as a use.
	accessor := map[*ssa.Function]map[int]bool{}
	followable := map[*ssa.Function]bool{}
	var subjects []*ssa.Function
	for _, fn := range w.srcFuncs {
		if fn.Blocks != nil && w.isSubjectFunc(fn) {
			subjects = append(subjects, fn)
		}
	}
	sortFuncsByName(subjects)
	isSubject := map[*ssa.Function]bool{}
	for _, fn := range subjects {
		isSubject[fn] = true
	}
	cg := w.CallGraph()
	for _, fn := range subjects {
		nd := cg.Nodes[fn]
		ok := nd != nil && fn.Parent() == nil
		if ok {
			for _, e := range nd.In {
				if e.Site == nil || e.Site.Common().StaticCallee() != fn || !isSubject[e.Caller.Func] {
					ok = false
				}
			}
		}
		followable[fn] = ok
	}
	type indexValue struct {
		v  ssa.Value
		at ssa.Instruction
	}
	// the values of fn that come out of the index: looked up, ranged over, or returned by an accessor
	indexValues := func(fn *ssa.Function) []indexValue {
		var out []indexValue
		forEachInstr(fn, func(_ *ssa.BasicBlock, ins ssa.Instruction) {
			switch x := ins.(type) {
			case *ssa.Lookup:
				if !isIndex(x.X) {
					return
				}
				if !x.CommaOk {
					out = append(out, indexValue{x, ins})
					return
				}
				for _, ref := range *x.Referrers() {
					if ex, ok := ref.(*ssa.Extract); ok && ex.Index == 0 {
						out = append(out, indexValue{ex, ins})
					}
				}
			case *ssa.Range:
				if !isIndex(x.X) {
					return
				}
				for _, ref := range *x.Referrers() {
					nx, ok := ref.(*ssa.Next)
					if !ok || nx.Referrers() == nil {
						continue
					}
					for _, r2 := range *nx.Referrers() {
						if ex, ok := r2.(*ssa.Extract); ok && ex.Index == 2 {
							out = append(out, indexValue{ex, ins})
						}
					}
				}
			case *ssa.Call:
				g := x.Call.StaticCallee()
				if g == nil || len(accessor[g]) == 0 {
					return
				}
				if x.Call.Signature().Results().Len() == 1 {
					if accessor[g][0] {
						out = append(out, indexValue{x, ins})
					}
					return
				}
				if x.Referrers() == nil {
					return
				}
				for _, ref := range *x.Referrers() {
					if ex, ok := ref.(*ssa.Extract); ok && accessor[g][ex.Index] {
						out = append(out, indexValue{ex, ins})
					}
				}
			}
		})
		return out
	}
	// valueUsed: v is used for more than a presence test; handedOn receives the result positions through which v is returned
	valueUsed := func(fn *ssa.Function, v ssa.Value, handedOn func(int)) bool {
		if v.Referrers() == nil {
			return false
		}
		for _, ref := range *v.Referrers() {
			switch x := ref.(type) {
			case *ssa.DebugRef:
			case *ssa.BinOp:
				if isNilConst(x.X) || isNilConst(x.Y) {
					continue
				}
				return true
			case *ssa.Call:
				if b, ok := x.Call.Value.(*ssa.Builtin); ok && (b.Name() == "len" || b.Name() == "cap") {
					continue
				}
				return true
			case *ssa.Return:
				if !followable[fn] {
					return true
				}
				for i, res := range x.Results {
					if res == v && handedOn != nil {
						handedOn(i)
					}
				}
			default:
				return true
			}
		}
		return false
	}
	for changed := true; changed; {
		changed = false
		for _, fn := range subjects {
			if !followable[fn] {
				continue
			}
			for _, iv := range indexValues(fn) {
				valueUsed(fn, iv.v, func(i int) {
					if accessor[fn] == nil {
						accessor[fn] = map[int]bool{}
					}
					if !accessor[fn][i] {
						accessor[fn][i] = true
						changed = true
					}
				})
			}
		}
	}
	isGeneratorType := func(name string) bool {
		for _, g := range generators {
			if g.Type == name {
				return true
			}
		}
		return false
	}
	seen := map[string]bool{}
	n := 0
	for _, fn := range subjects {
		if inScope != nil && !inScope(fn) {
			continue
		}
		var at ssa.Instruction
		for _, iv := range indexValues(fn) {
			if at == nil && valueUsed(fn, iv.v, nil) {
				at = iv.at
			}
		}
		if at == nil {
			continue
		}
		owners := []string{recvNamedCore(fn)}
		if !isGeneratorType(owners[0]) {
			// a shared helper or a routine of the model: the finding belongs to the generators that use it (a known defect moved into
			// a helper is the same defect)
			if gs := generatorsReaching(w, fn); len(gs) > 0 && !parsePhaseSet(w)[fn] {
				owners = gs
			} else if owners[0] == "" {
				owners = []string{ownerPkgName(fn)}
			}
		}
		for _, owner := range owners {
			key := owner + ": the pairs of a match field are not taken from the per-key index Packet.MatchFields"
			if seen[key] {
				continue
			}
			seen[key] = true
			n++
			r.fail(rule, key, w.instrPos(at), why+" ("+fnKey(fn)+" uses a pair list looked up in Packet.MatchFields, which keeps one list per key field - the last one)")
		}
	}
	if n == 0 {
		r.pass(rule, "no routine takes a pair list out of the per-key index", "", "")
	}
}

func ownerPkgName(fn *ssa.Function) string {
	if p := pkgOfFunc(fn); p != nil && p.Pkg != nil {
		return p.Pkg.Name()
	}
	return "repo"
}

// generatorsReaching: the generator types from whose Generate method fn is reachable (sorted); for a method of a generator, that type.
func generatorsReaching(w *World, fn *ssa.Function) []string {
	if rn := recvNamedCore(fn); strings.HasSuffix(rn, "Generator") {
		return []string{rn}
	}
	gens, err := w.generateFuncs()
	if err != nil {
		return nil
	}
	var out []string
	for _, g := range generators {
		root := gens[g.Lang]
		if root == nil {
			continue
		}
		reach := w.reachable([]*ssa.Function{root}, func(f *ssa.Function) bool { return w.isRepoLike(f) })
		if reach[fn] {
			out = append(out, g.Type)
		}
	}
	sort.Strings(out)
	return out
}

func parsePhaseSet(w *World) map[*ssa.Function]bool {
	out := map[*ssa.Function]bool{}
	for _, f := range parsePhaseFuncs(w) {
		out[f] = true
	}
	return out
}

// helperAsksRepeat: v is the (integer) result of a repository routine that is handed the member elem and reads IsRepeat of that
// parameter.
func helperAsksRepeat(v ssa.Value, elem ssa.Value) bool {
	var c *ssa.Call
	switch x := stripIdentity(v).(type) {
	case *ssa.Call:
		c = x
	case *ssa.Extract:
		c, _ = x.Tuple.(*ssa.Call)
	}
	if c == nil {
		return false
	}
	g := c.Call.StaticCallee()
	if g == nil || g.Blocks == nil {
		return false
	}
	for i, a := range c.Call.Args {
		if stripIdentity(a) != stripIdentity(elem) || i >= len(g.Params) {
			continue
		}
		p := g.Params[i]
		asks := false
		forEachInstr(g, func(_ *ssa.BasicBlock, ins ssa.Instruction) {
			if fa, ok := ins.(*ssa.FieldAddr); ok {
				if tn, f, _, _ := fieldOf(fa); tn == "Field" && f == "IsRepeat" && stripIdentity(fa.X) == ssa.Value(p) {
					asks = true
				}
			}
		})
		if asks {
			return true
		}
	}
	return false
}
