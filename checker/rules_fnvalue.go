package main

// fnValueTargets: which functions a function-typed value can be when it is called, found by following the value back to where it
// was made: a function constant or closure literal, a method expression (thunk), the variable cell a closure captured, a parameter
// (bound by the caller that is being followed, or else by every call site the call graph knows), what a called function returns,
// a package-level variable, an element of a table (slice/array literal, kept in a local, a package-level variable or handed down as
// a parameter). Every target it reports is a real origin of the value (the walk follows this value's own data flow, not its type).
// `complete` says that nothing else can be there: every origin was understood, the cells and variables on the way are written
// nowhere else, and - for a table - every write of an element of that element type anywhere in the repo is one of the writes that
// were followed (elements only ever come from such writes; append/copy move them, they do not make new ones).

import (
	"go/token"
	"go/types"

	"golang.org/x/tools/go/ssa"
)

type fnValIndex struct {
	globalStores map[*ssa.Global][]*ssa.Store
	globalOther  map[*ssa.Global]bool    // the variable's address is used for something else than a load or a store
	elemStores   map[string][]*ssa.Store // element type -> every store through an element address (&t[i]) of that type
}

var fnValIndexMemo = map[*World]*fnValIndex{}
var fnValNesting int

func (w *World) fnValIndex() *fnValIndex {
	if ix := fnValIndexMemo[w]; ix != nil {
		return ix
	}
	ix := &fnValIndex{globalStores: map[*ssa.Global][]*ssa.Store{}, globalOther: map[*ssa.Global]bool{}, elemStores: map[string][]*ssa.Store{}}
	var repoFns []*ssa.Function
	for fn := range w.allFuncs {
		if p := pkgOfFunc(fn); fn.Blocks != nil && (p == w.Parser || p == w.Model || p == w.Cmd) {
			repoFns = append(repoFns, fn)
		}
	}
	sortFuncsByName(repoFns)
	for _, fn := range repoFns {
		forEachInstr(fn, func(_ *ssa.BasicBlock, ins ssa.Instruction) {
			st, isStore := ins.(*ssa.Store)
			if isStore {
				if g, ok := st.Addr.(*ssa.Global); ok {
					ix.globalStores[g] = append(ix.globalStores[g], st)
				}
				if ia, ok := st.Addr.(*ssa.IndexAddr); ok {
					if _, isFn := st.Val.Type().Underlying().(*types.Signature); isFn {
						k := elemTypeKey(ia)
						ix.elemStores[k] = append(ix.elemStores[k], st)
					}
				}
			}
			for _, op := range ins.Operands(nil) {
				g, ok := (*op).(*ssa.Global)
				if !ok {
					continue
				}
				if isStore && st.Addr == ssa.Value(g) && st.Val != ssa.Value(g) {
					continue
				}
				if ld, ok := ins.(*ssa.UnOp); ok && ld.Op == token.MUL {
					continue
				}
				ix.globalOther[g] = true
			}
		})
	}
	fnValIndexMemo[w] = ix
	return ix
}

func elemTypeKey(ia *ssa.IndexAddr) string {
	if p, ok := ia.Type().Underlying().(*types.Pointer); ok {
		return types.TypeString(p.Elem(), nil)
	}
	return types.TypeString(ia.Type(), nil)
}

type fnValResolver struct {
	w        *World
	ix       *fnValIndex
	out      []*ssa.Function
	complete bool
	seen     map[ssa.Value]bool
	seenTab  map[ssa.Value]bool
	inCall   map[*ssa.Function]bool
	followed map[*ssa.Store]bool // element stores that were followed
	elemKeys map[string]bool     // element types of the tables that were read
}

// fnValueTargets: see the head of this file. bs binds parameters of the functions on the way to the arguments of one particular
// caller (nil: every call site counts).
func (w *World) fnValueTargets(v ssa.Value, bs bindings) ([]*ssa.Function, bool) {
	if fnValNesting > 3 {
		return nil, false // a called value whose callee is again a called value ...: give up rather than loop
	}
	fnValNesting++
	defer func() { fnValNesting-- }()
	r := &fnValResolver{w: w, ix: w.fnValIndex(), complete: true, seen: map[ssa.Value]bool{}, seenTab: map[ssa.Value]bool{},
		inCall: map[*ssa.Function]bool{}, followed: map[*ssa.Store]bool{}, elemKeys: map[string]bool{}}
	r.value(v, bs, 0)
	for k := range r.elemKeys {
		for _, st := range r.ix.elemStores[k] {
			if !r.followed[st] {
				r.complete = false
			}
		}
	}
	sortFuncsByName(r.out)
	return r.out, r.complete
}

func (r *fnValResolver) add(f *ssa.Function) {
	if f == nil {
		r.complete = false
		return
	}
	for _, g := range r.out {
		if g == f {
			return
		}
	}
	r.out = append(r.out, f)
}

func (r *fnValResolver) value(v ssa.Value, bs bindings, depth int) {
	if v == nil || depth > 14 {
		r.complete = false
		return
	}
	v = stripIdentity(v)
	if _, isParam := v.(*ssa.Parameter); !isParam {
		if r.seen[v] {
			return
		}
		r.seen[v] = true
	}
	switch x := v.(type) {
	case *ssa.Function:
		r.add(x)
	case *ssa.MakeClosure:
		f, _ := x.Fn.(*ssa.Function)
		r.add(f)
	case *ssa.Const:
		if x.Value != nil {
			r.complete = false
		}
		// a nil function: calling it stops the program there, it yields nothing
	case *ssa.Phi:
		for _, e := range x.Edges {
			r.value(e, bs, depth+1)
		}
	case *ssa.Parameter:
		r.param(x, bs, depth, r.value)
	case *ssa.Call:
		r.results(x, 0, bs, depth, r.value)
	case *ssa.Extract:
		if c, ok := x.Tuple.(*ssa.Call); ok {
			r.results(c, x.Index, bs, depth, r.value)
		} else {
			r.complete = false
		}
	case *ssa.FreeVar:
		// a captured value (not a cell): what the closure was made with
		r.captured(x, func(b ssa.Value) { r.value(b, bs, depth+1) })
	case *ssa.UnOp:
		if x.Op != token.MUL {
			r.complete = false
			return
		}
		switch a := x.X.(type) {
		case *ssa.Global:
			r.global(a, bs, depth, r.value)
		case *ssa.Alloc, *ssa.FreeVar:
			r.cell(a, bs, depth, r.value)
		case *ssa.IndexAddr:
			r.elemKeys[elemTypeKey(a)] = true
			r.table(a.X, bs, depth+1)
		default:
			r.mayOnly(v)
		}
	default:
		r.mayOnly(v)
	}
}

// mayOnly: a shape this walk does not follow (record members ...): what the older may-analysis finds, never complete.
func (r *fnValResolver) mayOnly(v ssa.Value) {
	r.complete = false
	for _, f := range closureTargets(v, 0, map[ssa.Value]bool{}) {
		r.add(f)
	}
}

// captured: the values a closure's free variable was bound to where the closure was made.
func (r *fnValResolver) captured(fv *ssa.FreeVar, cont func(ssa.Value)) {
	g := fv.Parent()
	if g == nil || g.Parent() == nil {
		r.complete = false
		return
	}
	n := 0
	for j, x := range g.FreeVars {
		if x != fv {
			continue
		}
		forEachInstr(g.Parent(), func(_ *ssa.BasicBlock, ins ssa.Instruction) {
			if mc, ok := ins.(*ssa.MakeClosure); ok && mc.Fn == ssa.Value(g) && j < len(mc.Bindings) {
				n++
				cont(mc.Bindings[j])
			}
		})
	}
	if n == 0 {
		r.complete = false
	}
}

// cell: the values stored into a local variable that lives in a cell (in the declaring function and in every closure that
// captured the cell).
func (r *fnValResolver) cell(addr ssa.Value, bs bindings, depth int, cont func(ssa.Value, bindings, int)) {
	if depth > 14 {
		r.complete = false
		return
	}
	switch a := addr.(type) {
	case *ssa.Alloc:
		stores, escaped := cellStores(a)
		if escaped {
			r.complete = false
		}
		for _, st := range stores {
			cont(st.Val, bs, depth+1)
		}
	case *ssa.FreeVar:
		r.captured(a, func(b ssa.Value) { r.cell(b, bs, depth+1, cont) })
	default:
		r.complete = false
	}
}

func (r *fnValResolver) global(g *ssa.Global, bs bindings, depth int, cont func(ssa.Value, bindings, int)) {
	if r.ix.globalOther[g] {
		r.complete = false
	}
	if p := g.Pkg; p != r.w.Parser && p != r.w.Model && p != r.w.Cmd {
		r.complete = false
	}
	for _, st := range r.ix.globalStores[g] {
		cont(st.Val, nil, depth+1)
	}
}

// param: the caller's argument - of the caller being followed, or of every call site.
func (r *fnValResolver) param(p *ssa.Parameter, bs bindings, depth int, cont func(ssa.Value, bindings, int)) {
	if a, ok := bs[p]; ok {
		nb := bindings{}
		for k, v := range bs {
			if k != p {
				nb[k] = v
			}
		}
		cont(a, nb, depth+1)
		return
	}
	if r.seen[p] {
		return
	}
	r.seen[p] = true
	fn := p.Parent()
	idx := -1
	for i, q := range fn.Params {
		if q == p {
			idx = i
		}
	}
	n := r.w.CallGraph().Nodes[fn]
	if n == nil || len(n.In) == 0 || idx < 0 {
		r.complete = false
		return
	}
	for _, e := range n.In {
		if e.Site == nil {
			r.complete = false
			continue
		}
		args := e.Site.Common().Args
		if e.Site.Common().IsInvoke() {
			args = append([]ssa.Value{e.Site.Common().Value}, args...)
		}
		if idx >= len(args) {
			r.complete = false
			continue
		}
		cont(args[idx], nil, depth+1)
	}
}

// results: what a call yields in result i - every return of every function the call can enter, the callee's parameters bound to
// this call's arguments.
func (r *fnValResolver) results(c *ssa.Call, i int, bs bindings, depth int, cont func(ssa.Value, bindings, int)) {
	cc := c.Common()
	if cc.IsInvoke() {
		r.complete = false
		return
	}
	if _, isB := cc.Value.(*ssa.Builtin); isB {
		r.complete = false
		return
	}
	var callees []*ssa.Function
	if f := cc.StaticCallee(); f != nil {
		callees = []*ssa.Function{f}
	} else {
		tg, complete := r.w.fnValueTargets(cc.Value, bs)
		if !complete {
			r.complete = false
		}
		callees = tg
	}
	for _, g := range callees {
		if g.Blocks == nil || r.inCall[g] {
			r.complete = false
			continue
		}
		nb := bindings{}
		for k, v := range bs {
			nb[k] = v
		}
		for k, p := range g.Params {
			if k < len(cc.Args) {
				nb[p] = cc.Args[k]
			}
		}
		r.inCall[g] = true
		for _, b := range g.Blocks {
			if ret, ok := b.Instrs[len(b.Instrs)-1].(*ssa.Return); ok {
				if i < len(ret.Results) {
					cont(ret.Results[i], nb, depth+1)
				} else {
					r.complete = false
				}
			}
		}
		delete(r.inCall, g)
	}
}

// table: the members of a table of functions, given the table (a slice value, or the address of an array).
func (r *fnValResolver) table(t ssa.Value, bs bindings, depth int) {
	if t == nil || depth > 14 {
		r.complete = false
		return
	}
	t = stripIdentity(t)
	if _, isParam := t.(*ssa.Parameter); !isParam {
		if r.seenTab[t] {
			return
		}
		r.seenTab[t] = true
	}
	switch x := t.(type) {
	case *ssa.Slice:
		r.table(x.X, bs, depth+1)
	case *ssa.Alloc:
		// the array behind a literal (or a local array / a local slice variable in a cell)
		if _, isArr := x.Type().Underlying().(*types.Pointer).Elem().Underlying().(*types.Array); !isArr {
			r.cell(x, bs, depth, r.table)
			return
		}
		if x.Referrers() == nil {
			return
		}
		for _, ref := range *x.Referrers() {
			switch y := ref.(type) {
			case *ssa.IndexAddr:
				if y.Referrers() == nil {
					continue
				}
				for _, r2 := range *y.Referrers() {
					switch z := r2.(type) {
					case *ssa.Store:
						if z.Addr == ssa.Value(y) {
							r.followed[z] = true
							r.value(z.Val, bs, depth+1)
						} else {
							r.complete = false
						}
					case *ssa.UnOp, *ssa.DebugRef:
					default:
						r.complete = false
					}
				}
			case *ssa.Slice, *ssa.DebugRef:
			default:
				r.complete = false // the array is written as a whole, or handed to something that may write it
			}
		}
	case *ssa.Const:
		// a nil table has no members
	case *ssa.Phi:
		for _, e := range x.Edges {
			r.table(e, bs, depth+1)
		}
	case *ssa.Parameter:
		r.param(x, bs, depth, r.table)
	case *ssa.FreeVar:
		r.captured(x, func(b ssa.Value) { r.table(b, bs, depth+1) })
	case *ssa.Extract:
		if c, ok := x.Tuple.(*ssa.Call); ok {
			r.results(c, x.Index, bs, depth, r.table)
		} else {
			r.complete = false
		}
	case *ssa.Call:
		if b, isB := x.Call.Value.(*ssa.Builtin); isB && b.Name() == "append" {
			for _, a := range x.Call.Args {
				r.table(a, bs, depth+1)
			}
			return
		}
		r.results(x, 0, bs, depth, r.table)
	case *ssa.UnOp:
		if x.Op != token.MUL {
			r.complete = false
			return
		}
		switch a := x.X.(type) {
		case *ssa.Global:
			r.global(a, bs, depth, r.table)
		case *ssa.Alloc, *ssa.FreeVar:
			r.cell(a, bs, depth, r.table)
		default:
			r.complete = false
		}
	default:
		r.complete = false
	}
}

// isGenericTemplate: fn is the body of a generic function (or a function literal inside one) as it was declared, type parameters
// unresolved. The program is built with every generic function instantiated for the type arguments it is used with; calls enter the
// instances, which are functions of their own (and subjects of the rules); the declared body is the template they were made from
// and is entered by no call outside other templates.
func (w *World) isGenericTemplate(fn *ssa.Function) bool {
	root := fn
	for root.Parent() != nil {
		root = root.Parent()
	}
	if root.TypeParams().Len() == 0 || len(root.TypeArgs()) > 0 {
		return false
	}
	if n := w.CallGraph().Nodes[root]; n != nil {
		for _, e := range n.In {
			c := e.Caller.Func
			for c.Parent() != nil {
				c = c.Parent()
			}
			if c.TypeParams().Len() > 0 && len(c.TypeArgs()) == 0 {
				continue // another template
			}
			return false
		}
	}
	return true
}
