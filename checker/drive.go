package main

import (
	"fmt"
	"go/token"
	"go/types"
	"sort"
	"strings"

	"golang.org/x/tools/go/ssa"
)

// The command driver (cmd.Compile and whatever cmd helpers it is split into) is judged on an inlined view:
//   - calls to cmd helpers are followed with their parameters bound to the call-site arguments,
//   - a small symbolic evaluator resolves the operands of WriteCodeToFile to "outputs[k]" / "the file map of generator G",
//     through table literals (local or package level), closures and helper returns,
//   - "behind the gate" and "error delivered" are decided across helper boundaries.
// Nothing here is keyed by the name of a helper, a variable or a struct field.

type driver struct {
	w         *World
	compile   *ssa.Function
	fns       map[*ssa.Function]bool                  // Compile and the cmd functions it reaches by static calls
	sites     map[*ssa.Function][]ssa.CallInstruction // static call sites (inside fns) of each helper
	tables    map[ssa.Value]*drvTable                 // array alloc / global -> table
	lastTable *drvTable                               // the table of the latest evalOverTable that needed one
	saw       *drvTable                               // set when an evaluation needed "the current element" of a table and none was selected
	appends   []drvAppend                             // the append sites the latest evaluations resolved list elements through
	flagReads map[string][]symv                       // output key -> the flag sets its directory was read from directly (GetString on a parsed flag set)
	entrySite ssa.CallInstruction                     // the unique static call of Compile inside cmd (nil when there is none or several)
	entryDone bool
}

// fnPkg: the package of a function; an instance of a generic function belongs to the package of its origin.
func fnPkg(f *ssa.Function) *ssa.Package {
	if f == nil {
		return nil
	}
	if f.Pkg == nil {
		if o := f.Origin(); o != nil {
			return o.Pkg
		}
	}
	return f.Pkg
}

// entryBound: what a parameter of Compile that is neither the outputs map nor the input path is bound to - the argument at the one
// place in cmd that calls Compile (a list of requests assembled by the command's Run function, ...).
func (d *driver) entryBound(p *ssa.Parameter, e *drvEnv) (drvBound, bool) {
	if p.Parent() != d.compile || d.compile == nil {
		return drvBound{}, false
	}
	if _, isMap := p.Type().Underlying().(*types.Map); isMap || isStringType(p.Type()) {
		return drvBound{}, false
	}
	if !d.entryDone {
		d.entryDone = true
		n := 0
		for _, g := range d.w.srcFuncs {
			if g.Pkg != d.w.Cmd && (g.Parent() == nil || g.Parent().Pkg != d.w.Cmd) {
				continue
			}
			forEachInstr(g, func(_ *ssa.BasicBlock, ins ssa.Instruction) {
				if c, ok := ins.(ssa.CallInstruction); ok && c.Common().StaticCallee() == d.compile {
					d.entrySite = c
					n++
				}
			})
		}
		if n != 1 {
			d.entrySite = nil
		}
	}
	if d.entrySite == nil {
		return drvBound{}, false
	}
	for i, q := range d.compile.Params {
		if q == p && i < len(d.entrySite.Common().Args) {
			ne := &drvEnv{}
			if e != nil {
				ne.tbl, ne.lit = e.tbl, e.lit
			}
			return drvBound{d.entrySite.Common().Args[i], ne}, true
		}
	}
	return drvBound{}, false
}

type drvAppend struct {
	call *ssa.Call
	env  *drvEnv
}

type drvLit struct {
	fields map[string]ssa.Value
	fn     *ssa.Function
	pos    string
	tname  string // name of the package-level variable holding the table ("" for a local one)
	idx    int64
}

type drvTable struct {
	lits map[int64]*drvLit
}

func newDriver(w *World) *driver {
	d := &driver{w: w, compile: w.Cmd.Func("Compile"), fns: map[*ssa.Function]bool{}, sites: map[*ssa.Function][]ssa.CallInstruction{}, tables: map[ssa.Value]*drvTable{}, flagReads: map[string][]symv{}}
	if d.compile == nil {
		return d
	}
	d.fns[d.compile] = true
	work := []*ssa.Function{d.compile}
	for len(work) > 0 {
		f := work[len(work)-1]
		work = work[:len(work)-1]
		forEachInstr(f, func(_ *ssa.BasicBlock, ins ssa.Instruction) {
			c, ok := ins.(ssa.CallInstruction)
			if !ok {
				return
			}
			g := c.Common().StaticCallee()
			if g == nil || fnPkg(g) != w.Cmd || g.Blocks == nil || g == d.compile {
				return
			}
			d.sites[g] = append(d.sites[g], c)
			if !d.fns[g] {
				d.fns[g] = true
				work = append(work, g)
			}
		})
	}
	d.findTables()
	return d
}

func (d *driver) sortedFns() []*ssa.Function { return sortedFuncs(d.fns) }

// findTables: arrays of structs filled element by element (the backing store of a slice literal), local or stored into a global.
func (d *driver) findTables() {
	var scan []*ssa.Function
	for f := range d.fns {
		scan = append(scan, f)
	}
	for _, f := range d.w.srcFuncs {
		if f.Pkg == d.w.Cmd && strings.HasPrefix(f.Name(), "init") {
			scan = append(scan, f)
		}
	}
	for _, f := range scan {
		forEachInstr(f, func(_ *ssa.BasicBlock, ins ssa.Instruction) {
			st, ok := ins.(*ssa.Store)
			if !ok {
				return
			}
			switch a := st.Addr.(type) {
			case *ssa.FieldAddr:
				ia, ok := a.X.(*ssa.IndexAddr)
				if !ok {
					return
				}
				idx, ok := ia.Index.(*ssa.Const)
				if !ok || idx.Value == nil {
					return
				}
				arr := stripIdentity(ia.X)
				if _, isAlloc := arr.(*ssa.Alloc); !isAlloc {
					return
				}
				t := d.tables[arr]
				if t == nil {
					t = &drvTable{lits: map[int64]*drvLit{}}
					d.tables[arr] = t
				}
				l := t.lits[idx.Int64()]
				if l == nil {
					l = &drvLit{fields: map[string]ssa.Value{}, fn: f, pos: d.w.instrPos(ins)}
					t.lits[idx.Int64()] = l
				}
				_, fname, _, _ := fieldOf(a)
				l.fields[fname] = st.Val
			case *ssa.IndexAddr:
				// element built in a local composite literal and copied in whole: arr[i] = *lit
				idx, ok := a.Index.(*ssa.Const)
				arr := stripIdentity(a.X)
				if _, isAlloc := arr.(*ssa.Alloc); !ok || idx.Value == nil || !isAlloc {
					return
				}
				if pl, isPtrLit := stripIdentity(st.Val).(*ssa.Alloc); isPtrLit && pl.Referrers() != nil {
					// a table of pointers to records: arr[i] = &T{...}
					if pt, ok := pl.Type().(*types.Pointer); ok {
						if _, isStruct := pt.Elem().Underlying().(*types.Struct); isStruct {
							t := d.tables[arr]
							if t == nil {
								t = &drvTable{lits: map[int64]*drvLit{}}
								d.tables[arr] = t
							}
							l := &drvLit{fields: map[string]ssa.Value{}, fn: f, pos: d.w.instrPos(ins), idx: idx.Int64()}
							t.lits[idx.Int64()] = l
							for _, ref := range *pl.Referrers() {
								if fa, ok := ref.(*ssa.FieldAddr); ok && fa.Referrers() != nil {
									_, fname, _, _ := fieldOf(fa)
									for _, r2 := range *fa.Referrers() {
										if s2, ok := r2.(*ssa.Store); ok && s2.Addr == ssa.Value(fa) {
											l.fields[fname] = s2.Val
										}
									}
								}
							}
							return
						}
					}
				}
				ld, ok := stripIdentity(st.Val).(*ssa.UnOp)
				if !ok || ld.Op != token.MUL {
					// a table of plain values (e.g. the ordered list of output keys): the element is its own only "field"
					if _, isStruct := st.Val.Type().Underlying().(*types.Struct); !isStruct {
						t := d.tables[arr]
						if t == nil {
							t = &drvTable{lits: map[int64]*drvLit{}}
							d.tables[arr] = t
						}
						t.lits[idx.Int64()] = &drvLit{fields: map[string]ssa.Value{"": st.Val}, fn: f, pos: d.w.instrPos(ins)}
					}
					return
				}
				lit, ok := ld.X.(*ssa.Alloc)
				if !ok {
					return
				}
				t := d.tables[arr]
				if t == nil {
					t = &drvTable{lits: map[int64]*drvLit{}}
					d.tables[arr] = t
				}
				l := &drvLit{fields: map[string]ssa.Value{}, fn: f, pos: d.w.instrPos(ins)}
				t.lits[idx.Int64()] = l
				for _, ref := range *lit.Referrers() {
					if fa, ok := ref.(*ssa.FieldAddr); ok {
						_, fname, _, _ := fieldOf(fa)
						for _, r2 := range *fa.Referrers() {
							if s2, ok := r2.(*ssa.Store); ok && s2.Addr == ssa.Value(fa) {
								l.fields[fname] = s2.Val
							}
						}
					}
				}
			case *ssa.Global:
				// var table = []T{...}: the slice of a filled array is stored into the global
				if sl, ok := stripIdentity(st.Val).(*ssa.Slice); ok {
					if t := d.tables[stripIdentity(sl.X)]; t != nil {
						d.tables[a] = t
						for i, l := range t.lits {
							l.tname, l.idx = a.Name(), i
						}
					}
				}
				// var table = [...]T{...}: the filled array itself is copied into the variable
				if ld, ok := stripIdentity(st.Val).(*ssa.UnOp); ok && ld.Op == token.MUL {
					if t := d.tables[stripIdentity(ld.X)]; t != nil {
						d.tables[a] = t
						for i, l := range t.lits {
							l.tname, l.idx = a.Name(), i
						}
					}
				}
			}
		})
	}
	// second pass for globals stored before their array was seen (instruction order inside init is textual, so rarely needed)
	for _, f := range scan {
		forEachInstr(f, func(_ *ssa.BasicBlock, ins ssa.Instruction) {
			if st, ok := ins.(*ssa.Store); ok {
				if g, ok := st.Addr.(*ssa.Global); ok && d.tables[g] == nil {
					if sl, ok := stripIdentity(st.Val).(*ssa.Slice); ok {
						if t := d.tables[stripIdentity(sl.X)]; t != nil {
							d.tables[g] = t
							for i, l := range t.lits {
								l.tname, l.idx = g.Name(), i
							}
						}
					}
				}
			}
		})
	}
}

// tableOf: the table an indexed base denotes (slice of a filled array, or a load of a global holding one).
func (d *driver) tableOf(base ssa.Value) *drvTable {
	base = stripIdentity(base)
	switch x := base.(type) {
	case *ssa.Slice:
		return d.tableOf(x.X)
	case *ssa.Alloc:
		return d.tables[x]
	case *ssa.Global:
		return d.tables[x] // an array variable indexed in place
	case *ssa.UnOp:
		if x.Op == token.MUL {
			if g, ok := x.X.(*ssa.Global); ok {
				return d.tables[g]
			}
		}
	}
	return nil
}

// ---- symbolic values ----

type symv struct {
	Kind  string // str | outputs | outkey | flagvar | model | genobj | gencall | genmap | generr | func | elem | tuple | maplit | unknown
	S     string
	Fn    *ssa.Function
	Env   *drvEnv
	Elems []symv
	Map   map[string]symv
	Why   string
}

func (s symv) String() string {
	switch s.Kind {
	case "str":
		return fmt.Sprintf("%q", s.S)
	case "outkey":
		return "outputs[" + s.S + "]"
	case "genmap", "generr", "genobj", "gencall":
		return s.Kind + "(" + s.S + ")"
	case "flagvar":
		return "flag variable " + s.S
	case "unknown":
		return "unresolved (" + s.Why + ")"
	}
	return s.Kind
}

type drvBound struct {
	v ssa.Value
	e *drvEnv
}

type drvEnv struct {
	params map[*ssa.Parameter]drvBound
	free   map[*ssa.FreeVar]symv
	tbl    *drvTable
	lit    *drvLit
}

func unknown(why string) symv { return symv{Kind: "unknown", Why: why} }

func (d *driver) eval(v ssa.Value, e *drvEnv, depth int) symv {
	if depth > 24 {
		return unknown("depth")
	}
	if e == nil {
		e = &drvEnv{}
	}
	switch x := v.(type) {
	case *ssa.Const:
		if s, ok := constString(x); ok {
			return symv{Kind: "str", S: s}
		}
		if x.IsNil() {
			return symv{Kind: "nil"}
		}
		return unknown("constant")
	case *ssa.Global:
		return symv{Kind: "addr", S: x.Name()}
	case *ssa.Function:
		return symv{Kind: "func", Fn: x, Env: &drvEnv{tbl: e.tbl, lit: e.lit}}
	case *ssa.MakeClosure:
		fn := x.Fn.(*ssa.Function)
		ne := &drvEnv{free: map[*ssa.FreeVar]symv{}, tbl: e.tbl, lit: e.lit}
		for i, b := range x.Bindings {
			if i < len(fn.FreeVars) {
				if al, ok := b.(*ssa.Alloc); ok {
					if s := d.singleStore(al); s != nil {
						// a variable captured by reference that is assigned once: its content
						ne.free[fn.FreeVars[i]] = d.eval(s, e, depth+1)
						continue
					}
				}
				ne.free[fn.FreeVars[i]] = d.eval(b, e, depth+1)
			}
		}
		return symv{Kind: "func", Fn: fn, Env: ne}
	case *ssa.FreeVar:
		if s, ok := e.free[x]; ok {
			return s
		}
		return unknown("free variable " + x.Name())
	case *ssa.Parameter:
		if b, ok := e.params[x]; ok {
			return d.eval(b.v, b.e, depth+1)
		}
		if b, ok := d.entryBound(x, e); ok {
			return d.eval(b.v, b.e, depth+1)
		}
		if pt, ok := x.Type().(*types.Pointer); ok && typeIs(pt.Elem(), "github.com/spf13/cobra", "Command") && x.Parent() != nil && runFieldOf(d.w, x.Parent()) != "" {
			// the command a Run function is invoked for
			return symv{Kind: "runcmd", S: ownerCommandOf(d.w, x.Parent())}
		}
		if x.Parent() == d.compile {
			if _, isMap := x.Type().Underlying().(*types.Map); isMap {
				return symv{Kind: "outputs"}
			}
			if isStringType(x.Type()) {
				return symv{Kind: "input"}
			}
		}
		if typeIs(x.Type(), modPath+"/internal/model", "BinaryModel") {
			return symv{Kind: "model"}
		}
		return unknown("parameter " + x.Name())
	case *ssa.Alloc:
		// a captured or spilled variable holding the model
		if p, ok := x.Type().(*types.Pointer); ok && typeIs(p.Elem(), modPath+"/internal/model", "BinaryModel") {
			return symv{Kind: "model"}
		}
		return unknown("local variable")
	case *ssa.MakeInterface:
		return d.eval(x.X, e, depth+1)
	case *ssa.ChangeInterface:
		return d.eval(x.X, e, depth+1)
	case *ssa.ChangeType:
		return d.eval(x.X, e, depth+1)
	case *ssa.TypeAssert:
		return d.eval(x.X, e, depth+1)
	case *ssa.Phi:
		var first *symv
		for _, ed := range x.Edges {
			s := d.eval(ed, e, depth+1)
			if first == nil {
				first = &s
			} else if first.Kind != s.Kind || first.S != s.S {
				return unknown("value differs between paths")
			}
		}
		if first != nil {
			return *first
		}
		return unknown("phi")
	case *ssa.Lookup:
		m := d.eval(x.X, e, depth+1)
		k := d.eval(x.Index, e, depth+1)
		if m.Kind == "outputs" && k.Kind == "str" {
			return symv{Kind: "outkey", S: k.S}
		}
		if m.Kind == "maplit" && k.Kind == "str" {
			if s, ok := m.Map[k.S]; ok {
				return s
			}
		}
		if k.Kind == "unknown" {
			return k
		}
		return unknown("lookup in " + m.Kind)
	case *ssa.MakeMap:
		out := symv{Kind: "maplit", Map: map[string]symv{}}
		for _, ref := range *x.Referrers() {
			if mu, ok := ref.(*ssa.MapUpdate); ok {
				d.saw = nil
				k := d.eval(mu.Key, e, depth+1)
				if k.Kind != "str" {
					// filled in a loop over a table: one entry per table element
					if t := d.saw; t != nil && e.lit == nil {
						d.saw = nil
						okAll := true
						for _, l := range t.lits {
							le := d.withLit(e, t, l)
							kk := d.eval(mu.Key, le, depth+1)
							if kk.Kind != "str" {
								okAll = false
								break
							}
							out.Map[kk.S] = d.eval(mu.Value, le, depth+1)
						}
						if okAll {
							continue
						}
					}
					return unknown("map literal with a computed key")
				}
				out.Map[k.S] = d.eval(mu.Value, e, depth+1)
			}
		}
		return out
	case *ssa.Index:
		if t := d.tableOf(x.X); t != nil {
			el := d.elemOf(t, e)
			if el.Kind == "elem" {
				if _, plain := e.lit.fields[""]; plain {
					return d.evalLitField("", e, depth)
				}
			}
			return el
		}
		return unknown("indexed value")
	case *ssa.IndexAddr:
		// the address of a table entry stands for the entry (records that point at their row)
		if t := d.tableOf(x.X); t != nil {
			return d.elemOf(t, e)
		}
		return unknown("address of an indexed value")
	case *ssa.Field:
		b := d.eval(x.X, e, depth+1)
		if b.Kind == "elem" {
			_, f, _, _ := fieldOf(x)
			return d.evalLitField(f, e, depth)
		}
		if b.Kind == "struct" {
			_, f, _, _ := fieldOf(x)
			if v, ok := b.Map[f]; ok {
				return v
			}
			return unknown("field " + f + " not set in the literal")
		}
		if b.Kind == "unknown" {
			return b
		}
		return unknown("field of " + b.Kind)
	case *ssa.UnOp:
		if x.Op != token.MUL {
			return unknown("operator")
		}
		switch a := x.X.(type) {
		case *ssa.Global:
			if d.tables[a] != nil {
				return symv{Kind: "table"}
			}
			if mm := d.globalInit(a); mm != nil {
				return d.eval(mm, &drvEnv{tbl: e.tbl, lit: e.lit}, depth+1)
			}
			return symv{Kind: "flagvar", S: a.Name()}
		case *ssa.IndexAddr:
			if t := d.tableOf(a.X); t != nil {
				el := d.elemOf(t, e)
				if el.Kind == "elem" {
					if _, plain := e.lit.fields[""]; plain {
						return d.evalLitField("", e, depth)
					}
				}
				return el
			}
			// an element of a list that was built from a table (one record appended per table entry, possibly filtered)
			if el, ok := d.derivedElem(a.X, e, depth+1, map[ssa.Value]bool{}); ok {
				return el
			}
			return unknown("indexed value")
		case *ssa.FieldAddr:
			// field of a table element addressed in place, or of a spilled copy of it
			if ia, ok := a.X.(*ssa.IndexAddr); ok {
				if t := d.tableOf(ia.X); t != nil {
					if el := d.elemOf(t, e); el.Kind == "elem" {
						_, f, _, _ := fieldOf(a)
						return d.evalLitField(f, e, depth)
					} else {
						return el
					}
				}
			}
			if al, ok := a.X.(*ssa.Alloc); ok {
				if s := d.singleStore(al); s != nil {
					b := d.eval(s, e, depth+1)
					_, f, _, _ := fieldOf(a)
					if b.Kind == "elem" {
						return d.evalLitField(f, e, depth)
					}
					if b.Kind == "struct" {
						if v, ok := b.Map[f]; ok {
							return v
						}
					}
				}
			}
			tn, f, _, _ := fieldOf(a)
			if tn == "BinaryModel" {
				return symv{Kind: "modelfield", S: f}
			}
			// a member of the current table element reached through a pointer (a table of *T, an element handed to a helper)
			if base := d.eval(a.X, e, depth+1); base.Kind == "elem" {
				return d.evalLitField(f, e, depth)
			} else if base.Kind == "struct" {
				if v, ok := base.Map[f]; ok {
					return v
				}
			}
			// a member of a package-level record (flag variables grouped in a struct), possibly through a pointer receiver
			if base := d.eval(a.X, e, depth+1); base.Kind == "addr" {
				return symv{Kind: "flagvar", S: base.S + "." + f}
			}
			return unknown("field " + tn + "." + f)
		case *ssa.Alloc:
			if s := d.singleStore(a); s != nil {
				return d.eval(s, e, depth+1)
			}
			if pt, ok := a.Type().(*types.Pointer); ok {
				if _, isStruct := pt.Elem().Underlying().(*types.Struct); isStruct {
					out := symv{Kind: "struct", Map: map[string]symv{}}
					for _, ref := range *a.Referrers() {
						if fa, ok := ref.(*ssa.FieldAddr); ok {
							_, fname, _, _ := fieldOf(fa)
							for _, r2 := range *fa.Referrers() {
								if st, ok := r2.(*ssa.Store); ok && st.Addr == ssa.Value(fa) {
									out.Map[fname] = d.eval(st.Val, e, depth+1)
								}
							}
						}
					}
					if len(out.Map) > 0 {
						return out
					}
				}
			}
			if p, ok := a.Type().(*types.Pointer); ok && typeIs(p.Elem(), modPath+"/internal/model", "BinaryModel") {
				return symv{Kind: "model"}
			}
			return unknown("variable assigned more than once")
		case *ssa.FreeVar:
			return d.eval(a, e, depth+1)
		}
		if inner := d.eval(x.X, e, depth+1); inner.Kind == "genobj" || inner.Kind == "model" {
			return inner // value copy of a generator (value receiver) / the model behind a pointer
		}
		return unknown("load")
	case *ssa.Extract:
		t := d.eval(x.Tuple, e, depth+1)
		switch t.Kind {
		case "gencall":
			if x.Index == 0 {
				return symv{Kind: "genmap", S: t.S}
			}
			return symv{Kind: "generr", S: t.S}
		case "tuple":
			if x.Index < len(t.Elems) {
				return t.Elems[x.Index]
			}
		case "unknown":
			return t
		}
		return unknown("component of " + t.Kind)
	case *ssa.Call:
		cc := x.Call
		if cc.IsInvoke() {
			if cc.Method.Name() == "Generate" {
				r := d.eval(cc.Value, e, depth+1)
				if r.Kind == "genobj" {
					return symv{Kind: "gencall", S: r.S}
				}
				return unknown("Generate on " + r.String())
			}
			return unknown("interface call " + cc.Method.Name())
		}
		f := cc.StaticCallee()
		args := cc.Args
		var fenv *drvEnv
		if f == nil {
			if _, isB := cc.Value.(*ssa.Builtin); isB {
				return unknown("builtin")
			}
			fv := d.eval(cc.Value, e, depth+1)
			if fv.Kind == "unknown" {
				return fv
			}
			if fv.Kind != "func" || fv.Fn == nil {
				return unknown("call of a " + fv.Kind)
			}
			// a call through a function value is a call of the function it holds
			f, fenv = fv.Fn, fv.Env
		}
		if len(f.FreeVars) == 0 {
			if f.String() == "(*github.com/spf13/cobra.Command).Flags" && len(args) == 1 {
				c := d.eval(args[0], e, depth+1)
				if c.Kind == "runcmd" || c.Kind == "flagvar" {
					return symv{Kind: "flagset", S: c.S}
				}
				return unknown("flag set of " + c.String())
			}
			if f.String() == "(*github.com/spf13/pflag.FlagSet).GetString" && len(args) == 2 {
				// the parsed value of a string flag read from a flag set: the output directory of the target that flag selects
				fs := d.eval(args[0], e, depth+1)
				name := d.eval(args[1], e, depth+1)
				if name.Kind == "unknown" {
					return name
				}
				if name.Kind != "str" {
					return unknown("value of a flag named by " + name.String())
				}
				if fs.Kind != "flagset" {
					return unknown("value of flag --" + name.S + " of " + fs.String())
				}
				for _, k := range sortedKeys(flagKeyNames) {
					if flagKeyNames[k] == name.S {
						d.flagReads[k] = append(d.flagReads[k], fs)
						return symv{Kind: "tuple", Elems: []symv{{Kind: "outkey", S: k}, {Kind: "flagerr", S: name.S}}}
					}
				}
				return symv{Kind: "tuple", Elems: []symv{{Kind: "flagval", S: name.S}, {Kind: "flagerr", S: name.S}}}
			}
			if fnPkg(f) == d.w.Parser {
				for _, g := range generators {
					if f.Name() == g.Ctor {
						return symv{Kind: "genobj", S: g.Ctor}
					}
				}
				if f.Name() == "Generate" && len(args) > 0 {
					r := d.eval(args[0], e, depth+1)
					if r.Kind == "genobj" {
						return symv{Kind: "gencall", S: r.S}
					}
					return unknown("Generate on " + r.String())
				}
				if f.Name() == "ParseFile" {
					return symv{Kind: "tuple", Elems: []symv{{Kind: "model"}, {Kind: "parseerr"}}}
				}
				return unknown("call of parser." + f.Name())
			}
			if fnPkg(f) == d.w.Cmd && f.Blocks != nil {
				return d.evalReturn(f, args, e, &drvEnv{tbl: e.tbl, lit: e.lit}, depth)
			}
			return unknown("call of " + f.String())
		}
		if f.Blocks != nil {
			return d.evalReturn(f, args, e, fenv, depth)
		}
		return unknown("call of a function value without a body")
	}
	return unknown(fmt.Sprintf("%T", v))
}

// derivedElem: list is a slice assembled by appends (in this function, or in a cmd helper that returns it); the symbolic value of
// "an element of it" is the value appended - evaluated in the environment of the function that appends, so that a record built from
// the current entry of a table (`append(sel, target{lang: k.lang, path: outputs[k.key], gen: k.gen})`) resolves per table entry.
func (d *driver) derivedElem(list ssa.Value, e *drvEnv, depth int, seen map[ssa.Value]bool) (symv, bool) {
	if depth > 24 || seen[list] {
		return symv{}, false
	}
	seen[list] = true
	switch x := list.(type) {
	case *ssa.Parameter:
		if b, ok := e.params[x]; ok {
			return d.derivedElem(b.v, b.e, depth+1, seen)
		}
		if b, ok := d.entryBound(x, e); ok {
			return d.derivedElem(b.v, b.e, depth+1, seen)
		}
		return symv{}, false
	case *ssa.Extract:
		// one component of what a cmd helper returns (`list, err := assemble(...)`)
		if c, ok := x.Tuple.(*ssa.Call); ok {
			return d.derivedFromCall(c, x.Index, e, depth, seen)
		}
		return symv{}, false
	case *ssa.Slice:
		return d.derivedElem(x.X, e, depth+1, seen)
	case *ssa.ChangeType:
		return d.derivedElem(x.X, e, depth+1, seen)
	case *ssa.UnOp:
		if al, ok := x.X.(*ssa.Alloc); ok && x.Op == token.MUL {
			var res *symv
			for _, ref := range *al.Referrers() {
				if st, ok := ref.(*ssa.Store); ok && st.Addr == ssa.Value(al) {
					if k, isC := st.Val.(*ssa.Const); isC && k.IsNil() {
						continue
					}
					s, ok := d.derivedElem(st.Val, e, depth+1, seen)
					if !ok {
						continue
					}
					if res != nil && !sameSym(*res, s) {
						return symv{}, false
					}
					res = &s
				}
			}
			if res != nil {
				return *res, true
			}
		}
		return symv{}, false
	case *ssa.Phi:
		var res *symv
		for _, ed := range x.Edges {
			if k, isC := ed.(*ssa.Const); isC && k.IsNil() {
				continue
			}
			s, ok := d.derivedElem(ed, e, depth+1, seen)
			if !ok {
				continue // the other edges of the accumulation (the phi itself, the empty start value)
			}
			if res != nil && !sameSym(*res, s) {
				return symv{}, false
			}
			res = &s
		}
		if res != nil {
			return *res, true
		}
		return symv{}, false
	case *ssa.Call:
		if bi, ok := x.Call.Value.(*ssa.Builtin); ok {
			if bi.Name() != "append" || len(x.Call.Args) != 2 {
				return symv{}, false
			}
			ops := variadicOperands(x.Call.Args[1])
			if len(ops) != 1 || ops[0] == nil {
				return symv{}, false
			}
			d.appends = append(d.appends, drvAppend{x, e})
			return d.eval(ops[0], e, depth+1), true
		}
		return d.derivedFromCall(x, -1, e, depth, seen)
	}
	return symv{}, false
}

// derivedFromCall: the list is result number idx (-1: the only result) of a cmd helper.
func (d *driver) derivedFromCall(x *ssa.Call, idx int, e *drvEnv, depth int, seen map[ssa.Value]bool) (symv, bool) {
	f := x.Call.StaticCallee()
	if f == nil || f.Blocks == nil || fnPkg(f) != d.w.Cmd {
		return symv{}, false
	}
	ne := &drvEnv{params: map[*ssa.Parameter]drvBound{}, free: map[*ssa.FreeVar]symv{}, tbl: e.tbl, lit: e.lit}
	for i, p := range f.Params {
		if i < len(x.Call.Args) {
			ne.params[p] = drvBound{x.Call.Args[i], e}
		}
	}
	var res *symv
	for _, b := range f.Blocks {
		ret, ok := b.Instrs[len(b.Instrs)-1].(*ssa.Return)
		if !ok {
			continue
		}
		var rv ssa.Value
		switch {
		case idx < 0 && len(ret.Results) == 1:
			rv = ret.Results[0]
		case idx >= 0 && idx < len(ret.Results):
			rv = ret.Results[idx]
		default:
			continue
		}
		if k, isC := rv.(*ssa.Const); isC && k.IsNil() {
			continue
		}
		s, ok := d.derivedElem(rv, ne, depth+1, seen)
		if !ok {
			return symv{}, false
		}
		if res != nil && !sameSym(*res, s) {
			return symv{}, false
		}
		res = &s
	}
	if res != nil {
		return *res, true
	}
	return symv{}, false
}

// globalInit: the map literal a package-level variable is initialised with (stored once, in init).
func (d *driver) globalInit(g *ssa.Global) ssa.Value {
	var val ssa.Value
	n := 0
	for _, f := range d.w.srcFuncs {
		if f.Pkg != d.w.Cmd {
			continue
		}
		forEachInstr(f, func(_ *ssa.BasicBlock, ins ssa.Instruction) {
			if st, ok := ins.(*ssa.Store); ok && st.Addr == ssa.Value(g) {
				n++
				val = st.Val
			}
		})
	}
	if n != 1 {
		return nil
	}
	if _, ok := stripIdentity(val).(*ssa.MakeMap); ok {
		return stripIdentity(val)
	}
	return nil
}

func isStringType(t types.Type) bool {
	b, ok := t.Underlying().(*types.Basic)
	return ok && b.Info()&types.IsString != 0
}

func (d *driver) singleStore(a *ssa.Alloc) ssa.Value {
	var val ssa.Value
	n := 0
	for _, ref := range *a.Referrers() {
		if st, ok := ref.(*ssa.Store); ok && st.Addr == ssa.Value(a) {
			n++
			val = st.Val
		}
	}
	if n == 1 {
		return val
	}
	return nil
}

func (d *driver) elemOf(t *drvTable, e *drvEnv) symv {
	if e.tbl == t && e.lit != nil {
		return symv{Kind: "elem"}
	}
	if e.tbl == nil || e.lit == nil {
		d.saw = t
		return unknown("table element")
	}
	return unknown("element of a second table")
}

func (d *driver) evalLitField(f string, e *drvEnv, depth int) symv {
	if e.lit == nil {
		return unknown("table element")
	}
	v, ok := e.lit.fields[f]
	if !ok {
		if e.lit.tname != "" {
			// a member the literal leaves at its zero value: a variable of its own (e.g. the target of a flag registration)
			return symv{Kind: "flagvar", S: fmt.Sprintf("%s[%d].%s", e.lit.tname, e.lit.idx, f)}
		}
		return unknown("field " + f + " not set in the table entry")
	}
	// the literal's values live in the function that built the table: its parameters are Compile's (or none) - or, when the table is
	// built in a helper that is being evaluated right now, the ones bound for that helper
	ne := &drvEnv{tbl: e.tbl, lit: e.lit}
	for p, b := range e.params {
		if p.Parent() == e.lit.fn {
			if ne.params == nil {
				ne.params = map[*ssa.Parameter]drvBound{}
			}
			ne.params[p] = b
		}
	}
	return d.eval(v, ne, depth+1)
}

// evalReturn: the value(s) a function returns, with its parameters bound to the call-site arguments.
func (d *driver) evalReturn(fn *ssa.Function, args []ssa.Value, callerEnv *drvEnv, fnEnv *drvEnv, depth int) symv {
	ne := &drvEnv{params: map[*ssa.Parameter]drvBound{}, free: map[*ssa.FreeVar]symv{}, tbl: callerEnv.tbl, lit: callerEnv.lit}
	if fnEnv != nil {
		for k, v := range fnEnv.free {
			ne.free[k] = v
		}
	}
	for i, p := range fn.Params {
		if i < len(args) {
			ne.params[p] = drvBound{args[i], callerEnv}
		}
	}
	var result *symv
	for _, b := range fn.Blocks {
		ret, ok := b.Instrs[len(b.Instrs)-1].(*ssa.Return)
		if !ok {
			continue
		}
		var s symv
		if len(ret.Results) == 1 {
			s = d.eval(ret.Results[0], ne, depth+1)
		} else {
			s = symv{Kind: "tuple"}
			for _, rv := range ret.Results {
				s.Elems = append(s.Elems, d.eval(rv, ne, depth+1))
			}
		}
		if result == nil {
			result = &s
			continue
		}
		if !sameSym(*result, s) {
			// `return nil, err` beside `return value, nil`: a nil component yields to what the other path returns
			if m, ok := mergeSym(*result, s); ok {
				result = &m
				continue
			}
			return unknown("function returns different values on different paths")
		}
	}
	if result == nil {
		return unknown("function does not return")
	}
	return *result
}

// mergeSym: two return values that differ only where one of them is nil (or, for errors, where one path made a fresh error).
func mergeSym(a, b symv) (symv, bool) {
	if sameSym(a, b) {
		return a, true
	}
	if a.Kind == "nil" {
		return b, true
	}
	if b.Kind == "nil" {
		return a, true
	}
	if a.Kind == "tuple" && b.Kind == "tuple" && len(a.Elems) == len(b.Elems) {
		out := symv{Kind: "tuple"}
		for i := range a.Elems {
			m, ok := mergeSym(a.Elems[i], b.Elems[i])
			if !ok {
				return symv{}, false
			}
			out.Elems = append(out.Elems, m)
		}
		return out, true
	}
	return symv{}, false
}

func sameSym(a, b symv) bool {
	if a.Kind != b.Kind || a.S != b.S || len(a.Elems) != len(b.Elems) {
		return false
	}
	for i := range a.Elems {
		if !sameSym(a.Elems[i], b.Elems[i]) {
			return false
		}
	}
	return true
}

// ---- inlined calls ----

type drvFrame struct {
	call ssa.CallInstruction // the call that entered the next function
	env  *drvEnv             // environment of the function containing that call
}

type drvCall struct {
	call   ssa.CallInstruction
	fn     *ssa.Function
	env    *drvEnv
	path   string     // how Compile reaches it
	frames []drvFrame // call sites from Compile down to fn
}

// inlinedCalls: every call instruction of Compile and of the cmd helpers it calls, each with the parameter bindings of its call path.
func (d *driver) inlinedCalls() []drvCall {
	var out []drvCall
	var walk func(fn *ssa.Function, env *drvEnv, path string, frames []drvFrame, depth int)
	walk = func(fn *ssa.Function, env *drvEnv, path string, frames []drvFrame, depth int) {
		if depth > 5 {
			return
		}
		forEachInstr(fn, func(_ *ssa.BasicBlock, ins ssa.Instruction) {
			c, ok := ins.(ssa.CallInstruction)
			if !ok {
				return
			}
			out = append(out, drvCall{c, fn, env, path, frames})
			g := c.Common().StaticCallee()
			if g == nil || !d.fns[g] || g == fn || g == d.compile {
				return
			}
			ne := &drvEnv{params: map[*ssa.Parameter]drvBound{}}
			for i, p := range g.Params {
				if i < len(c.Common().Args) {
					ne.params[p] = drvBound{c.Common().Args[i], env}
				}
			}
			walk(g, ne, path+" -> "+fnKey(g), append(append([]drvFrame{}, frames...), drvFrame{c, env}), depth+1)
		})
	}
	walk(d.compile, &drvEnv{}, fnKey(d.compile), nil, 0)
	return out
}

// evalOverTable evaluates v; when it depends on "the current element" of a table it is evaluated once per table entry.
// Returns entry label -> value ("" when no table is involved).
func (d *driver) evalOverTable(vs []ssa.Value, env *drvEnv) map[string][]symv {
	out := map[string][]symv{}
	d.saw = nil
	var base []symv
	for _, v := range vs {
		base = append(base, d.eval(v, env, 0))
	}
	t := d.saw
	if t == nil {
		out[""] = base
		return out
	}
	d.lastTable = t
	var idxs []int64
	for i := range t.lits {
		idxs = append(idxs, i)
	}
	sort.Slice(idxs, func(i, j int) bool { return idxs[i] < idxs[j] })
	for _, i := range idxs {
		le := d.withLit(env, t, t.lits[i])
		var row []symv
		for _, v := range vs {
			row = append(row, d.eval(v, le, 0))
		}
		out[fmt.Sprintf("entry %d", i)] = row
	}
	return out
}

func (d *driver) labelIndex(label string) int64 {
	var i int64
	fmt.Sscanf(label, "entry %d", &i)
	return i
}

// withLit: a copy of the environment chain in which table t's current element is the literal l.
func (d *driver) withLit(env *drvEnv, t *drvTable, l *drvLit) *drvEnv {
	if env == nil {
		return &drvEnv{tbl: t, lit: l}
	}
	ne := &drvEnv{params: map[*ssa.Parameter]drvBound{}, free: env.free, tbl: t, lit: l}
	for p, b := range env.params {
		ne.params[p] = drvBound{b.v, d.withLit(b.e, t, l)}
	}
	return ne
}

// ---- gate and error delivery across helpers ----

// errResultOf: the error a call yields (its only result, or the error component of its tuple).
func errResultOf(c ssa.CallInstruction) ssa.Value {
	v, ok := c.(ssa.Value)
	if !ok {
		return nil
	}
	if isErrorType(v.Type()) {
		return v
	}
	if v.Referrers() == nil {
		return nil
	}
	for _, ref := range *v.Referrers() {
		if e, ok := ref.(*ssa.Extract); ok && isErrorType(e.Type()) {
			return e
		}
	}
	return nil
}

// definitelyNonNilErr: a freshly made error.
func definitelyNonNilErr(v ssa.Value) bool {
	v = stripIdentity(v)
	if c, ok := v.(*ssa.Call); ok {
		if f := c.Call.StaticCallee(); f != nil {
			switch f.String() {
			case "fmt.Errorf", "errors.New":
				return true
			}
		}
	}
	if mi, ok := v.(*ssa.MakeInterface); ok {
		_, isConst := mi.X.(*ssa.Const)
		return !isConst
	}
	return false
}

// syntaxErrorsOperand: v is the model's SyntaxErrors (directly, or a parameter bound to it at every call site).
func (d *driver) syntaxErrorsOperand(fn *ssa.Function, v ssa.Value, depth int) bool {
	v = stripIdentity(v)
	if ld, ok := v.(*ssa.UnOp); ok && ld.Op == token.MUL {
		if fa, ok := ld.X.(*ssa.FieldAddr); ok {
			if tn, f, _, _ := fieldOf(fa); tn == "BinaryModel" && f == "SyntaxErrors" {
				return true
			}
		}
	}
	if p, ok := v.(*ssa.Parameter); ok && depth < 4 {
		idx := -1
		for i, q := range fn.Params {
			if q == p {
				idx = i
			}
		}
		ss := d.sites[fn]
		if idx < 0 || len(ss) == 0 {
			return false
		}
		for _, s := range ss {
			if idx >= len(s.Common().Args) || !d.syntaxErrorsOperand(s.Parent(), s.Common().Args[idx], depth+1) {
				return false
			}
		}
		return true
	}
	if c, ok := v.(*ssa.Call); ok {
		// HasErrors()-style accessor on the model is handled by the caller through lenGtZero only; a slice length helper is not
		_ = c
	}
	return false
}

// directGates: blocks of fn testing the emptiness of the diagnostics, with the successor taken when there are none.
func (d *driver) directGates(fn *ssa.Function) (out []struct {
	b     *ssa.BasicBlock
	empty int
}) {
	for _, b := range fn.Blocks {
		cond := branchCond(b)
		if cond == nil {
			continue
		}
		op, ne, ok := lenGtZero(cond)
		if !ok {
			op, ne, ok = d.countGtZero(fn, cond)
		}
		if !ok || !d.syntaxErrorsOperand(fn, op, 0) {
			continue
		}
		out = append(out, struct {
			b     *ssa.BasicBlock
			empty int
		}{b, 1 - ne})
	}
	return
}

// countGtZero: like lenGtZero for `n > 0` where n is (a copy of) len(x) or the result of a cmd helper that returns len(x) of one
// of its parameters; returns x as seen from fn.
func (d *driver) countGtZero(fn *ssa.Function, cond ssa.Value) (ssa.Value, int, bool) {
	neg := false
	for {
		if u, ok := cond.(*ssa.UnOp); ok && u.Op == token.NOT {
			neg = !neg
			cond = u.X
			continue
		}
		break
	}
	bo, ok := cond.(*ssa.BinOp)
	if !ok {
		return nil, 0, false
	}
	zero := func(v ssa.Value) bool {
		c, ok := v.(*ssa.Const)
		return ok && c.Value != nil && c.Value.String() == "0"
	}
	var cnt ssa.Value
	nonEmptyOnTrue := false
	switch {
	case zero(bo.Y) && (bo.Op == token.GTR || bo.Op == token.NEQ):
		cnt, nonEmptyOnTrue = bo.X, true
	case zero(bo.Y) && (bo.Op == token.EQL || bo.Op == token.LEQ):
		cnt, nonEmptyOnTrue = bo.X, false
	case zero(bo.X) && (bo.Op == token.LSS || bo.Op == token.NEQ):
		cnt, nonEmptyOnTrue = bo.Y, true
	case zero(bo.X) && (bo.Op == token.EQL || bo.Op == token.GEQ):
		cnt, nonEmptyOnTrue = bo.Y, false
	default:
		return nil, 0, false
	}
	if neg {
		nonEmptyOnTrue = !nonEmptyOnTrue
	}
	succ := 1
	if nonEmptyOnTrue {
		succ = 0
	}
	var lenArg func(v ssa.Value, depth int) ssa.Value
	lenArg = func(v ssa.Value, depth int) ssa.Value {
		v = stripIdentity(v)
		c, ok := v.(*ssa.Call)
		if !ok || depth > 2 {
			return nil
		}
		if b, ok := c.Call.Value.(*ssa.Builtin); ok && b.Name() == "len" {
			return c.Call.Args[0]
		}
		h := c.Call.StaticCallee()
		if h == nil || h.Pkg != d.w.Cmd || h.Blocks == nil {
			return nil
		}
		// every return of h is len(param i): the operand is the call's argument i
		idx := -1
		for _, b := range h.Blocks {
			ret, ok := b.Instrs[len(b.Instrs)-1].(*ssa.Return)
			if !ok || len(ret.Results) == 0 {
				continue
			}
			a := lenArg(ret.Results[0], depth+1)
			p, ok := stripIdentity(a).(*ssa.Parameter)
			if a == nil || !ok {
				return nil
			}
			for i, q := range h.Params {
				if q == p {
					if idx >= 0 && idx != i {
						return nil
					}
					idx = i
				}
			}
		}
		if idx < 0 || idx >= len(c.Call.Args) {
			return nil
		}
		return c.Call.Args[idx]
	}
	if a := lenArg(cnt, 0); a != nil {
		return a, succ, true
	}
	return nil, 0, false
}

// gateHelper: fn returns a nil error only when the diagnostics are empty.
func (d *driver) gateHelper(fn *ssa.Function) bool {
	gs := d.directGates(fn)
	if len(gs) == 0 {
		return false
	}
	for _, b := range fn.Blocks {
		ret, ok := b.Instrs[len(b.Instrs)-1].(*ssa.Return)
		if !ok {
			continue
		}
		var errRes ssa.Value
		for _, rv := range ret.Results {
			if isErrorType(rv.Type()) {
				errRes = rv
			}
		}
		if errRes == nil {
			return false
		}
		if definitelyNonNilErr(errRes) {
			continue
		}
		behind := false
		for _, g := range gs {
			if edgeDominates(g.b, g.empty, b) {
				behind = true
			}
		}
		if !behind {
			return false
		}
	}
	return true
}

// gated: block b of fn executes only when the model has no diagnostics.
func (d *driver) gated(fn *ssa.Function, b *ssa.BasicBlock, depth int) bool {
	if depth > 4 {
		return false
	}
	for _, g := range d.directGates(fn) {
		if edgeDominates(g.b, g.empty, b) {
			return true
		}
	}
	// the nil edge of a gate helper's error
	found := false
	forEachInstr(fn, func(_ *ssa.BasicBlock, ins ssa.Instruction) {
		c, ok := ins.(ssa.CallInstruction)
		if !ok || found {
			return
		}
		g := c.Common().StaticCallee()
		if g == nil || !d.fns[g] || !d.gateHelper(g) {
			return
		}
		if ev := errResultOf(c); ev != nil && guardedByNil(b, ev, false) {
			found = true
		}
	})
	if found {
		return true
	}
	if fn == d.compile {
		return false
	}
	ss := d.sites[fn]
	if len(ss) == 0 {
		return false
	}
	for _, s := range ss {
		if !d.gated(s.Parent(), s.Block(), depth+1) {
			return false
		}
	}
	return true
}

// delivered: a non-nil errV obtained in fn makes Compile return a non-nil error.
func (d *driver) delivered(fn *ssa.Function, errV ssa.Value, depth int) bool {
	if depth > 4 {
		return false
	}
	for _, bb := range fn.Blocks {
		cond := branchCond(bb)
		if cond == nil {
			continue
		}
		x, nn, ok := nilTest(cond)
		if !ok || !sameValue(x, errV) {
			continue
		}
		for _, b3 := range fn.Blocks {
			if !edgeDominates(bb, nn, b3) {
				continue
			}
			ret, ok := b3.Instrs[len(b3.Instrs)-1].(*ssa.Return)
			if !ok {
				continue
			}
			for _, rv := range ret.Results {
				if !isErrorType(rv.Type()) || isNilConst(rv) {
					continue
				}
				if !(definitelyNonNilErr(rv) || sameValue(stripIdentity(rv), errV)) {
					continue
				}
				if fn == d.compile {
					return true
				}
				all := len(d.sites[fn]) > 0
				for _, s := range d.sites[fn] {
					ev := errResultOf(s)
					if ev == nil || !d.delivered(s.Parent(), ev, depth+1) {
						all = false
					}
				}
				if all {
					return true
				}
			}
		}
	}
	// returned directly: `return helper(...)` / `return err`
	for _, b := range fn.Blocks {
		ret, ok := b.Instrs[len(b.Instrs)-1].(*ssa.Return)
		if !ok {
			continue
		}
		for _, rv := range ret.Results {
			if sameValue(stripIdentity(rv), errV) && fn == d.compile {
				return true
			}
			if sameValue(stripIdentity(rv), errV) && fn != d.compile {
				all := len(d.sites[fn]) > 0
				for _, s := range d.sites[fn] {
					ev := errResultOf(s)
					if ev == nil || !d.delivered(s.Parent(), ev, depth+1) {
						all = false
					}
				}
				if all {
					return true
				}
			}
		}
	}
	return false
}
