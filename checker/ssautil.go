package main

import (
	"go/constant"
	"go/types"
	"strings"

	"golang.org/x/tools/go/ssa"
)

// ---- loops ----

// natural loop blocks for a header: all blocks that can reach a back-edge source without passing through header.
func naturalLoop(header *ssa.BasicBlock) map[*ssa.BasicBlock]bool {
	loop := map[*ssa.BasicBlock]bool{header: true}
	var stack []*ssa.BasicBlock
	for _, p := range header.Preds {
		if header.Dominates(p) { // back edge p -> header
			if !loop[p] {
				loop[p] = true
				stack = append(stack, p)
			}
		}
	}
	for len(stack) > 0 {
		b := stack[len(stack)-1]
		stack = stack[:len(stack)-1]
		for _, p := range b.Preds {
			if !loop[p] {
				loop[p] = true
				stack = append(stack, p)
			}
		}
	}
	return loop
}

// rangeLoops finds `range` loops: returns the ssa.Range instruction with its Next and loop blocks.
type rangeLoop struct {
	Range  *ssa.Range
	Next   *ssa.Next
	Blocks map[*ssa.BasicBlock]bool
}

func mapRangeLoops(fn *ssa.Function) []rangeLoop {
	var out []rangeLoop
	for _, b := range fn.Blocks {
		for _, ins := range b.Instrs {
			r, ok := ins.(*ssa.Range)
			if !ok {
				continue
			}
			if _, isMap := r.X.Type().Underlying().(*types.Map); !isMap {
				continue
			}
			for _, ref := range *r.Referrers() {
				if nx, ok := ref.(*ssa.Next); ok {
					blocks := naturalLoop(nx.Block())
					// the body is what the "there is a next element" edge dominates: a body that always leaves the loop (`for _, p :=
					// range m { first = p; break }`) has no back edge and is not part of the natural loop, yet it runs for whichever
					// element the iteration happens to start with
					hb := nx.Block()
					if _, isIf := hb.Instrs[len(hb.Instrs)-1].(*ssa.If); isIf && len(hb.Succs) == 2 {
						body := hb.Succs[0]
						if len(body.Preds) == 1 {
							if blocks == nil {
								blocks = map[*ssa.BasicBlock]bool{}
							}
							blocks[hb] = true
							for _, b2 := range fn.Blocks {
								if body.Dominates(b2) {
									blocks[b2] = true
								}
							}
						}
					}
					out = append(out, rangeLoop{Range: r, Next: nx, Blocks: blocks})
				}
			}
		}
	}
	return out
}

// ---- post-dominators & control dependence ----

type cdInfo struct {
	fn    *ssa.Function
	ipdom map[*ssa.BasicBlock]*ssa.BasicBlock // immediate post-dominator; nil = virtual exit
	// ctrl[b] = list of (branch block, successor index) b is control dependent on
	ctrl map[*ssa.BasicBlock][]ctrlDep
}

type ctrlDep struct {
	Branch *ssa.BasicBlock
	Succ   int // which successor edge of Branch leads towards the dependent block
}

func computeCD(fn *ssa.Function) *cdInfo {
	n := len(fn.Blocks)
	ci := &cdInfo{fn: fn, ipdom: map[*ssa.BasicBlock]*ssa.BasicBlock{}, ctrl: map[*ssa.BasicBlock][]ctrlDep{}}
	if n == 0 {
		return ci
	}
	// post-dominator sets via iterative dataflow with a virtual exit (index n)
	full := make([]bool, n+1)
	for i := range full {
		full[i] = true
	}
	pd := make([][]bool, n+1)
	for i := 0; i <= n; i++ {
		pd[i] = make([]bool, n+1)
		copy(pd[i], full)
	}
	for i := range pd[n] {
		pd[n][i] = i == n
	}
	succs := func(b *ssa.BasicBlock) []int {
		if len(b.Succs) == 0 {
			return []int{n}
		}
		var s []int
		for _, x := range b.Succs {
			s = append(s, x.Index)
		}
		return s
	}
	changed := true
	for changed {
		changed = false
		for i := n - 1; i >= 0; i-- {
			b := fn.Blocks[i]
			nw := make([]bool, n+1)
			copy(nw, full)
			for _, s := range succs(b) {
				for k := range nw {
					nw[k] = nw[k] && pd[s][k]
				}
			}
			nw[i] = true
			for k := range nw {
				if nw[k] != pd[i][k] {
					pd[i] = nw
					changed = true
					break
				}
			}
		}
	}
	// control dependence: b is control dependent on edge (a -> s) iff b postdominates s and b does not strictly postdominate a
	for _, a := range fn.Blocks {
		if len(a.Succs) < 2 {
			continue
		}
		for si, s := range a.Succs {
			for _, b := range fn.Blocks {
				if pd[s.Index][b.Index] && !(pd[a.Index][b.Index] && a != b) {
					ci.ctrl[b] = append(ci.ctrl[b], ctrlDep{Branch: a, Succ: si})
				}
			}
		}
	}
	return ci
}

// transitive control dependences of a block
func (ci *cdInfo) allCtrl(b *ssa.BasicBlock) []ctrlDep {
	seen := map[*ssa.BasicBlock]bool{}
	var out []ctrlDep
	var visit func(x *ssa.BasicBlock)
	visit = func(x *ssa.BasicBlock) {
		for _, d := range ci.ctrl[x] {
			out = append(out, d)
			if !seen[d.Branch] {
				seen[d.Branch] = true
				visit(d.Branch)
			}
		}
	}
	seen[b] = true
	visit(b)
	return out
}

// branchCond returns the condition of the block's terminating If, or nil.
func branchCond(b *ssa.BasicBlock) ssa.Value {
	if len(b.Instrs) == 0 {
		return nil
	}
	if i, ok := b.Instrs[len(b.Instrs)-1].(*ssa.If); ok {
		return i.Cond
	}
	return nil
}

// ---- small value helpers ----

func constString(v ssa.Value) (string, bool) {
	c, ok := v.(*ssa.Const)
	if !ok || c.Value == nil || c.Value.Kind() != constant.String {
		return "", false
	}
	return constant.StringVal(c.Value), true
}

func isNilConst(v ssa.Value) bool {
	c, ok := v.(*ssa.Const)
	return ok && c.Value == nil
}

// unwrap strips value-preserving conversions.
func unwrap(v ssa.Value) ssa.Value {
	for {
		switch x := v.(type) {
		case *ssa.ChangeType:
			v = x.X
		case *ssa.ChangeInterface:
			v = x.X
		case *ssa.MakeInterface:
			v = x.X
		default:
			return v
		}
	}
}

// calleeIs reports whether the call statically targets pkgPath.name or method (recv).name; recv may be "*T" or "T" (short type name with package path prefix).
func calleeIs(c ssa.CallInstruction, full string) bool {
	f := c.Common().StaticCallee()
	if f == nil {
		return false
	}
	return f.String() == full
}

func calleeHasPrefix(c ssa.CallInstruction, prefixes ...string) bool {
	f := c.Common().StaticCallee()
	if f == nil {
		return false
	}
	s := f.String()
	for _, p := range prefixes {
		if strings.HasPrefix(s, p) {
			return true
		}
	}
	return false
}

// allocRoot follows FieldAddr/IndexAddr/pointer copies back to the root address value.
func addrRoot(v ssa.Value) ssa.Value {
	for {
		switch x := v.(type) {
		case *ssa.FieldAddr:
			v = x.X
		case *ssa.IndexAddr:
			v = x.X
		case *ssa.ChangeType:
			v = x.X
		case *ssa.Slice:
			v = x.X
		default:
			return v
		}
	}
}

// instrsOf iterates all instructions of fn.
func forEachInstr(fn *ssa.Function, f func(b *ssa.BasicBlock, i ssa.Instruction)) {
	for _, b := range fn.Blocks {
		for _, ins := range b.Instrs {
			f(b, ins)
		}
	}
}
