package main

import (
	"os"
	"go/constant"
	"fmt"
	"go/token"
	"go/types"
	"sort"
	"strings"

	"golang.org/x/tools/go/ssa"
)

func init() {
	register("C11", "The repository-specific crash mechanisms, each as an exact rule over the resolved program of every non-generated function reachable from FormatPacketDsl, ParseFile, cmd.Compile and the C export: "+
		"(O) a parse-tree child that grammar/PacketDsl.g4 makes optional (inside ?/*, not in every alternative, stop token of a nullable rule) is dereferenced only under a dominating non-nil test of the same access path; "+
		"(G) the tree is visited only on the no-syntax-error edge and the collecting listener is installed on lexer and parser; "+
		"(A) every single-result type assertion has a verified justification (checked earlier on the same value, callee returns exactly that type, mandatory accessor with a single implementer, exhaustive switch); "+
		"(L) name-resolving map lookups and nullable model links are dereferenced only under a nil test or a validating diagnostic; "+
		"(R) every recursive cycle over the packet graph descends structurally (inline objects, parse-tree children) or is cut by a visited set. "+
		"Panics inside ANTLR/cobra/strcase, bounds of runtime values, hangs and memory exhaustion are not covered.", runC11)
}

const grammarPath = modPath + "/internal/grammar"

// ---------- grammar accessor resolution ----------

type accInfo struct {
	Ctx      string // context type name, e.g. PaddingAttributeContext
	Name     string // accessor method name
	Optional bool
	Known    bool   // accessor derived from the grammar (child/label/GetStop)
	What     string // child or label
}

func (w *World) ctxTable() map[string]*CtxInfo {
	m := map[string]*CtxInfo{}
	for _, ci := range w.G4.Contexts() {
		m[ci.CtxType] = ci
	}
	return m
}

// grammarCtxName: the context type a value of static type t denotes ("" if not a grammar context).
func grammarCtxName(t types.Type) string {
	n := namedOf(t)
	if n == nil || n.Obj().Pkg() == nil || n.Obj().Pkg().Path() != grammarPath {
		return ""
	}
	name := n.Obj().Name()
	if !strings.HasSuffix(name, "Context") {
		return ""
	}
	if _, isIface := n.Underlying().(*types.Interface); isIface && strings.HasPrefix(name, "I") {
		name = name[1:]
	}
	return name
}

func (w *World) accessorOf(call ssa.CallInstruction, ctxs map[string]*CtxInfo) (recv ssa.Value, ai accInfo, ok bool) {
	cc := call.Common()
	var ctxName, meth string
	if cc.IsInvoke() {
		ctxName = grammarCtxName(cc.Value.Type())
		meth = cc.Method.Name()
		recv = cc.Value
	} else if f := cc.StaticCallee(); f != nil && f.Signature.Recv() != nil && len(cc.Args) > 0 {
		ctxName = grammarCtxName(f.Signature.Recv().Type())
		meth = f.Name()
		recv = cc.Args[0]
		if ctxName == "" && (meth == "GetStop" || meth == "GetStart") {
			// promoted from the embedded antlr.BaseParserRuleContext: find the enclosing grammar context
			v := recv
			for i := 0; i < 6; i++ {
				if n := grammarCtxName(v.Type()); n != "" {
					ctxName = n
					recv = v
					break
				}
				fa, ok := v.(*ssa.FieldAddr)
				if !ok {
					break
				}
				v = fa.X
			}
		}
	}
	if ctxName == "" {
		return nil, ai, false
	}
	ai = accInfo{Ctx: ctxName, Name: meth}
	ci := ctxs[ctxName]
	if ci == nil {
		return recv, ai, true
	}
	if meth == "GetStop" {
		ai.Known = true
		ai.What = "stop token"
		ai.Optional = w.G4.Nullable(ci.Rule)
		return recv, ai, true
	}
	if meth == "GetStart" {
		ai.Known = true
		ai.What = "start token"
		return recv, ai, true
	}
	for child, occ := range ci.Children {
		if accessorName(child, ci.IsTok[child], false) == meth && len(cc.Args) <= 1 && !occ.Many {
			ai.Known, ai.What, ai.Optional = true, child, occ.Min == 0
			return recv, ai, true
		}
		if accessorName(child, ci.IsTok[child], true) == meth {
			ai.Known, ai.What = true, child+"*"
			return recv, ai, true
		}
	}
	for label := range ci.Labels {
		if "Get"+title(label) == meth {
			ai.Known, ai.What, ai.Optional = true, label+"=", ci.LabelOcc[label].Min == 0
			return recv, ai, true
		}
	}
	return recv, ai, true
}

// accessPath: root identity + accessor names; equal paths denote the same tree node (accessors are pure getters).
func (w *World) accessPath(v ssa.Value, ctxs map[string]*CtxInfo, depth int) string {
	if depth > 12 {
		return fmt.Sprintf("%p", v)
	}
	switch x := v.(type) {
	case *ssa.MakeInterface:
		return w.accessPath(x.X, ctxs, depth+1)
	case *ssa.ChangeInterface:
		return w.accessPath(x.X, ctxs, depth+1)
	case *ssa.ChangeType:
		return w.accessPath(x.X, ctxs, depth+1)
	case *ssa.TypeAssert:
		return w.accessPath(x.X, ctxs, depth+1)
	case *ssa.Extract:
		if ta, ok := x.Tuple.(*ssa.TypeAssert); ok && x.Index == 0 {
			return w.accessPath(ta.X, ctxs, depth+1)
		}
	case *ssa.Call:
		if recv, ai, ok := w.accessorOf(x, ctxs); ok && ai.Known && !strings.HasSuffix(ai.What, "*") {
			return w.accessPath(recv, ctxs, depth+1) + "." + ai.Name
		}
	case *ssa.UnOp:
		// a variable that lives in a cell because a closure captures it: assigned once, every load is the same node
		if al := singleAssignCell(x); al != nil {
			return fmt.Sprintf("%p", al)
		}
		// a member of a record the function was handed by value and never changes: every read of the member is the same node
		// (and the record read as a whole is the record)
		if al, k, ok := recordMemberRoot(x); ok {
			return fmt.Sprintf("%p#%d", ssa.Value(al), k)
		}
		if al, ok := x.X.(*ssa.Alloc); ok && x.Op == token.MUL && unchangedParamRecord(al) != nil {
			return fmt.Sprintf("%p", ssa.Value(al))
		}
	}
	return fmt.Sprintf("%p", v)
}

// ---------- dereference summaries ----------

// derefParams: parameters a function dereferences (method call on it, field access, unchecked assertion) without a dominating nil test.
func derefParams(w *World, funcs []*ssa.Function) map[*ssa.Function]map[int]string {
	sum := map[*ssa.Function]map[int]string{}
	changed := true
	for changed {
		changed = false
		for _, fn := range funcs {
			for pi, p := range fn.Params {
				if sum[fn] != nil && sum[fn][pi] != "" {
					continue
				}
				if why := derefUse(w, p, sum, 0); why != "" {
					if sum[fn] == nil {
						sum[fn] = map[int]string{}
					}
					sum[fn][pi] = why
					changed = true
				}
			}
		}
	}
	return sum
}

// linkLoad: v is a load of base.field -> (base, "Type.field").
func linkLoad(v ssa.Value) (ssa.Value, string, bool) {
	ld, ok := stripIdentity(v).(*ssa.UnOp)
	if !ok || ld.Op != token.MUL {
		return nil, "", false
	}
	fa, ok := ld.X.(*ssa.FieldAddr)
	if !ok {
		return nil, "", false
	}
	tn, f, _, _ := fieldOf(fa)
	return fa.X, tn + "." + f, true
}

// guardedFieldNonNil: blk is dominated by the non-nil edge of a nil test on (another load of) base.field.
func guardedFieldNonNil(blk *ssa.BasicBlock, base ssa.Value, field string) bool {
	fn := blk.Parent()
	for _, b := range fn.Blocks {
		cond := branchCond(b)
		if cond == nil {
			continue
		}
		x, nn, ok := nilTest(cond)
		if !ok {
			continue
		}
		b2, f2, ok := linkLoad(x)
		if !ok || f2 != field || stripIdentity(b2) != stripIdentity(base) {
			continue
		}
		if edgeDominates(b, nn, blk) {
			return true
		}
	}
	// the test lives in a helper handed the base: `p, err := requireX(base); if err != nil { return }` - the helper returns a nil
	// error only where base.field is not nil
	for _, b := range fn.Blocks {
		cond := branchCond(b)
		if cond == nil {
			continue
		}
		x, nn, ok := nilTest(cond)
		if !ok || !isErrorType(x.Type()) {
			continue
		}
		var call *ssa.Call
		idx := 0
		switch y := stripIdentity(x).(type) {
		case *ssa.Call:
			call = y
		case *ssa.Extract:
			call, _ = y.Tuple.(*ssa.Call)
			idx = y.Index
		}
		if call == nil {
			continue
		}
		h := call.Call.StaticCallee()
		if h == nil || h.Blocks == nil || theWorld == nil || !theWorld.isRepoLike(h) {
			continue
		}
		pidx := -1
		for i, a := range call.Call.Args {
			if stripIdentity(a) == stripIdentity(base) && i < len(h.Params) {
				pidx = i
			}
		}
		if pidx < 0 || !edgeDominates(b, 1-nn, blk) {
			continue
		}
		okAll, any := true, false
		for _, hb := range h.Blocks {
			ret, isRet := hb.Instrs[len(hb.Instrs)-1].(*ssa.Return)
			if !isRet || idx >= len(ret.Results) {
				continue
			}
			if k, isC := ret.Results[idx].(*ssa.Const); !isC || !k.IsNil() {
				continue // an error is returned: the caller leaves
			}
			any = true
			if !guardedFieldNonNilShallow(hb, h.Params[pidx], field) {
				okAll = false
			}
		}
		if any && okAll {
			return true
		}
	}
	return false
}

// guardedFieldNonNilShallow: the direct form only (no helper recursion).
func guardedFieldNonNilShallow(blk *ssa.BasicBlock, base ssa.Value, field string) bool {
	for _, b := range blk.Parent().Blocks {
		cond := branchCond(b)
		if cond == nil {
			continue
		}
		x, nn, ok := nilTest(cond)
		if !ok {
			continue
		}
		b2, f2, ok := linkLoad(x)
		if !ok || f2 != field || stripIdentity(b2) != stripIdentity(base) {
			continue
		}
		if edgeDominates(b, nn, blk) {
			return true
		}
	}
	return false
}

// linkGuardedByCallers: base is a parameter of fn and every repo call site passes an object whose field was nil-tested before the call.
func (w *World) linkGuardedByCallers(fn *ssa.Function, base ssa.Value, field string, depth int) bool {
	if depth > 3 {
		return false
	}
	p, ok := stripIdentity(base).(*ssa.Parameter)
	if !ok {
		// receiver field: g.binModel where g is a parameter
		if b2, _, ok := linkLoad(base); ok {
			_ = b2
		}
		return false
	}
	idx := -1
	for i, q := range fn.Params {
		if q == p {
			idx = i
		}
	}
	n := w.CallGraph().Nodes[fn]
	if idx < 0 || n == nil || len(n.In) == 0 {
		return false
	}
	real := 0
	for _, e := range n.In {
		if e.Caller.Func.Synthetic != "" {
			continue // pointer-receiver wrappers and bound-method thunks: not call sites of the program text
		}
		real++
		if e.Site == nil || e.Site.Common().IsInvoke() {
			return false
		}
		args := e.Site.Common().Args
		if idx >= len(args) {
			return false
		}
		if guardedFieldNonNil(e.Site.Block(), args[idx], field) {
			continue
		}
		if w.linkGuardedByCallers(e.Caller.Func, args[idx], field, depth+1) {
			continue
		}
		return false
	}
	return real > 0
}

// derefUse: how (if at all) value v is dereferenced without a nil guard on v itself.
func derefUse(w *World, v ssa.Value, sum map[*ssa.Function]map[int]string, depth int) string {
	if v.Referrers() == nil || depth > 3 {
		return ""
	}
	lbase, lfield, isLink := linkLoad(v)
	for _, ref := range *v.Referrers() {
		blk := ref.Block()
		if blk == nil {
			continue
		}
		guarded := guardedByNil(blk, v, true)
		if !guarded && isLink {
			guarded = guardedFieldNonNil(blk, lbase, lfield) || w.linkGuardedByCallers(blk.Parent(), lbase, lfield, 0)
		}
		switch x := ref.(type) {
		case ssa.CallInstruction:
			cc := x.Common()
			if cc.IsInvoke() && cc.Value == v {
				if !guarded {
					return "calls ." + cc.Method.Name() + "() on it"
				}
				continue
			}
			if f := cc.StaticCallee(); f != nil {
				for i, a := range cc.Args {
					if a != v {
						continue
					}
					if i == 0 && f.Signature.Recv() != nil {
						if _, isPtr := f.Signature.Recv().Type().(*types.Pointer); isPtr && !guarded {
							// pointer-receiver method on a possibly nil pointer: only a problem if the method dereferences
							if s := sum[f]; s != nil && s[0] != "" {
								return "calls " + fnKey(f) + " which " + s[0]
							}
							continue
						}
					}
					if s := sum[f]; s != nil && s[i] != "" && !guarded {
						return "passes it to " + fnKey(f) + " which " + s[i]
					}
				}
			}
		case *ssa.FieldAddr:
			if x.X == v && !guarded {
				return "reads a field through it"
			}
		case *ssa.UnOp:
			if x.Op == token.MUL && x.X == v && !guarded {
				return "loads through it"
			}
		case *ssa.TypeAssert:
			if x.X == v && !x.CommaOk && !guarded {
				return "asserts its type without ok"
			}
		case *ssa.MakeInterface, *ssa.ChangeInterface, *ssa.ChangeType:
			if why := derefUse(w, x.(ssa.Value), sum, depth+1); why != "" && !guarded {
				return why
			}
		}
	}
	return ""
}

// ---------- subjects ----------

func c11Subjects(w *World) []*ssa.Function {
	set := map[*ssa.Function]bool{}
	for f := range w.formatterReach() {
		set[f] = true
	}
	for f := range w.compileReach() {
		set[f] = true
	}
	for _, n := range []string{"FormatPacketDslExport", "Execute"} {
		if f := w.Cmd.Func(n); f != nil {
			set[f] = true
		}
	}
	for _, fn := range w.findCmdFuncCalling(parserPath + ".FormatPacketDsl") {
		set[fn] = true
	}
	return sortedFuncs(set)
}

func runC11(w *World, r *Report) {
	subjects := c11Subjects(w)
	r.note("subjects: %d non-generated functions reachable from FormatPacketDsl, ParseFile/Compile, the C export", len(subjects))
	ctxs := w.ctxTable()
	c11GrammarCrossCheck(w, r, ctxs)
	derefs := derefParams(w, w.srcFuncs)
	c11RuleO(w, r, subjects, ctxs, derefs)
	c11RuleG(w, r)
	c11RuleA(w, r, subjects, ctxs)
	c11RuleR(w, r, subjects)
	c11RuleI(w, r, subjects)
	nameKeyedSetOverInline(w, r, "C11", func(fn *ssa.Function) bool { return !isGeneratorFunc(fn) && parsePhaseSet(w)[fn] }, "the parse phase remembers packets under their names and consults that set for inline objects too: an inline object named like a construct seen before is skipped, the packets its members refer to stay unlinked (nil) and the generators dereference them")
	c11RuleN(w, r, subjects)
	resolverDescendsIntoInline(w, r, "C11")
	c11RuleD(w, r, subjects)
	c11RuleH(w, r, subjects)
	c11RuleK(w, r, subjects, derefs)
	c11RuleL(w, r, subjects, derefs)
	collectorRules(w, r, "", "C11/L-collector")
	r.assume("generated accessors are pure getters over a tree that subject code never mutates (checked: no AddChild/Set*/RemoveLastChild call)")
	r.assume("after a parse without reported syntax errors every mandatory child is present (ANTLR's contract); Rule G establishes the premise")
}

// every accessor derived from the .g4 must exist on the generated context type and vice versa for token/rule accessors
func c11GrammarCrossCheck(w *World, r *Report, ctxs map[string]*CtxInfo) {
	const rule = "C11/grammar-crosscheck"
	for _, name := range sortedKeys(ctxs) {
		ci := ctxs[name]
		tm := w.Grammar.Type(name)
		if tm == nil {
			r.fail(rule, name, "grammar/PacketDsl.g4", "context type derived from the grammar does not exist in internal/grammar: generated parser is stale or the g4 reader is wrong")
			continue
		}
		ms := w.Prog.MethodSets.MethodSet(types.NewPointer(tm.Type()))
		have := map[string]bool{}
		for i := 0; i < ms.Len(); i++ {
			have[ms.At(i).Obj().Name()] = true
		}
		var missing []string
		for child, occ := range ci.Children {
			a := accessorName(child, ci.IsTok[child], occ.Many)
			if !have[a] {
				missing = append(missing, a)
			}
		}
		for label := range ci.Labels {
			if !have["Get"+title(label)] {
				missing = append(missing, "Get"+title(label))
			}
		}
		sort.Strings(missing)
		if len(missing) > 0 {
			r.fail(rule, name, "grammar/PacketDsl.g4", "accessors derived from the grammar are missing in the generated parser: "+strings.Join(missing, ", "))
		} else {
			r.pass(rule, name, "grammar/PacketDsl.g4", fmt.Sprintf("%d children, %d labels", len(ci.Children), len(ci.Labels)))
		}
	}
	r.floor(rule, 25)
}

// ---------- Rule O ----------

func c11RuleO(w *World, r *Report, subjects []*ssa.Function, ctxs map[string]*CtxInfo, derefs map[*ssa.Function]map[int]string) {
	const rule = "C11/O-optional-child"
	mut := 0
	for _, fn := range subjects {
		counts := map[string]int{}
		forEachInstr(fn, func(b *ssa.BasicBlock, ins ssa.Instruction) {
			call, ok := ins.(*ssa.Call)
			if !ok {
				return
			}
			if f := call.Call.StaticCallee(); f != nil {
				switch f.Name() {
				case "AddChild", "RemoveLastChild", "SetParent", "SetStart", "SetStop", "AddTokenNode", "AddErrorNode":
					if f.Pkg != nil && (f.Pkg.Pkg.Path() == grammarPath || strings.Contains(f.Pkg.Pkg.Path(), "antlr")) {
						mut++
						r.fail(rule, fnKey(fn)+" mutates the parse tree via "+f.Name(), w.instrPos(ins), "access-path reasoning assumes subject code never mutates the tree")
					}
				}
			}
			_, ai, ok := w.accessorOf(call, ctxs)
			if !ok || !ai.Known || !ai.Optional {
				return
			}
			keyBase := fmt.Sprintf("%s %s.%s()", fnKey(fn), ai.Ctx, ai.Name)
			counts[keyBase]++
			key := keyBase
			if counts[keyBase] > 1 {
				key = fmt.Sprintf("%s#%d", keyBase, counts[keyBase])
			}
			path := w.accessPath(call, ctxs, 0)
			// uses that dereference the result
			var bad []string
			var visit func(v ssa.Value, depth int)
			visit = func(v ssa.Value, depth int) {
				if v.Referrers() == nil || depth > 3 {
					return
				}
				for _, ref := range *v.Referrers() {
					blk := ref.Block()
					why := ""
					switch x := ref.(type) {
					case ssa.CallInstruction:
						cc := x.Common()
						if cc.IsInvoke() && cc.Value == v {
							why = "." + cc.Method.Name() + "() called on it"
						} else if f := cc.StaticCallee(); f != nil {
							for i, a := range cc.Args {
								if a != v {
									continue
								}
								if i == 0 && f.Signature.Recv() != nil && !w.isSubjectFunc(f) {
									why = "." + f.Name() + "() called on it"
								} else if s := derefs[f]; s != nil && s[i] != "" {
									why = "passed to " + fnKey(f) + " which " + s[i]
								}
							}
						}
					case *ssa.TypeAssert:
						if x.X == v && !x.CommaOk {
							if _, toIface := x.AssertedType.Underlying().(*types.Interface); toIface || true {
								why = "single-result type assertion .(" + types.TypeString(x.AssertedType, shortQual) + ") on it"
							}
						}
					case *ssa.MakeInterface, *ssa.ChangeInterface, *ssa.ChangeType:
						visit(x.(ssa.Value), depth+1)
					case *ssa.Phi:
						// merged with other values: follow conservatively
						visit(x, depth+1)
					}
					if why == "" {
						continue
					}
					if w.guardedByPath(blk, path, ctxs) || w.guardedByPathAtCallers(blk.Parent(), call, path, ctxs, 0) || w.guardedByPathAtFrames(blk.Parent(), call, path, ctxs) || w.guardedByRecordPathAtFrames(call, path, ctxs) {
						continue
					}
					bad = append(bad, why+" at "+w.instrPos(ref))
				}
			}
			visit(call, 0)
			if len(bad) > 0 {
				sort.Strings(bad)
				r.fail(rule, key, w.instrPos(ins), fmt.Sprintf("%s is optional in the grammar (%s of %s may be absent) but is dereferenced without a dominating non-nil test: %s", ai.Name, ai.What, ai.Ctx, strings.Join(uniqStrings(bad), "; ")))
			} else {
				r.pass(rule, key, w.instrPos(ins), "every dereference is under a non-nil test of the same access path (or there is none)")
			}
		})
	}
	r.floor(rule, 40)
}

func shortQual(p *types.Package) string { return p.Name() }

// guardedByPath: blk is dominated by the non-nil edge of a nil test whose operand has the given access path.
func (w *World) guardedByPath(blk *ssa.BasicBlock, path string, ctxs map[string]*CtxInfo) bool {
	fn := blk.Parent()
	for _, b := range fn.Blocks {
		cond := branchCond(b)
		if cond == nil {
			continue
		}
		x, nn, ok := nilTest(cond)
		if !ok {
			continue
		}
		if w.accessPath(x, ctxs, 0) != path {
			continue
		}
		if edgeDominates(b, nn, blk) {
			return true
		}
	}
	return w.guardedOnEveryFeasiblePath(blk, path, ctxs)
}

// guardedOnEveryFeasiblePath: no single edge dominates blk, but every *feasible* way into it passes the non-nil edge of a test of
// path. Feasible: the nil tests passed on one path (within one loop iteration - back edges are not followed) agree about every tree
// node they test; accessors are pure and the tree does not change, so `a != nil || b != nil` followed by `a == nil` leaves b != nil.
func (w *World) guardedOnEveryFeasiblePath(blk *ssa.BasicBlock, path string, ctxs map[string]*CtxInfo) bool {
	type test struct {
		p  string
		nn int
	}
	fn := blk.Parent()
	tests := map[*ssa.BasicBlock]test{}
	any := false
	for _, b := range fn.Blocks {
		cond := branchCond(b)
		if cond == nil {
			continue
		}
		if x, nn, ok := nilTest(cond); ok {
			p := w.accessPath(x, ctxs, 0)
			tests[b] = test{p, nn}
			if p == path {
				any = true
			}
		}
	}
	if !any {
		return false
	}
	steps := 0
	// walk backwards from blk; facts: what the path (as walked so far, i.e. the later part of the execution) says about each node
	var walk func(b *ssa.BasicBlock, facts map[string]bool, guarded bool, onPath map[*ssa.BasicBlock]bool) bool
	walk = func(b *ssa.BasicBlock, facts map[string]bool, guarded bool, onPath map[*ssa.BasicBlock]bool) bool {
		steps++
		if steps > 20000 {
			return false
		}
		var preds []*ssa.BasicBlock
		for _, p := range b.Preds {
			if b.Dominates(p) || onPath[p] {
				continue // back edge / cycle: another iteration, the facts do not carry over
			}
			preds = append(preds, p)
		}
		if len(preds) == 0 {
			return guarded
		}
		for _, p := range preds {
			f2, g2 := facts, guarded
			if t, ok := tests[p]; ok && len(p.Succs) == 2 && p.Succs[0] != p.Succs[1] {
				// which edge of p leads to b?
				for si, sb := range p.Succs {
					if sb != b {
						continue
					}
					nonNil := si == t.nn
					if known, have := facts[t.p]; have && known != nonNil {
						f2 = nil // contradicts what a later test on this path established: infeasible
						break
					}
					f2 = map[string]bool{}
					for k, v := range facts {
						f2[k] = v
					}
					f2[t.p] = nonNil
					if t.p == path && nonNil {
						g2 = true
					}
				}
				if f2 == nil {
					continue
				}
			}
			onPath[p] = true
			ok := walk(p, f2, g2, onPath)
			delete(onPath, p)
			if !ok {
				return false
			}
		}
		return true
	}
	return walk(blk, map[string]bool{}, false, map[*ssa.BasicBlock]bool{blk: true})
}

// accessRoot: the value an accessor chain starts from.
func (w *World) accessRoot(v ssa.Value, ctxs map[string]*CtxInfo, depth int) ssa.Value {
	if depth > 12 {
		return v
	}
	switch x := v.(type) {
	case *ssa.MakeInterface:
		return w.accessRoot(x.X, ctxs, depth+1)
	case *ssa.ChangeInterface:
		return w.accessRoot(x.X, ctxs, depth+1)
	case *ssa.ChangeType:
		return w.accessRoot(x.X, ctxs, depth+1)
	case *ssa.TypeAssert:
		return w.accessRoot(x.X, ctxs, depth+1)
	case *ssa.Extract:
		if ta, ok := x.Tuple.(*ssa.TypeAssert); ok && x.Index == 0 {
			return w.accessRoot(ta.X, ctxs, depth+1)
		}
	case *ssa.Call:
		if recv, ai, ok := w.accessorOf(x, ctxs); ok && ai.Known && !strings.HasSuffix(ai.What, "*") {
			return w.accessRoot(recv, ctxs, depth+1)
		}
	case *ssa.UnOp:
		if al := singleAssignCell(x); al != nil {
			return al
		}
	}
	return v
}

// guardedByPathAtCallers: the access path starts at a parameter of fn, and every call site of fn in the program text is dominated
// by a non-nil test of the same path taken from the argument (the caller checked the optional child before delegating).
func (w *World) guardedByPathAtCallers(fn *ssa.Function, v ssa.Value, path string, ctxs map[string]*CtxInfo, depth int) bool {
	if depth > 2 {
		return false
	}
	root, ok := w.accessRoot(v, ctxs, 0).(*ssa.Parameter)
	if !ok {
		return false
	}
	prefix := fmt.Sprintf("%p", ssa.Value(root))
	if !strings.HasPrefix(path, prefix) {
		return false
	}
	suffix := strings.TrimPrefix(path, prefix)
	idx := -1
	for i, q := range fn.Params {
		if q == root {
			idx = i
		}
	}
	n := w.CallGraph().Nodes[fn]
	if idx < 0 || n == nil {
		return false
	}
	real := 0
	for _, e := range n.In {
		if e.Caller.Func.Synthetic != "" {
			continue
		}
		real++
		if e.Site == nil || e.Site.Common().IsInvoke() || idx >= len(e.Site.Common().Args) {
			return false
		}
		arg := e.Site.Common().Args[idx]
		p2 := w.accessPath(arg, ctxs, 0) + suffix
		if w.guardedByPath(e.Site.Block(), p2, ctxs) {
			continue
		}
		// a table of handlers: the callee is the `apply` member of a record whose `handles` member said yes to the same node
		if w.guardedBySiblingPredicate(e.Site, fn, idx, suffix, ctxs) {
			continue
		}
		return false
	}
	return real > 0
}

type funcTableKey struct {
	arr ssa.Value
	idx int64
}

var funcTablesMemo map[funcTableKey]map[int]*ssa.Function

// funcTables: records with function-valued members that are filled element by element (the backing array of a slice or array literal
// of handler records): (array, index) -> member index -> function.
func (w *World) funcTables() map[funcTableKey]map[int]*ssa.Function {
	if funcTablesMemo != nil {
		return funcTablesMemo
	}
	out := map[funcTableKey]map[int]*ssa.Function{}
	for fn := range w.allFuncs {
		if p := pkgOfFunc(fn); fn.Blocks == nil || (p != w.Parser && p != w.Model && p != w.Cmd) {
			continue // package initialisers included: that is where table literals are filled
		}
		forEachInstr(fn, func(_ *ssa.BasicBlock, ins ssa.Instruction) {
			st, ok := ins.(*ssa.Store)
			if !ok {
				return
			}
			var f *ssa.Function
			switch v := stripIdentity(st.Val).(type) {
			case *ssa.Function:
				f = v
			case *ssa.MakeClosure:
				f, _ = v.Fn.(*ssa.Function)
			}
			if f == nil {
				return
			}
			fa, ok := st.Addr.(*ssa.FieldAddr)
			if !ok {
				return
			}
			// one record = one base: the element slot filled in place, or the literal's own local that is copied into the slot
			key := funcTableKey{fa.X, 0}
			if ia, ok := fa.X.(*ssa.IndexAddr); ok {
				if k, ok := ia.Index.(*ssa.Const); ok && k.Value != nil {
					key = funcTableKey{ia.X, k.Int64()}
				}
			}
			if out[key] == nil {
				out[key] = map[int]*ssa.Function{}
			}
			out[key][fa.Field] = f
		})
	}
	if os.Getenv("FINLINT_DEBUG_TABLES") != "" {
		fmt.Fprintf(os.Stderr, "funcTables: %d entries\n", len(out))
	}
	funcTablesMemo = out
	return out
}

// guardedBySiblingPredicate: site calls member A of a record (`h.apply(.., node, ..)`), under the true edge of a call of member G of
// the same record on the same node (`h.handles(node)`); in every table entry whose member A is fn, member G is a predicate that
// returns true only when node<suffix> is not nil.
func (w *World) guardedBySiblingPredicate(site ssa.CallInstruction, fn *ssa.Function, idx int, suffix string, ctxs map[string]*CtxInfo) bool {
	memberOf := func(v ssa.Value) (ssa.Value, int, bool) {
		ld, ok := stripIdentity(v).(*ssa.UnOp)
		if !ok || ld.Op != token.MUL {
			if fv, ok := stripIdentity(v).(*ssa.Field); ok {
				return fv.X, fv.Field, true
			}
			return nil, 0, false
		}
		fa, ok := ld.X.(*ssa.FieldAddr)
		if !ok {
			return nil, 0, false
		}
		return fa.X, fa.Field, true
	}
	base, fieldA, ok := memberOf(site.Common().Value)
	if os.Getenv("FINLINT_DEBUG_TABLES") != "" {
		fmt.Fprintf(os.Stderr, "sibling: site %s value %T ok=%v\n", site, stripIdentity(site.Common().Value), ok)
	}
	if !ok || site.Common().IsInvoke() || idx >= len(site.Common().Args) {
		return false
	}
	node := site.Common().Args[idx]
	caller := site.Parent()
	for _, bb := range caller.Blocks {
		cond := branchCond(bb)
		if cond == nil {
			continue
		}
		neg := false
		c := cond
		for {
			if u, ok := c.(*ssa.UnOp); ok && u.Op == token.NOT {
				neg = !neg
				c = u.X
				continue
			}
			break
		}
		pc, ok := c.(*ssa.Call)
		if !ok || pc.Call.IsInvoke() || pc.Call.StaticCallee() != nil {
			continue
		}
		base2, fieldG, ok := memberOf(pc.Call.Value)
		if !ok || fieldG == fieldA || !(base2 == base || sameCellValue(base2, base) || sameElemAddr(base2, base)) {
			continue
		}
		j := -1
		for i, a := range pc.Call.Args {
			if a == node || sameCellValue(a, node) {
				j = i
			}
		}
		if j < 0 {
			continue
		}
		succ := 0
		if neg {
			succ = 1
		}
		if !edgeDominates(bb, succ, site.Block()) {
			continue
		}
		// every table entry that holds fn as member A: its member G implies the path
		found, all := false, true
		for _, entry := range w.funcTables() {
			if entry[fieldA] != fn {
				continue
			}
			found = true
			g := entry[fieldG]
			if g == nil || j >= len(g.Params) || !w.predicateImpliesNonNil(g, g.Params[j], suffix, ctxs) {
				all = false
			}
		}
		if found && all {
			return true
		}
	}
	return false
}

// sameElemAddr: two loads / addresses of the same element of the same table in one iteration (`&table[i]` computed twice, or the
// loop variable's copy of it).
func sameElemAddr(a, b ssa.Value) bool {
	ia, ok1 := stripIdentity(a).(*ssa.IndexAddr)
	ib, ok2 := stripIdentity(b).(*ssa.IndexAddr)
	return ok1 && ok2 && ia.X == ib.X && ia.Index == ib.Index
}

// predicateImpliesNonNil: the bool function g returns true only where param<suffix> is not nil.
func (w *World) predicateImpliesNonNil(g *ssa.Function, param ssa.Value, suffix string, ctxs map[string]*CtxInfo) bool {
	if g.Blocks == nil {
		return false
	}
	want := fmt.Sprintf("%p", param) + suffix
	var implies func(v ssa.Value, depth int) bool
	implies = func(v ssa.Value, depth int) bool {
		if depth > 4 {
			return false
		}
		switch x := v.(type) {
		case *ssa.Const:
			return x.Value != nil && x.Value.Kind() == constant.Bool && !constant.BoolVal(x.Value)
		case *ssa.Phi:
			for _, e := range x.Edges {
				if !implies(e, depth+1) {
					return false
				}
			}
			return true
		case *ssa.BinOp:
			if y, nn, ok := nilTest(x); ok && nn == 0 {
				return w.accessPath(y, ctxs, 0) == want
			}
		}
		return false
	}
	any := false
	for _, b := range g.Blocks {
		ret, ok := b.Instrs[len(b.Instrs)-1].(*ssa.Return)
		if !ok || len(ret.Results) != 1 {
			continue
		}
		any = true
		if implies(ret.Results[0], 0) {
			continue
		}
		// or the return sits under the non-nil edge of a test of the path
		if w.guardedByPath(b, want, ctxs) {
			continue
		}
		return false
	}
	return any
}

// ---------- Rule G ----------

func c11RuleG(w *World, r *Report) {
	const rule = "C11/G-error-gate"
	c11ListenerKeeps(w, r, rule)
	for _, name := range []string{"FormatPacketDsl", "ParseFile"} {
		fn := w.Parser.Func(name)
		if fn == nil {
			r.fatal("anchor unresolved: parser.%s", name)
			continue
		}
		// the tree walks (Accept) anywhere in the entry point's unit (the entry function and the parser helpers it calls)
		unit := newParseUnit(w, fn)
		var accepts []ssa.Instruction
		for _, f := range unit.funcs() {
			forEachInstr(f, func(_ *ssa.BasicBlock, ins ssa.Instruction) {
				if isAcceptCall(ins) {
					accepts = append(accepts, ins)
				}
			})
		}
		if len(accepts) == 0 {
			r.fail(rule, name+": tree visited", w.pos(fn.Pos()), "no Accept call found")
			continue
		}
		gateListeners := map[ssa.Value]bool{}
		for _, acc := range accepts {
			if unit.gated(acc, 0, gateListeners) {
				r.pass(rule, name+": Accept dominated by !HasErrors()", w.instrPos(acc), "")
			} else {
				r.fail(rule, name+": Accept dominated by !HasErrors()", w.instrPos(acc), "the parse tree is visited on a path where syntax errors may have been reported: mandatory children can be nil")
			}
		}
		// listener installation on both recognisers (in fn or in the constructors it calls)
		within := map[*ssa.Function]bool{}
		for _, f := range w.srcFuncs {
			if f.Pkg == w.Parser {
				within[f] = true
			}
		}
		var calls []inlinedCall
		collectInlined(fn, nil, within, bindings{}, 0, &calls)
		installed := map[string]bool{}
		conditional := map[string]string{}
		for _, ic := range calls {
			f := ic.call.Common().StaticCallee()
			var recvArg, lstArg ssa.Value
			switch {
			case f != nil && f.Name() == "AddErrorListener" && len(ic.call.Common().Args) >= 2:
				recvArg, lstArg = ic.call.Common().Args[0], ic.call.Common().Args[1]
			case ic.call.Common().IsInvoke() && ic.call.Common().Method.Name() == "AddErrorListener" && len(ic.call.Common().Args) >= 1:
				// through the Recognizer interface (a helper or closure that takes either recogniser)
				recvArg, lstArg = ic.call.Common().Value, ic.call.Common().Args[0]
			default:
				continue
			}
			l := stripIdentity(resolveParam(lstArg, ic.bs))
			lOrigin := unit.originOf(l, 0)
			// the recogniser(s) the call installs on: the receiver itself, or - when the receiver is the element of a list the
			// function walks from end to end - every member put into that list (at: where it got in, which is what may be conditional)
			type target struct {
				v      ssa.Value
				at     ssa.Instruction
				ignore *ssa.BasicBlock
			}
			targets := []target{{resolveParam(recvArg, ic.bs), ic.call, nil}}
			if ld, ok := stripIdentity(recvArg).(*ssa.UnOp); ok && ld.Op == token.MUL {
				if ia, ok := ld.X.(*ssa.IndexAddr); ok && walksWholeList(ia) {
					if ms, ok := localListMembers(ia.X, 0); ok && len(ms) > 0 {
						var hdr *ssa.BasicBlock
						switch ix := ia.Index.(type) {
						case *ssa.BinOp:
							if p, ok := ix.X.(*ssa.Phi); ok {
								hdr = p.Block()
							}
						case *ssa.Phi:
							hdr = ix.Block()
						}
						targets = targets[:0]
						for _, m := range ms {
							targets = append(targets, target{resolveParam(m.v, ic.bs), m.at, nil})
						}
						// the walk itself must not be left to a condition either (the loop's own header aside)
						targets = append(targets, target{nil, ic.call, hdr})
					}
				}
			}
			var kindsOfCall []string
			for _, tg := range targets {
				if tg.v == nil {
					// the walking call: judged for every kind its list carries
					for _, kind := range kindsOfCall {
						c11InstallCond(w, kind, tg.at, tg.ignore, conditional)
					}
					continue
				}
				recv := valueRoot(tg.v)
				if mi, ok := stripIdentity(tg.v).(*ssa.MakeInterface); ok {
					recv = valueRoot(mi.X)
				}
				kind := ""
				// the recogniser's own static type decides (it may be a member of a record, whose root is the record)
				direct := stripIdentity(tg.v)
				if mi, ok := direct.(*ssa.MakeInterface); ok {
					direct = stripIdentity(mi.X)
				}
				// walk from the receiver (an embedded BaseRecognizer) up the chain of member accesses to the recogniser itself
				chain := []ssa.Value{direct}
				for v, i := direct, 0; i < 8; i++ {
					switch x := v.(type) {
					case *ssa.UnOp:
						v = x.X
					case *ssa.FieldAddr:
						v = x.X
					case *ssa.Field:
						v = x.X
					default:
						i = 8
						continue
					}
					chain = append(chain, v)
				}
				chain = append(chain, recv)
				for _, cand := range chain {
					if kind != "" {
						break
					}
					switch {
					case typeIs(cand.Type(), grammarPath, "PacketDslLexer"):
						kind = "lexer"
					case typeIs(cand.Type(), grammarPath, "PacketDslParser"):
						kind = "parser"
					}
				}
				if os.Getenv("FINLINT_DEBUG_G") != "" {
					fmt.Fprintf(os.Stderr, "G: call %s in %s direct=%T %s recv=%T %s kind=%q gl=%d\n", ic.call, fnKey(ic.call.Parent()), direct, direct.Type(), recv, recv.Type(), kind, len(gateListeners))
				}
				if kind == "" {
					continue
				}
				before := installed[kind]
				for gl := range gateListeners {
					if stripIdentity(gl) == l || (cellOf(gl) != nil && cellOf(gl) == cellOf(l)) {
						installed[kind] = true
					}
					// the same listener seen through the record that carries it from the installing helper to the gate
					if o := unit.originOf(gl, 0); o != nil && o == lOrigin {
						installed[kind] = true
					}
					// the gate's listener is what an installing helper returned
					if hc, ok := stripIdentity(gl).(*ssa.Call); ok {
						if h := hc.Call.StaticCallee(); h != nil && within[h] && h == ic.call.Parent() {
							for _, b := range h.Blocks {
								if ret, ok := b.Instrs[len(b.Instrs)-1].(*ssa.Return); ok {
									for _, rv := range ret.Results {
										if stripIdentity(rv) == l {
											installed[kind] = true
										}
									}
								}
							}
						}
					}
				}
				if installed[kind] && !before {
					kindsOfCall = append(kindsOfCall, kind)
					c11InstallCond(w, kind, tg.at, tg.ignore, conditional)
				}
			}
		}
		for _, kind := range []string{"lexer", "parser"} {
			key := fmt.Sprintf("%s: collecting listener installed on the %s", name, kind)
			if installed[kind] && conditional[kind] != "" {
				r.fail(rule, key, conditional[kind], "the listener whose HasErrors() gates the visit is added to the "+kind+" only under the condition at "+conditional[kind]+": when it does not hold, the "+kind+"'s errors go to the console listener only and the input is treated as valid")
			} else if installed[kind] {
				r.pass(rule, key, w.pos(fn.Pos()), "")
			} else {
				r.fail(rule, key, w.pos(fn.Pos()), "the listener whose HasErrors() gates the visit is never added to the "+kind+": its errors go to the console listener only and the input is treated as valid")
			}
		}
	}
}

// c11InstallCond: the installation (or the entry of a recogniser into the list that is installed on) is not left to a condition:
// the only branches it may depend on are the ok edge of a checked assertion (getting at the concrete recogniser), `err == nil` and
// a non-nil test; ignore is the header of the loop that walks the list.
func c11InstallCond(w *World, kind string, at ssa.Instruction, ignore *ssa.BasicBlock, conditional map[string]string) {
	cd := computeCD(at.Parent())
	for _, d := range cd.allCtrl(at.Block()) {
		if ignore != nil && d.Branch == ignore {
			continue
		}
		cond := branchCond(d.Branch)
		if cond == nil {
			continue
		}
		if ex, ok := cond.(*ssa.Extract); ok && ex.Index == 1 && d.Succ == 0 {
			if ta, ok := ex.Tuple.(*ssa.TypeAssert); ok && ta.CommaOk {
				continue
			}
		}
		if v, nn, ok := nilTest(cond); ok {
			if isErrorType(v.Type()) && d.Succ == 1-nn {
				continue
			}
			if !isErrorType(v.Type()) && d.Succ == nn {
				continue
			}
		}
		conditional[kind] = w.instrPos(d.Branch.Instrs[len(d.Branch.Instrs)-1])
	}
}

type listMember struct {
	v  ssa.Value
	at ssa.Instruction
}

// localListMembers: everything a list built inside one function holds: the elements of the literal it starts as and what is
// appended to it on the way (ok false: an origin that is not such a construction).
func localListMembers(s ssa.Value, depth int) ([]listMember, bool) {
	if depth > 6 {
		return nil, false
	}
	switch x := stripIdentity(s).(type) {
	case *ssa.Phi:
		var out []listMember
		seen := map[ssa.Value]bool{}
		for _, e := range x.Edges {
			if stripIdentity(e) == ssa.Value(x) {
				continue
			}
			ms, ok := localListMembers(e, depth+1)
			if !ok {
				return nil, false
			}
			for _, m := range ms {
				if !seen[m.v] {
					seen[m.v] = true
					out = append(out, m)
				}
			}
		}
		return out, true
	case *ssa.Slice:
		al, ok := x.X.(*ssa.Alloc)
		if !ok {
			return nil, false
		}
		if _, isArr := al.Type().(*types.Pointer).Elem().Underlying().(*types.Array); !isArr {
			return nil, false
		}
		var out []listMember
		for _, ref := range *al.Referrers() {
			switch r := ref.(type) {
			case *ssa.IndexAddr:
				for _, r2 := range *r.Referrers() {
					if st, ok := r2.(*ssa.Store); ok && st.Addr == ssa.Value(r) {
						out = append(out, listMember{st.Val, st})
					}
				}
			case *ssa.Slice, *ssa.DebugRef:
			default:
				return nil, false
			}
		}
		return out, true
	case *ssa.Call:
		if bi, ok := x.Call.Value.(*ssa.Builtin); ok && bi.Name() == "append" && len(x.Call.Args) == 2 {
			base, ok := localListMembers(x.Call.Args[0], depth+1)
			if !ok {
				return nil, false
			}
			more, ok := localListMembers(x.Call.Args[1], depth+1)
			if !ok {
				return nil, false
			}
			for _, m := range more {
				base = append(base, listMember{m.v, x})
			}
			return base, true
		}
	case *ssa.Const:
		if x.IsNil() {
			return nil, true
		}
	}
	return nil, false
}

// c11ListenerKeeps: Rule G's premise "no error was reported" is read off the collecting listener: its SyntaxError method (the one
// ANTLR calls) must append to the list on every call, and HasErrors must be true from the first entry on.
func c11ListenerKeeps(w *World, r *Report, rule string) {
	var report, has *ssa.Function
	for _, fn := range w.srcFuncs {
		if fn.Pkg != w.Parser || recvNamedCore(fn) != "SyntaxErrorListener" || fn.Blocks == nil {
			continue
		}
		switch fn.Name() {
		case "SyntaxError":
			report = fn
		case "HasErrors":
			has = fn
		}
	}
	if report == nil || has == nil {
		r.fail(rule, "the collecting listener keeps every error it is told", "internal/parser/common.go", "SyntaxErrorListener.SyntaxError / HasErrors not found: anchor lost")
		return
	}
	// which member does HasErrors measure?
	listField := -1
	verdict := ""
	judged := false
	for _, b := range has.Blocks {
		ret, ok := b.Instrs[len(b.Instrs)-1].(*ssa.Return)
		if !ok || len(ret.Results) != 1 {
			continue
		}
		bo, ok := stripIdentity(ret.Results[0]).(*ssa.BinOp)
		if !ok {
			continue
		}
		for i, pair := range [][2]ssa.Value{{bo.X, bo.Y}, {bo.Y, bo.X}} {
			k, isK := pair[1].(*ssa.Const)
			call, isC := stripIdentity(pair[0]).(*ssa.Call)
			if !isK || !isC || k.Value == nil || k.Value.Kind() != constant.Int {
				continue
			}
			bi, isBi := call.Call.Value.(*ssa.Builtin)
			if !isBi || bi.Name() != "len" || len(call.Call.Args) != 1 {
				continue
			}
			ld, ok := stripIdentity(call.Call.Args[0]).(*ssa.UnOp)
			if !ok || ld.Op != token.MUL {
				continue
			}
			fa, ok := ld.X.(*ssa.FieldAddr)
			if !ok || stripIdentity(fa.X) != ssa.Value(has.Params[0]) {
				continue
			}
			listField = fa.Field
			n, _ := constant.Int64Val(k.Value)
			at := func(length int64) bool {
				a, c := length, n
				if i == 1 {
					a, c = n, length
				}
				switch bo.Op {
				case token.GTR:
					return a > c
				case token.GEQ:
					return a >= c
				case token.LSS:
					return a < c
				case token.LEQ:
					return a <= c
				case token.EQL:
					return a == c
				case token.NEQ:
					return a != c
				}
				return false
			}
			judged = true
			if at(0) || !at(1) || !at(2) {
				verdict = fmt.Sprintf("HasErrors yields %v / %v / %v for 0 / 1 / 2 collected errors: an input with syntax errors is treated as valid (or a valid one as broken)", at(0), at(1), at(2))
			}
		}
	}
	key := "HasErrors is true from the first collected error on"
	switch {
	case !judged:
		r.pass(rule, key, w.pos(has.Pos()), "not judged: HasErrors is not a comparison of the length of a member with a constant")
	case verdict != "":
		r.fail(rule, key, w.pos(has.Pos()), verdict)
	default:
		r.pass(rule, key, w.pos(has.Pos()), "")
	}
	key = "the collecting listener keeps every error it is told"
	var appendsAlways func(fn *ssa.Function, depth int) bool
	appendsAlways = func(fn *ssa.Function, depth int) bool {
		if fn == nil || fn.Blocks == nil || depth > 3 || len(fn.Params) == 0 {
			return false
		}
		found := false
		forEachInstr(fn, func(b *ssa.BasicBlock, ins ssa.Instruction) {
			if found {
				return
			}
			for _, rb := range fn.Blocks {
				if _, isRet := rb.Instrs[len(rb.Instrs)-1].(*ssa.Return); isRet && !b.Dominates(rb) {
					return
				}
			}
			switch x := ins.(type) {
			case ssa.CallInstruction:
				// handed on to another method of the same listener
				cc := x.Common()
				if g := cc.StaticCallee(); g != nil && len(cc.Args) > 0 && stripIdentity(cc.Args[0]) == ssa.Value(fn.Params[0]) && g != fn && appendsAlways(g, depth+1) {
					found = true
				}
			case *ssa.Store:
				fa, ok := x.Addr.(*ssa.FieldAddr)
				if !ok || stripIdentity(fa.X) != ssa.Value(fn.Params[0]) || (listField >= 0 && fa.Field != listField) {
					return
				}
				ap, ok := stripIdentity(x.Val).(*ssa.Call)
				if !ok {
					return
				}
				if bi, ok := ap.Call.Value.(*ssa.Builtin); !ok || bi.Name() != "append" || len(ap.Call.Args) != 2 {
					return
				}
				ld, ok := stripIdentity(ap.Call.Args[0]).(*ssa.UnOp)
				if !ok || ld.Op != token.MUL {
					return
				}
				if fa0, ok := ld.X.(*ssa.FieldAddr); !ok || fa0.Field != fa.Field || stripIdentity(fa0.X) != ssa.Value(fn.Params[0]) {
					return
				}
				if len(variadicOperands(ap.Call.Args[1])) == 0 {
					return
				}
				found = true
			}
		})
		return found
	}
	kept := appendsAlways(report, 0)
	if kept {
		r.pass(rule, key, w.pos(report.Pos()), "SyntaxError appends to the list HasErrors measures, on every call")
	} else {
		r.fail(rule, key, w.pos(report.Pos()), "SyntaxErrorListener.SyntaxError does not, on every call, append an entry to the list HasErrors measures: ANTLR reports the error, nobody remembers it, and the broken tree is visited")
	}
}

// ---------- Rule A ----------

// frozen, verified-by-reading exceptions: function | operand description | asserted type  -> reason
var assertExceptions = map[string]string{}

func c11RuleA(w *World, r *Report, subjects []*ssa.Function, ctxs map[string]*CtxInfo) {
	const rule = "C11/A-type-assertion"
	cg := w.CallGraph()
	for _, fn := range subjects {
		if w.isGenericTemplate(fn) {
			continue // the declared body of a generic function: what runs are its instances, each a subject of its own
		}
		counts := map[string]int{}
		forEachInstr(fn, func(b *ssa.BasicBlock, ins ssa.Instruction) {
			ta, ok := ins.(*ssa.TypeAssert)
			if !ok || ta.CommaOk {
				return
			}
			at := types.TypeString(ta.AssertedType, shortQual)
			opDesc := operandDesc(w, ta.X, ctxs)
			keyBase := fmt.Sprintf("%s %s.(%s)", fnKey(fn), opDesc, at)
			counts[keyBase]++
			key := keyBase
			if counts[keyBase] > 1 {
				key = fmt.Sprintf("%s#%d", keyBase, counts[keyBase])
			}
			if why := w.assertJustified(fn, ta, ctxs, cg); why != "" {
				r.pass(rule, key, w.instrPos(ins), why)
				return
			}
			exKey := fmt.Sprintf("%s|%s|%s", fnKey(fn), opDesc, at)
			if reason, ok := assertExceptions[exKey]; ok {
				r.pass(rule, key, w.instrPos(ins), "enumerated exception: "+reason)
				return
			}
			r.fail(rule, key, w.instrPos(ins), "single-result type assertion with no verified justification: panics when the dynamic type differs or the value is nil")
		})
	}
	r.floor(rule, 25)
}

func operandDesc(w *World, v ssa.Value, ctxs map[string]*CtxInfo) string {
	switch x := v.(type) {
	case *ssa.Call:
		if _, ai, ok := w.accessorOf(x, ctxs); ok {
			return ai.Ctx + "." + ai.Name + "()"
		}
		if x.Call.IsInvoke() {
			return "." + x.Call.Method.Name() + "()"
		}
		if f := x.Call.StaticCallee(); f != nil {
			return f.Name() + "()"
		}
		return "call"
	case *ssa.UnOp:
		if fa, ok := x.X.(*ssa.FieldAddr); ok {
			_, f, _, _ := fieldOf(fa)
			return "." + f
		}
	case *ssa.Parameter:
		return "param " + x.Name()
	case *ssa.Extract:
		if c, ok := x.Tuple.(*ssa.Call); ok {
			return operandDesc(w, c, ctxs) + fmt.Sprintf("#%d", x.Index)
		}
	case *ssa.Phi:
		return "phi"
	case *ssa.Field:
		_, f, _, _ := fieldOf(x)
		return "." + f
	}
	return strings.TrimPrefix(fmt.Sprintf("%T", v), "*ssa.")
}

// returnTypes: the set of dynamic types a function can return in result idx ("nil" for a nil constant, "?" for unknown).
func (w *World) returnTypes(fn *ssa.Function, idx int, visitorType string, depth int, seen map[*ssa.Function]bool) map[string]bool {
	out := map[string]bool{}
	if fn == nil || fn.Blocks == nil || depth > 6 || seen[fn] {
		out["?"] = true
		return out
	}
	seen[fn] = true
	defer delete(seen, fn)
	forEachInstr(fn, func(b *ssa.BasicBlock, ins ssa.Instruction) {
		ret, ok := ins.(*ssa.Return)
		if !ok || idx >= len(ret.Results) {
			return
		}
		if w.deadByExhaustiveSwitch(b, w.ctxTable()) != "" || w.deadByInfeasibleFlag(b, 0) {
			return
		}
		for t := range w.dynTypes(ret.Results[idx], visitorType, depth, seen, map[ssa.Value]bool{}) {
			out[t] = true
		}
	})
	return out
}

func (w *World) dynTypes(v ssa.Value, visitorType string, depth int, seen map[*ssa.Function]bool, vs map[ssa.Value]bool) map[string]bool {
	out := map[string]bool{}
	if vs[v] {
		return out
	}
	vs[v] = true
	switch x := v.(type) {
	case *ssa.MakeInterface:
		out[types.TypeString(x.X.Type(), shortQual)] = true
	case *ssa.Const:
		if x.Value == nil {
			out["nil"] = true
		} else {
			out["?"] = true
		}
	case *ssa.Phi:
		for _, e := range x.Edges {
			for t := range w.dynTypes(e, visitorType, depth, seen, vs) {
				out[t] = true
			}
		}
	case *ssa.ChangeInterface:
		return w.dynTypes(x.X, visitorType, depth, seen, vs)
	case *ssa.UnOp:
		// a local variable (possibly shared with closures of the function, which carry a result out through it): whatever is
		// assigned to it anywhere, and the zero value unless an assignment in the variable's own function comes before the read
		al := cellOfAddr(x.X)
		if x.Op != token.MUL || al == nil {
			out["?"] = true
			return out
		}
		stores, escaped := cellStores(al)
		if escaped {
			out["?"] = true
			return out
		}
		zero := true
		for _, st := range stores {
			if st.Parent() == x.Parent() && st.Parent() == al.Parent() && instrDominates(st, x) {
				zero = false
			}
			for t := range w.dynTypes(st.Val, visitorType, depth, seen, vs) {
				out[t] = true
			}
		}
		if zero {
			out["nil"] = true
		}
	case *ssa.Extract:
		if c, ok := x.Tuple.(*ssa.Call); ok {
			if f := c.Call.StaticCallee(); f != nil {
				return w.returnTypes(f, x.Index, visitorType, depth+1, seen)
			}
			if ts := w.dynTypesOfFuncValueCall(c, x.Index, v.Type(), visitorType, depth, seen); ts != nil {
				return ts
			}
		}
		out["?"] = true
	case *ssa.Call:
		if ts := w.dynTypesOfFuncValueCall(x, 0, v.Type(), visitorType, depth, seen); ts != nil {
			return ts
		}
		if f := x.Call.StaticCallee(); f != nil {
			if f.Name() == "Accept" && f.Pkg == w.Grammar && len(x.Call.Args) == 2 {
				// the same dispatch on a context of concrete type (statically bound): visitor.Visit<Rule>(ctx)
				ctxName := grammarCtxName(x.Call.Args[0].Type())
				vt := visitorType
				if n := namedOf(stripIdentity(x.Call.Args[1]).Type()); n != nil {
					vt = n.Obj().Name()
				}
				if ctxName != "" && vt != "" {
					m := lookupFunc(w.Parser, vt, "Visit"+strings.TrimSuffix(ctxName, "Context"))
					if m != nil && w.isSubjectFunc(m) {
						return w.returnTypes(m, 0, vt, depth+1, seen)
					}
				}
			}
			if _, isIface := v.Type().Underlying().(*types.Interface); isIface {
				vt := visitorType
				if rn := recvNamed(f); rn == "PacketDslVisitorImpl" || rn == "PacketDslFormattor" {
					vt = rn
				}
				return w.returnTypes(f, 0, vt, depth+1, seen)
			}
			out[types.TypeString(v.Type(), shortQual)] = true
			return out
		}
		if x.Call.IsInvoke() && x.Call.Method.Name() == "Accept" {
			// ctx.Accept(visitor) dispatches to visitor.Visit<Rule>(ctx)
			ctxName := grammarCtxName(x.Call.Value.Type())
			vt := visitorType
			if len(x.Call.Args) > 0 {
				if n := namedOf(stripIdentity(x.Call.Args[0]).Type()); n != nil {
					vt = n.Obj().Name()
				}
			}
			if ctxName != "" && vt != "" {
				// a rule with labelled alternatives: the node is one of the alternatives' contexts, each dispatching to its own
				// Visit<Label>; a visitor without that method inherits the base visitor's, which returns nil
				if alts := w.altContextsOf(ctxName); len(alts) > 0 {
					if depth > 6 {
						out["?"] = true
						return out
					}
					for _, alt := range alts {
						m := lookupFunc(w.Parser, vt, "Visit"+strings.TrimSuffix(alt, "Context"))
						if m == nil {
							out["nil"] = true
							continue
						}
						if !w.isSubjectFunc(m) {
							out["?"] = true
							continue
						}
						for t := range w.returnTypes(m, 0, vt, depth+1, seen) {
							out[t] = true
						}
					}
					return out
				}
				m := lookupFunc(w.Parser, vt, "Visit"+strings.TrimSuffix(ctxName, "Context"))
				if m != nil && w.isSubjectFunc(m) {
					return w.returnTypes(m, 0, vt, depth+1, seen)
				}
			}
		}
		out["?"] = true
	default:
		out["?"] = true
	}
	return out
}

// dynTypesOfFuncValueCall: the call runs a function value (a closure's captured function, a parameter, a member of a table, a
// method expression ...): when every function the value can be is known, the call yields what those functions return. nil when the
// call is not of that kind or the set of functions is not known to be complete.
func (w *World) dynTypesOfFuncValueCall(c *ssa.Call, idx int, resT types.Type, visitorType string, depth int, seen map[*ssa.Function]bool) map[string]bool {
	if c.Call.IsInvoke() || c.Call.StaticCallee() != nil {
		return nil
	}
	if _, isB := c.Call.Value.(*ssa.Builtin); isB {
		return nil
	}
	targets, complete := w.fnValueTargets(c.Call.Value, nil)
	if !complete || len(targets) == 0 {
		return nil
	}
	out := map[string]bool{}
	if _, isIface := resT.Underlying().(*types.Interface); !isIface {
		out[types.TypeString(resT, shortQual)] = true
		return out
	}
	for _, g := range targets {
		vt := visitorType
		if rn := recvNamed(g); rn == "PacketDslVisitorImpl" || rn == "PacketDslFormattor" {
			vt = rn
		}
		for t := range w.returnTypes(g, idx, vt, depth+1, seen) {
			out[t] = true
		}
	}
	return out
}

func (w *World) assertJustified(fn *ssa.Function, ta *ssa.TypeAssert, ctxs map[string]*CtxInfo, _ any) string {
	at := types.TypeString(ta.AssertedType, shortQual)
	if why := w.deadByExhaustiveSwitch(ta.Block(), ctxs); why != "" {
		return why
	}
	_, toIface := ta.AssertedType.Underlying().(*types.Interface)
	// (i) an earlier checked assertion/type switch on the same value to the same type dominates this one
	if refs := ta.X.Referrers(); refs != nil {
		for _, ref := range *refs {
			o, ok := ref.(*ssa.TypeAssert)
			if !ok || !o.CommaOk || !types.Identical(o.AssertedType, ta.AssertedType) {
				continue
			}
			for _, r2 := range *o.Referrers() {
				ex, ok := r2.(*ssa.Extract)
				if !ok || ex.Index != 1 {
					continue
				}
				for _, r3 := range *ex.Referrers() {
					if iff, ok := r3.(*ssa.If); ok && edgeDominates(iff.Block(), 0, ta.Block()) {
						return "dominated by the ok edge of a checked assertion of the same value to the same type"
					}
				}
			}
		}
	}
	// (ii)/(iii) operand is the result of a call whose every return has exactly the asserted dynamic type
	vt := recvNamed(fn)
	dts := w.dynTypes(ta.X, vt, 0, map[*ssa.Function]bool{}, map[ssa.Value]bool{})
	if len(dts) > 0 && !dts["?"] {
		all := true
		hasNil := false
		for t := range dts {
			if t == "nil" {
				hasNil = true
				continue
			}
			if toIface {
				all = false // interface targets are handled below
			} else if t != at {
				all = false
			}
		}
		if all && !hasNil {
			return "every return of the producing call yields exactly " + at
		}
		if all && hasNil && guardedByNil(ta.Block(), ta.X, true) {
			return "producer returns " + at + " or nil; assertion is dominated by a non-nil test of the value"
		}
		if all && hasNil {
			// nil only together with an error that is tested before: require the assert to be guarded by err == nil of the same call
			if ex, ok := ta.X.(*ssa.Extract); ok {
				if c, ok := ex.Tuple.(*ssa.Call); ok {
					for _, ref := range *c.Referrers() {
						if e2, ok := ref.(*ssa.Extract); ok && isErrorType(e2.Type()) && guardedByNil(ta.Block(), e2, false) {
							return "producer returns " + at + " or (nil, err); assertion is dominated by err == nil"
						}
					}
				}
			}
		}
	}
	// (iv) mandatory accessor + single implementer, or optional accessor under a non-nil guard
	if call, ok := ta.X.(*ssa.Call); ok {
		if _, ai, ok := w.accessorOf(call, ctxs); ok && ai.Known {
			impl := ""
			if pt, isPtr := ta.AssertedType.(*types.Pointer); isPtr {
				if n := namedOf(pt); n != nil && n.Obj().Pkg() != nil && n.Obj().Pkg().Path() == grammarPath {
					impl = n.Obj().Name()
				}
			}
			okType := impl != "" && ctxs[impl] != nil && (impl == ai.What+"Context" || strings.EqualFold(impl, ai.What+"Context") || grammarCtxName(call.Type()) == impl)
			if toIface {
				okType = staticImplements(call.Type(), ta.AssertedType)
			}
			if okType {
				if !ai.Optional {
					return "mandatory grammar child " + ai.Ctx + "." + ai.Name + "(); " + at + " is its only implementation"
				}
				if w.guardedByPath(ta.Block(), w.accessPath(call, ctxs, 0), ctxs) {
					return "optional grammar child under a dominating non-nil test"
				}
				return "" // optional, unguarded: Rule O reports it as well
			}
		}
	}
	// (ix) Y.Attr.(*T) where Y holds only fields that passed the checked assertion Attr.(*T) when they were recorded
	// (a variable, struct field or model link that designates "the field of kind T"), under a non-nil test of Y
	if ld, ok := ta.X.(*ssa.UnOp); ok && ld.Op == token.MUL && !toIface {
		if fa, ok := ld.X.(*ssa.FieldAddr); ok {
			if tn, f, _, _ := fieldOf(fa); tn == "Field" && f == "Attr" {
				y := fa.X
				if guardedByNil(ta.Block(), y, true) && w.designatedKind(y, ta.AssertedType, 0, map[ssa.Value]bool{}) {
					return "the field value was recorded only under the ok edge of a checked assertion of its Attr to " + at + ", and is non-nil here"
				}
			}
		}
	}
	// (x) the function is an entry of a dispatch table keyed by the dynamic type of Field.Attr: registered only under
	// reflect.TypeOf(&T{}) for the asserted T, called only through lookups of that table with reflect.TypeOf(<field>.Attr)
	if ld, ok := ta.X.(*ssa.UnOp); ok && ld.Op == token.MUL && !toIface {
		if fa, ok := ld.X.(*ssa.FieldAddr); ok {
			if tn, f, _, _ := fieldOf(fa); tn == "Field" && f == "Attr" {
				if why := w.dispatchedByAttrType(fn, ta.AssertedType); why != "" {
					return why
				}
			}
		}
	}
	// (xi) an element of a local list filled only under a type switch
	if !toIface {
		if why := w.elemOfTypeFilteredList(ta); why != "" {
			return why
		}
	}
	// interface-to-interface where the static type already implements the target
	if toIface && staticImplements(ta.X.Type(), ta.AssertedType) {
		if _, isParam := ta.X.(*ssa.Parameter); !isParam {
			return "static type implements the asserted interface; value is not nil-able here"
		}
	}
	// (vii) operand is a parameter: every call site passes a non-nil grammar node that implements the asserted type
	if p, ok := ta.X.(*ssa.Parameter); ok {
		if why := w.paramAlwaysImplements(fn, p, ta.AssertedType, ctxs); why != "" {
			return why
		}
	}
	// (viii) assertion on a grammar context value established by an enclosing checked switch: X itself is an Extract of a checked assertion
	if ex, ok := ta.X.(*ssa.Extract); ok {
		if o, ok := ex.Tuple.(*ssa.TypeAssert); ok && o.CommaOk && ex.Index == 0 {
			if staticImplements(o.AssertedType, ta.AssertedType) || types.Identical(o.AssertedType, ta.AssertedType) {
				return "operand already has a checked concrete type that satisfies the assertion"
			}
		}
	}
	return ""
}

// dispatchedByAttrType: see justification (x) in assertJustified.
func (w *World) dispatchedByAttrType(fn *ssa.Function, t types.Type) string {
	// functions that stand for fn as a value: fn itself, its thunks and bound wrappers
	stands := func(v ssa.Value) bool {
		v = stripIdentity(v)
		if mc, ok := v.(*ssa.MakeClosure); ok {
			v = mc.Fn
		}
		g, ok := v.(*ssa.Function)
		if !ok {
			return false
		}
		if g == fn {
			return true
		}
		if g.Synthetic == "" {
			return false
		}
		hit := false
		forEachInstr(g, func(_ *ssa.BasicBlock, ins ssa.Instruction) {
			if c, ok := ins.(ssa.CallInstruction); ok && c.Common().StaticCallee() == fn {
				hit = true
			}
		})
		return hit
	}
	typeOfArg := func(v ssa.Value) ssa.Value {
		c, ok := stripIdentity(v).(*ssa.Call)
		if !ok || c.Call.StaticCallee() == nil || c.Call.StaticCallee().String() != "reflect.TypeOf" || len(c.Call.Args) != 1 {
			return nil
		}
		if mi, ok := c.Call.Args[0].(*ssa.MakeInterface); ok {
			return stripIdentity(mi.X)
		}
		return stripIdentity(c.Call.Args[0])
	}
	var table ssa.Value
	registered := 0
	okKeys := true
	direct := false
	for _, f := range w.allFuncsInRepo() {
		forEachInstr(f, func(_ *ssa.BasicBlock, ins ssa.Instruction) {
			switch x := ins.(type) {
			case *ssa.MapUpdate:
				if !stands(x.Value) {
					return
				}
				registered++
				table = valueRoot(x.Map)
				a := typeOfArg(x.Key)
				if a == nil || !types.Identical(a.Type(), t) {
					okKeys = false
				}
			case ssa.CallInstruction:
				if x.Common().StaticCallee() == fn && f.Synthetic == "" {
					direct = true
				}
			}
		})
	}
	if registered == 0 || !okKeys || direct || table == nil {
		return ""
	}
	// where the table lives: a global it is stored into
	var glob *ssa.Global
	if mm, ok := table.(*ssa.MakeMap); ok {
		for _, ref := range *mm.Referrers() {
			if st, ok := ref.(*ssa.Store); ok {
				if g, ok := st.Addr.(*ssa.Global); ok {
					glob = g
				}
			}
		}
	}
	if glob == nil {
		return ""
	}
	lookups, okLookups := 0, true
	for _, f := range w.srcFuncs {
		forEachInstr(f, func(_ *ssa.BasicBlock, ins ssa.Instruction) {
			lk, ok := ins.(*ssa.Lookup)
			if !ok {
				return
			}
			ld, ok := lk.X.(*ssa.UnOp)
			if !ok || ld.X != ssa.Value(glob) {
				return
			}
			lookups++
			a := typeOfArg(lk.Index)
			l2, ok := a.(*ssa.UnOp)
			if a == nil || !ok {
				okLookups = false
				return
			}
			fa, ok := l2.X.(*ssa.FieldAddr)
			if !ok {
				okLookups = false
				return
			}
			if tn, fname, _, _ := fieldOf(fa); tn != "Field" || fname != "Attr" {
				okLookups = false
			}
		})
	}
	if lookups == 0 || !okLookups {
		return ""
	}
	return "entry of the dispatch table " + glob.Name() + ", registered under reflect.TypeOf of the asserted type and selected by reflect.TypeOf(field.Attr)"
}

func (w *World) allFuncsInRepo() []*ssa.Function {
	var out []*ssa.Function
	for fn := range w.allFuncs {
		if fn.Pkg == w.Parser || fn.Pkg == w.Model || fn.Pkg == w.Cmd {
			out = append(out, fn)
		}
	}
	sortFuncsByName(out)
	return out
}

// designatedKind: every non-nil value y can hold was recorded where a checked assertion of its Attr to T had succeeded.
func (w *World) designatedKind(y ssa.Value, t types.Type, depth int, seen map[ssa.Value]bool) bool {
	y = stripIdentity(y)
	if depth > 6 {
		return false
	}
	if seen[y] {
		return true
	}
	seen[y] = true
	if c, ok := y.(*ssa.Const); ok {
		return c.IsNil()
	}
	// recorded at a place dominated by the ok edge of v.Attr.(T)
	okAt := func(v ssa.Value, at *ssa.BasicBlock) bool {
		v = stripIdentity(v)
		fn := at.Parent()
		for _, b := range fn.Blocks {
			for _, ins := range b.Instrs {
				o, ok := ins.(*ssa.TypeAssert)
				if !ok || !o.CommaOk || !types.Identical(o.AssertedType, t) {
					continue
				}
				ld, ok := o.X.(*ssa.UnOp)
				if !ok {
					continue
				}
				fa, ok := ld.X.(*ssa.FieldAddr)
				if !ok || !sameValue(stripIdentity(fa.X), v) {
					continue
				}
				if _, f, _, _ := fieldOf(fa); f != "Attr" {
					continue
				}
				for _, r2 := range *o.Referrers() {
					ex, ok := r2.(*ssa.Extract)
					if !ok || ex.Index != 1 {
						continue
					}
					for _, r3 := range *ex.Referrers() {
						if iff, ok := r3.(*ssa.If); ok && edgeDominates(iff.Block(), 0, at) {
							return true
						}
					}
				}
			}
		}
		return false
	}
	switch x := y.(type) {
	case *ssa.Phi:
		for i, e := range x.Edges {
			if c, ok := e.(*ssa.Const); ok && c.IsNil() {
				continue
			}
			if okAt(e, x.Block().Preds[i]) {
				continue
			}
			if !w.designatedKind(e, t, depth+1, seen) {
				return false
			}
		}
		return true
	case *ssa.UnOp:
		if x.Op != token.MUL {
			return false
		}
		var stores []*ssa.Store
		switch a := x.X.(type) {
		case *ssa.FieldAddr:
			key := structFieldKey(x)
			if key == "" {
				return false
			}
			for _, fn := range w.srcFuncs {
				forEachInstr(fn, func(_ *ssa.BasicBlock, ins ssa.Instruction) {
					if st, ok := ins.(*ssa.Store); ok {
						if fa2, ok := st.Addr.(*ssa.FieldAddr); ok && fa2.Field == a.Field && types.Identical(fa2.X.Type(), a.X.Type()) {
							stores = append(stores, st)
						}
					}
				})
			}
		case *ssa.Alloc:
			for _, ref := range *a.Referrers() {
				switch r := ref.(type) {
				case *ssa.Store:
					if r.Addr == ssa.Value(a) {
						stores = append(stores, r)
					}
				case *ssa.UnOp, *ssa.DebugRef:
				default:
					return false // the variable escapes
				}
			}
		default:
			return false
		}
		for _, st := range stores {
			if c, ok := stripIdentity(st.Val).(*ssa.Const); ok && c.IsNil() {
				continue
			}
			if okAt(st.Val, st.Block()) {
				continue
			}
			if !w.designatedKind(st.Val, t, depth+1, seen) {
				return false
			}
		}
		return true
	case *ssa.Parameter:
		fn := x.Parent()
		idx := -1
		for i, q := range fn.Params {
			if q == x {
				idx = i
			}
		}
		n := w.CallGraph().Nodes[fn]
		if idx < 0 || n == nil {
			return false
		}
		real := 0
		for _, e := range n.In {
			if e.Caller.Func.Synthetic != "" {
				continue
			}
			real++
			if e.Site == nil || e.Site.Common().IsInvoke() || idx >= len(e.Site.Common().Args) {
				return false
			}
			a := e.Site.Common().Args[idx]
			if okAt(a, e.Site.Block()) {
				continue
			}
			if !w.designatedKind(a, t, depth+1, seen) {
				return false
			}
		}
		return real > 0
	}
	return false
}

// deadByExhaustiveSwitch: blk is reachable only when checked assertions of one value to every labelled alternative of a grammar rule
// have all failed - impossible for a tree the grammar can produce (and nil is excluded by the callers' mandatory accessors).
func (w *World) deadByExhaustiveSwitch(blk *ssa.BasicBlock, ctxs map[string]*CtxInfo) string {
	fn := blk.Parent()
	failed := map[ssa.Value]map[string]bool{}
	for _, b := range fn.Blocks {
		iff, ok := b.Instrs[len(b.Instrs)-1].(*ssa.If)
		if !ok {
			continue
		}
		ex, ok := iff.Cond.(*ssa.Extract)
		if !ok || ex.Index != 1 {
			continue
		}
		ta, ok := ex.Tuple.(*ssa.TypeAssert)
		if !ok || !ta.CommaOk {
			continue
		}
		name := grammarCtxName(ta.AssertedType)
		if name == "" {
			continue
		}
		if edgeDominates(b, 1, blk) {
			if failed[ta.X] == nil {
				failed[ta.X] = map[string]bool{}
			}
			failed[ta.X][name] = true
		}
	}
	for _, set := range failed {
		// group alternatives by rule
		byRule := map[string][]string{}
		for _, ci := range ctxs {
			if ci.AltLabel != "" {
				byRule[ci.Rule] = append(byRule[ci.Rule], ci.CtxType)
			}
		}
		for rule, alts := range byRule {
			all := true
			for _, a := range alts {
				if !set[a] {
					all = false
				}
			}
			if all && len(alts) > 0 {
				return fmt.Sprintf("unreachable: all %d alternatives of grammar rule %s have been tested before", len(alts), rule)
			}
		}
	}
	return ""
}

// deadByInfeasibleFlag: blk lies behind the "false" edge of a bool result of a repository function that hands back false only where
// it cannot get (behind an exhaustive switch over a grammar rule's alternatives, or behind such a flag itself): `f, ok := build(ctx);
// if ok { return f }; return nil` - the nil is not a value the function can return.
func (w *World) deadByInfeasibleFlag(blk *ssa.BasicBlock, depth int) bool {
	if depth > 3 {
		return false
	}
	fn := blk.Parent()
	for _, b := range fn.Blocks {
		cond := branchCond(b)
		if cond == nil {
			continue
		}
		neg := false
		c := cond
		for {
			if u, ok := c.(*ssa.UnOp); ok && u.Op == token.NOT {
				neg = !neg
				c = u.X
				continue
			}
			break
		}
		ex, ok := c.(*ssa.Extract)
		if !ok {
			continue
		}
		if bt, ok := ex.Type().Underlying().(*types.Basic); !ok || bt.Kind() != types.Bool {
			continue
		}
		call, ok := ex.Tuple.(*ssa.Call)
		if !ok {
			continue
		}
		g := call.Call.StaticCallee()
		if g == nil || g.Blocks == nil || !w.isSubjectFunc(g) {
			continue
		}
		falseSucc := 1
		if neg {
			falseSucc = 0
		}
		if !edgeDominates(b, falseSucc, blk) {
			continue
		}
		never := true
		forEachInstr(g, func(gb *ssa.BasicBlock, ins ssa.Instruction) {
			ret, ok := ins.(*ssa.Return)
			if !ok || ex.Index >= len(ret.Results) {
				return
			}
			if k, ok := ret.Results[ex.Index].(*ssa.Const); ok && k.Value != nil && k.Value.String() == "true" {
				return
			}
			if w.deadByExhaustiveSwitch(gb, w.ctxTable()) != "" || w.deadByInfeasibleFlag(gb, depth+1) {
				return
			}
			never = false
		})
		if never {
			return true
		}
	}
	return false
}

func staticImplements(t types.Type, target types.Type) bool {
	iface, ok := target.Underlying().(*types.Interface)
	if !ok {
		return false
	}
	return types.Implements(t, iface)
}

// paramAlwaysImplements: all repo call sites of fn pass, for parameter p, a value that is a non-nil grammar node whose static type satisfies target.
func (w *World) paramAlwaysImplements(fn *ssa.Function, p *ssa.Parameter, target types.Type, ctxs map[string]*CtxInfo) string {
	idx := -1
	for i, q := range fn.Params {
		if q == p {
			idx = i
		}
	}
	if idx < 0 {
		return ""
	}
	n := w.CallGraph().Nodes[fn]
	if n == nil || len(n.In) == 0 {
		return ""
	}
	sites := 0
	for _, e := range n.In {
		if e.Site == nil || !w.isSubjectFunc(e.Caller.Func) {
			// dispatch from generated code (Accept): the argument is the context itself, never nil
			continue
		}
		args := e.Site.Common().Args
		if e.Site.Common().IsInvoke() {
			// invoke: Args exclude the receiver
			if idx-1 < 0 || idx-1 >= len(args) {
				return ""
			}
			args = append([]ssa.Value{e.Site.Common().Value}, args...)
		}
		if idx >= len(args) {
			return ""
		}
		a := stripIdentity(args[idx])
		sites++
		okArg := false
		switch x := a.(type) {
		case *ssa.Call:
			if _, ai, ok := w.accessorOf(x, ctxs); ok && ai.Known && !ai.Optional && !strings.HasSuffix(ai.What, "*") {
				okArg = staticImplements(x.Type(), target) || implementsViaCtx(w, ai, target, ctxs, x.Type())
			}
		case *ssa.UnOp:
			// element of an AllX() slice
			if ia, ok := x.X.(*ssa.IndexAddr); ok {
				base := stripIdentity(ia.X)
				if sv := cellSingleValue(base); sv != nil {
					base = sv // the list is held in a variable a closure captures
				}
				if c, ok := base.(*ssa.Call); ok {
					if _, ai, ok := w.accessorOf(c, ctxs); ok && ai.Known && strings.HasSuffix(ai.What, "*") {
						okArg = staticImplements(x.Type(), target)
					}
				}
			}
		case *ssa.Extract:
			if o, ok := x.Tuple.(*ssa.TypeAssert); ok && x.Index == 0 {
				okArg = staticImplements(o.AssertedType, target) || types.Identical(o.AssertedType, target)
			}
			if _, ok := x.Tuple.(*ssa.Next); ok {
				okArg = staticImplements(x.Type(), target)
			}
		case *ssa.TypeAssert:
			okArg = staticImplements(x.AssertedType, target) || types.Identical(x.AssertedType, target)
		}
		if !okArg {
			return ""
		}
	}
	if sites == 0 {
		return ""
	}
	return fmt.Sprintf("operand is a parameter; all %d call sites pass a mandatory grammar node whose static type satisfies the assertion", sites)
}

func implementsViaCtx(w *World, ai accInfo, target types.Type, ctxs map[string]*CtxInfo, st types.Type) bool {
	return staticImplements(st, target)
}

// ---------- Rule R ----------

func c11RuleR(w *World, r *Report, subjects []*ssa.Function) {
	const rule = "C11/R-bounded-recursion"
	// subject + generator code: everything reachable from Compile and FormatPacketDsl is already in subjects
	inSet := map[*ssa.Function]bool{}
	for _, f := range subjects {
		inSet[f] = true
	}
	// also helper functions in model reachable (already included through compileReach)
	// static call edges only (recursion in this code base is through static calls)
	succ := map[*ssa.Function][]*ssa.Function{}
	for _, f := range subjects {
		forEachInstr(f, func(b *ssa.BasicBlock, ins ssa.Instruction) {
			if c, ok := ins.(ssa.CallInstruction); ok {
				if g := c.Common().StaticCallee(); g != nil && inSet[g] {
					succ[f] = append(succ[f], g)
				}
			}
		})
	}
	// Tarjan SCC
	index := 0
	idx := map[*ssa.Function]int{}
	low := map[*ssa.Function]int{}
	on := map[*ssa.Function]bool{}
	var st []*ssa.Function
	comp := map[*ssa.Function]int{}
	ncomp := 0
	compSize := map[int]int{}
	var strong func(v *ssa.Function)
	strong = func(v *ssa.Function) {
		index++
		idx[v], low[v] = index, index
		st = append(st, v)
		on[v] = true
		for _, u := range succ[v] {
			if idx[u] == 0 {
				strong(u)
				if low[u] < low[v] {
					low[v] = low[u]
				}
			} else if on[u] && idx[u] < low[v] {
				low[v] = idx[u]
			}
		}
		if low[v] == idx[v] {
			ncomp++
			for {
				u := st[len(st)-1]
				st = st[:len(st)-1]
				on[u] = false
				comp[u] = ncomp
				compSize[ncomp]++
				if u == v {
					break
				}
			}
		}
	}
	for _, f := range subjects {
		if idx[f] == 0 {
			strong(f)
		}
	}
	nEdges := 0
	type redge struct {
		from, to *ssa.Function
		call     ssa.CallInstruction
		key      string
		why      string // non-empty: strictly descending / cut
		neutral  bool
	}
	var edges []*redge
	for _, f := range subjects {
		counts := map[string]int{}
		forEachInstr(f, func(b *ssa.BasicBlock, ins ssa.Instruction) {
			c, ok := ins.(ssa.CallInstruction)
			if !ok {
				return
			}
			g := c.Common().StaticCallee()
			if g == nil || !inSet[g] || comp[g] != comp[f] {
				return
			}
			if g != f && compSize[comp[f]] < 2 {
				return
			}
			nEdges++
			kb := fmt.Sprintf("%s -> %s", fnKey(f), fnKey(g))
			counts[kb]++
			key := kb
			if counts[kb] > 1 {
				key = fmt.Sprintf("%s#%d", kb, counts[kb])
			}
			why, neutral := w.recursionBounded(f, g, c, func(a, b *ssa.Function) bool { return comp[a] == comp[b] && (a != b || true) && inSet[a] && inSet[b] })
			edges = append(edges, &redge{f, g, c, key, why, neutral})
		})
	}
	// residual graph: edges that do not strictly descend; an edge fails iff it lies on a cycle of the residual graph
	res := map[*ssa.Function][]*redge{}
	for _, e := range edges {
		if e.why == "" {
			res[e.from] = append(res[e.from], e)
		}
	}
	reach := func(from, to *ssa.Function) bool {
		seen := map[*ssa.Function]bool{}
		stack := []*ssa.Function{from}
		for len(stack) > 0 {
			x := stack[len(stack)-1]
			stack = stack[:len(stack)-1]
			if x == to {
				return true
			}
			if seen[x] {
				continue
			}
			seen[x] = true
			for _, e := range res[x] {
				stack = append(stack, e.to)
			}
		}
		return false
	}
	// failing edges are reported per residual cycle, keyed by the type whose methods recurse (not by function names: a renamed or
	// split emitter is still the same cycle)
	type cyc struct {
		recv, canon string
		edges       []*redge
	}
	cycles := map[string]*cyc{}
	for _, e := range edges {
		switch {
		case e.why != "":
			r.pass(rule, e.key, w.instrPos(e.call), e.why)
		case !reach(e.to, e.from):
			r.pass(rule, e.key, w.instrPos(e.call), "does not descend by itself, but every cycle through this call contains a strictly descending call")
		default:
			canon := fnKey(e.from)
			for _, f := range subjects {
				if comp[f] == comp[e.from] && fnKey(f) < canon && reach(e.from, f) && reach(f, e.from) {
					canon = fnKey(f)
				}
			}
			recv := recvNamedCore(e.from)
			if recv == "" {
				recv = e.from.Pkg.Pkg.Name()
			}
			k := recv + "|" + canon
			if cycles[k] == nil {
				cycles[k] = &cyc{recv: recv, canon: canon}
			}
			cycles[k].edges = append(cycles[k].edges, e)
		}
	}
	perRecv := map[string][]*cyc{}
	for _, k := range sortedKeys(cycles) {
		c := cycles[k]
		perRecv[c.recv] = append(perRecv[c.recv], c)
	}
	for _, recv := range sortedKeys(perRecv) {
		for i, c := range perRecv[recv] {
			key := recv + ": recursion over packet references without a bound"
			if i > 0 {
				key += fmt.Sprintf(" #%d", i+1)
			}
			var calls []string
			for _, e := range c.edges {
				calls = append(calls, e.key+" ("+w.instrPos(e.call)+")")
			}
			r.fail(rule, key, w.instrPos(c.edges[0].call), "recursive calls over the packet graph on a cycle that neither descends into an inline object / parse-tree child nor is cut by a visited set: a self- or mutually-referential DSL overflows the stack: "+strings.Join(calls, "; "))
		}
	}
	r.note("recursive call edges examined: %d", nEdges)
	r.floor(rule, 8)
}

func (w *World) recursionBounded(caller, callee *ssa.Function, call ssa.CallInstruction, sameCycle func(a, b *ssa.Function) bool) (string, bool) {
	args := call.Common().Args
	// (c) parse-tree descent: some argument is a grammar node obtained from the caller's own context parameter through an accessor
	for _, a := range args {
		a = stripIdentity(a)
		if isGrammarNode(a.Type()) || isEmptyInterface(a.Type()) {
			if derivedFromCtxParam(caller, a, 0) {
				return "descends into a child of the current parse-tree node (finite tree)", false
			}
		}
	}
	// (a) inline-object descent: an argument reached from RefPacket of an object attribute on its IsIner edge
	for _, a := range args {
		a = stripIdentity(a)
		if !strings.Contains(a.Type().String(), "internal/model") {
			continue
		}
		v := a
		for i := 0; i < 4; i++ {
			ld, ok := v.(*ssa.UnOp)
			if !ok || ld.Op != token.MUL {
				break
			}
			fa, ok := ld.X.(*ssa.FieldAddr)
			if !ok {
				break
			}
			tn, fname, _, _ := fieldOf(fa)
			if tn == "ObjectFieldAttribute" && fname == "RefPacket" {
				if w.underIsIner(call.Block(), fa.X) {
					return "descends into RefPacket of an inline object (IsIner edge): inline objects form a finite tree", false
				}
				break
			}
			v = fa.X
		}
	}
	// (a'') ... or the result of a helper that hands out nothing but the packet of an inline object (or nil)
	for _, a := range args {
		v := stripIdentity(a)
		for i := 0; i < 4; i++ {
			ld, ok := v.(*ssa.UnOp)
			if !ok || ld.Op != token.MUL {
				break
			}
			fa, ok := ld.X.(*ssa.FieldAddr)
			if !ok {
				break
			}
			v = stripIdentity(fa.X)
		}
		var h *ssa.Function
		idx := 0
		switch x := v.(type) {
		case *ssa.Extract:
			if c, ok := x.Tuple.(*ssa.Call); ok {
				h, idx = c.Call.StaticCallee(), x.Index
			}
		case *ssa.Call:
			h = x.Call.StaticCallee()
		}
		if h != nil && h != caller && w.isSubjectFunc(h) && w.yieldsOnlyInlinePackets(h, idx) {
			return "descends into the packet a helper hands out for an inline object only (RefPacket on the IsIner edge, nil otherwise): inline objects form a finite tree", false
		}
	}
	// (a') ... or an element of a local list that only ever receives such packets
	for _, a := range args {
		if w.elemOfInlineObjectList(stripIdentity(a)) {
			return "descends into an element of a list of the packet's inline objects (RefPacket on the IsIner edge): inline objects form a finite tree", false
		}
	}
	// (b) visited set in the callee: entry lookup with early return + insert
	if hasVisitedSet(callee, sameCycle) {
		return "callee is cut by a visited set (lookup with early return, then insert)", false
	}
	// no packet/tree argument at all: recursion on something else (strings...) is not over the packet graph
	anyGraph := false
	for _, a := range args {
		t := stripIdentity(a).Type()
		if isModelType(t) || isGrammarNode(t) || isEmptyInterface(t) || strings.Contains(t.String(), "internal/model") {
			anyGraph = true
		}
	}
	return "", !anyGraph
}

// yieldsOnlyInlinePackets: result idx of h is, on every return, nil or the RefPacket of an object attribute on its IsIner edge.
func (w *World) yieldsOnlyInlinePackets(h *ssa.Function, idx int) bool {
	if h.Blocks == nil {
		return false
	}
	n, good := 0, true
	forEachInstr(h, func(b *ssa.BasicBlock, ins ssa.Instruction) {
		ret, ok := ins.(*ssa.Return)
		if !ok || idx >= len(ret.Results) {
			return
		}
		var check func(v ssa.Value, from *ssa.BasicBlock, depth int) bool
		check = func(v ssa.Value, from *ssa.BasicBlock, depth int) bool {
			v = stripIdentity(v)
			if k, ok := v.(*ssa.Const); ok && k.Value == nil {
				return true
			}
			if ph, ok := v.(*ssa.Phi); ok && depth < 3 {
				for i, e := range ph.Edges {
					if !check(e, ph.Block().Preds[i], depth+1) {
						return false
					}
				}
				return true
			}
			ld, ok := v.(*ssa.UnOp)
			if !ok || ld.Op != token.MUL {
				return false
			}
			fa, ok := ld.X.(*ssa.FieldAddr)
			if !ok {
				return false
			}
			tn, fname, _, _ := fieldOf(fa)
			if tn != "ObjectFieldAttribute" || fname != "RefPacket" {
				return false
			}
			n++
			return w.underIsIner(ld.Block(), fa.X) || w.underIsIner(from, fa.X)
		}
		if !check(ret.Results[idx], b, 0) {
			good = false
		}
	})
	return good && n > 0
}

func isGrammarNode(t types.Type) bool {
	return grammarCtxName(t) != "" || strings.Contains(t.String(), "antlr")
}

func isEmptyInterface(t types.Type) bool {
	i, ok := t.Underlying().(*types.Interface)
	return ok && i.NumMethods() == 0
}

func derivedFromCtxParam(fn *ssa.Function, v ssa.Value, depth int) bool {
	if depth > 10 {
		return false
	}
	switch x := v.(type) {
	case *ssa.Call:
		// accessor call on something derived from a parameter
		cc := x.Call
		var recv ssa.Value
		if cc.IsInvoke() {
			recv = cc.Value
		} else if len(cc.Args) > 0 {
			recv = cc.Args[0]
		}
		if recv == nil {
			return false
		}
		if isGrammarNode(recv.Type()) {
			return rootIsParam(fn, recv, 0)
		}
	case *ssa.UnOp:
		return derivedFromCtxParam(fn, x.X, depth+1)
	case *ssa.IndexAddr:
		return derivedFromCtxParam(fn, x.X, depth+1)
	case *ssa.Extract:
		return derivedFromCtxParam(fn, x.Tuple, depth+1)
	case *ssa.TypeAssert:
		return derivedFromCtxParam(fn, x.X, depth+1)
	case *ssa.MakeInterface:
		return derivedFromCtxParam(fn, x.X, depth+1)
	case *ssa.ChangeInterface:
		return derivedFromCtxParam(fn, x.X, depth+1)
	case *ssa.Next:
		return derivedFromCtxParam(fn, x.Iter, depth+1)
	case *ssa.Range:
		return derivedFromCtxParam(fn, x.X, depth+1)
	case *ssa.Phi:
		for _, e := range x.Edges {
			if derivedFromCtxParam(fn, e, depth+1) {
				return true
			}
		}
	}
	return false
}

func rootIsParam(fn *ssa.Function, v ssa.Value, depth int) bool {
	if depth > 10 {
		return false
	}
	switch x := v.(type) {
	case *ssa.Parameter:
		return true
	case *ssa.Call:
		cc := x.Call
		if cc.IsInvoke() {
			return rootIsParam(fn, cc.Value, depth+1)
		}
		if len(cc.Args) > 0 && isGrammarNode(cc.Args[0].Type()) {
			return rootIsParam(fn, cc.Args[0], depth+1)
		}
	case *ssa.TypeAssert:
		return rootIsParam(fn, x.X, depth+1)
	case *ssa.Extract:
		return rootIsParam(fn, x.Tuple, depth+1)
	case *ssa.MakeInterface:
		return rootIsParam(fn, x.X, depth+1)
	case *ssa.ChangeInterface:
		return rootIsParam(fn, x.X, depth+1)
	case *ssa.UnOp:
		return rootIsParam(fn, x.X, depth+1)
	case *ssa.IndexAddr:
		return rootIsParam(fn, x.X, depth+1)
	case *ssa.Phi:
		for _, e := range x.Edges {
			if rootIsParam(fn, e, depth+1) {
				return true
			}
		}
	}
	return false
}

// underIsIner: blk is dominated by the true edge of a test of attr.IsIner for the same attribute value.
func (w *World) underIsIner(blk *ssa.BasicBlock, attr ssa.Value) bool {
	fn := blk.Parent()
	for _, b := range fn.Blocks {
		cond := branchCond(b)
		if cond == nil {
			continue
		}
		neg := false
		c := cond
		for {
			if u, ok := c.(*ssa.UnOp); ok && u.Op == token.NOT {
				neg = !neg
				c = u.X
				continue
			}
			break
		}
		ld, ok := c.(*ssa.UnOp)
		if !ok || ld.Op != token.MUL {
			continue
		}
		fa, ok := ld.X.(*ssa.FieldAddr)
		if !ok {
			continue
		}
		_, fname, _, _ := fieldOf(fa)
		if fname != "IsIner" || stripIdentity(fa.X) != stripIdentity(attr) {
			continue
		}
		succ := 0
		if neg {
			succ = 1
		}
		if edgeDominates(b, succ, blk) {
			return true
		}
	}
	return false
}

// hasVisitedSet: the function looks a key up in a map that outlives the call, returns early on a hit, and inserts into the same map.
func hasVisitedSet(fn *ssa.Function, sameCycle func(a, b *ssa.Function) bool) bool {
	for _, mark := range visitedMarks(fn, 0) {
		// the mark must be set before the function recurses: it dominates every call that stays on the cycle
		before := true
		forEachInstr(fn, func(b3 *ssa.BasicBlock, i3 ssa.Instruction) {
			c, ok := i3.(ssa.CallInstruction)
			if !ok || i3 == mark {
				return
			}
			g := c.Common().StaticCallee()
			if g == nil || sameCycle == nil || !sameCycle(fn, g) {
				return
			}
			if !instrDominates(mark, i3) {
				before = false
			}
		})
		if before {
			return true
		}
	}
	return false
}

// visitedMarks: the instructions of fn after which "this element was seen" is recorded and before which a seen element made fn
// return: a map insert behind a lookup with an early return (comma-ok or boolean-valued), or a call of a test-and-set helper whose
// result makes fn return early.
func visitedMarks(fn *ssa.Function, depth int) []ssa.Instruction {
	var out []ssa.Instruction
	if fn.Blocks == nil || depth > 2 {
		return nil
	}
	returnsSoon := func(blk *ssa.BasicBlock) bool {
		for i := 0; i < 3 && blk != nil; i++ {
			for _, ins := range blk.Instrs {
				if _, ok := ins.(*ssa.Return); ok {
					return true
				}
			}
			if len(blk.Succs) != 1 {
				return false
			}
			blk = blk.Succs[0]
		}
		return false
	}
	// branches on a value: which successor is taken when it is true
	earlyReturnOn := func(v ssa.Value) bool {
		if v.Referrers() == nil {
			return false
		}
		for _, ref := range *v.Referrers() {
			switch x := ref.(type) {
			case *ssa.If:
				if returnsSoon(x.Block().Succs[0]) || returnsSoon(x.Block().Succs[1]) {
					return true
				}
			case *ssa.UnOp:
				if x.Op == token.NOT {
					for _, r2 := range *x.Referrers() {
						if iff, ok := r2.(*ssa.If); ok && (returnsSoon(iff.Block().Succs[0]) || returnsSoon(iff.Block().Succs[1])) {
							return true
						}
					}
				}
			}
		}
		return false
	}
	forEachInstr(fn, func(b *ssa.BasicBlock, ins ssa.Instruction) {
		switch x := ins.(type) {
		case *ssa.Lookup:
			if _, isMap := x.X.Type().Underlying().(*types.Map); !isMap {
				return
			}
			if _, fresh := valueRoot(x.X).(*ssa.MakeMap); fresh {
				return
			}
			hit := false
			if x.CommaOk {
				for _, ref := range *x.Referrers() {
					if ex, ok := ref.(*ssa.Extract); ok && ex.Index == 1 && earlyReturnOn(ex) {
						hit = true
					}
				}
			} else if bt, ok := x.Type().Underlying().(*types.Basic); ok && bt.Kind() == types.Bool {
				hit = earlyReturnOn(x)
			}
			if !hit {
				return
			}
			forEachInstr(fn, func(b2 *ssa.BasicBlock, i2 ssa.Instruction) {
				if mu, ok := i2.(*ssa.MapUpdate); ok && sameMapExpr(mu.Map, x.X) && b.Dominates(b2) {
					out = append(out, mu)
				}
			})
		case *ssa.Call:
			g := x.Call.StaticCallee()
			if g == nil || g == fn || g.Blocks == nil || g.Pkg != fn.Pkg {
				return
			}
			if bt, ok := x.Type().Underlying().(*types.Basic); !ok || bt.Kind() != types.Bool {
				return
			}
			if !earlyReturnOn(x) {
				return
			}
			// the helper looks the element up and inserts it
			hasLookup, hasInsert := false, false
			forEachInstr(g, func(_ *ssa.BasicBlock, i2 ssa.Instruction) {
				switch y := i2.(type) {
				case *ssa.Lookup:
					if _, isMap := y.X.Type().Underlying().(*types.Map); isMap {
						if _, fresh := valueRoot(y.X).(*ssa.MakeMap); !fresh {
							hasLookup = true
						}
					}
				case *ssa.MapUpdate:
					if _, fresh := valueRoot(y.Map).(*ssa.MakeMap); !fresh {
						hasInsert = true
					}
				}
			})
			if hasLookup && hasInsert {
				out = append(out, x)
			}
			// a pair of helpers: this one only looks the element up, another one - called later, on the path that did not return -
			// inserts it into the same table (`if g.isEmitted(p) { return }; g.markEmitted(p)`)
			if hasLookup && !hasInsert {
				keys := map[string]bool{}
				forEachInstr(g, func(_ *ssa.BasicBlock, i2 ssa.Instruction) {
					if y, ok := i2.(*ssa.Lookup); ok {
						if k := structFieldKey(y.X); k != "" {
							keys[k] = true
						}
					}
				})
				forEachInstr(fn, func(b2 *ssa.BasicBlock, i2 ssa.Instruction) {
					c2, ok := i2.(*ssa.Call)
					if !ok || !b.Dominates(b2) || i2 == ins {
						return
					}
					g2 := c2.Call.StaticCallee()
					if g2 == nil || g2.Blocks == nil || g2.Pkg != fn.Pkg || g2 == g {
						return
					}
					inserts := false
					forEachInstr(g2, func(_ *ssa.BasicBlock, i3 ssa.Instruction) {
						if mu, ok := i3.(*ssa.MapUpdate); ok && keys[structFieldKey(mu.Map)] {
							inserts = true
						}
					})
					if inserts {
						out = append(out, c2)
					}
				})
			}
		}
	})
	return out
}

func sameMapExpr(a, b ssa.Value) bool {
	return mapDesc(a) == mapDesc(b) && valueRoot(a) == valueRoot(b) || a == b
}

// ---------- Rule L ----------

var linkFields = map[string]bool{
	"BinaryModel.RootPacket": true, "ObjectFieldAttribute.RefPacket": true, "LengthFieldAttribute.TragetField": true,
	"MatchFieldAttribute.MatchKeyField": true, "Packet.LengthField": true,
}

func pointerish(t types.Type) bool {
	switch u := t.Underlying().(type) {
	case *types.Pointer, *types.Interface, *types.Map, *types.Slice, *types.Signature:
		return true
	case *types.Struct:
		for i := 0; i < u.NumFields(); i++ {
			if pointerish(u.Field(i).Type()) {
				return true
			}
		}
	}
	return false
}

func c11RuleL(w *World, r *Report, subjects []*ssa.Function, derefs map[*ssa.Function]map[int]string) {
	const ruleLookup = "C11/L-lookup"
	const ruleLink = "C11/L-link"
	// which links have a validating diagnostic (nil test whose nil edge reaches AddSyntaxError, or miss edge of a checked lookup that does)?
	validated := map[string]string{}
	for _, fn := range w.srcFuncs {
		if fn.Pkg != w.Model && fn.Pkg != w.Parser {
			continue
		}
		for _, b := range fn.Blocks {
			cond := branchCond(b)
			if cond == nil {
				continue
			}
			x, nn, ok := nilTest(cond)
			if !ok {
				continue
			}
			ld, ok := stripIdentity(x).(*ssa.UnOp)
			if !ok {
				continue
			}
			fa, ok := ld.X.(*ssa.FieldAddr)
			if !ok {
				continue
			}
			tn, fname, _, _ := fieldOf(fa)
			lk := tn + "." + fname
			if !linkFields[lk] {
				continue
			}
			nilSucc := b.Succs[1-nn]
			if nilSucc.Dominates(b) {
				continue // the nil edge is the loop's back edge (a `continue`): nothing is reported for this element
			}
			if blockReachesForward(nilSucc, func(i ssa.Instruction) bool {
				c, ok := i.(ssa.CallInstruction)
				if !ok {
					return false
				}
				// the diagnostic itself, or a helper that resolves the name and reports the miss (`lookupPacket(name, ..)`)
				return isAddSyntaxError(i) || w.mayReport(calleeOf(c), 0, map[*ssa.Function]bool{})
			}) {
				// coverage of inner objects: the validating function must also look at inline packets - itself, or the walker that
				// hands it the fields (its callers up to three levels, and what those call)
				covers := false
				readsIsIner := func(g *ssa.Function) bool {
					hit := false
					forEachInstr(g, func(_ *ssa.BasicBlock, i ssa.Instruction) {
						if f2, ok := i.(*ssa.FieldAddr); ok {
							if _, n2, _, _ := fieldOf(f2); n2 == "IsIner" {
								hit = true
							}
						}
					})
					return hit
				}
				covers = readsIsIner(fn)
				if !covers {
					level := []*ssa.Function{fn}
					seenUp := map[*ssa.Function]bool{fn: true}
					for d := 0; d < 3 && !covers; d++ {
						var next []*ssa.Function
						for _, g := range level {
							n := w.CallGraph().Nodes[g]
							if n == nil {
								continue
							}
							for _, e := range n.In {
								up := e.Caller.Func
								if up == nil || seenUp[up] || !w.isRepoLike(up) {
									continue
								}
								seenUp[up] = true
								next = append(next, up)
								if up.Blocks == nil {
									continue
								}
								if readsIsIner(up) {
									covers = true
								}
								forEachInstr(up, func(_ *ssa.BasicBlock, i ssa.Instruction) {
									if c, ok := i.(ssa.CallInstruction); ok {
										if h := c.Common().StaticCallee(); h != nil && h.Blocks != nil && w.isSubjectFunc(h) && readsIsIner(h) {
											covers = true
										}
									}
								})
							}
						}
						level = next
					}
				}
				if lk != "ObjectFieldAttribute.RefPacket" {
					covers = true
				}
				if covers {
					validated[lk] = fnKey(fn)
				} else {
					validated[lk] = ""
					validatedPartial[lk] = fnKey(fn)
				}
			}
		}
	}
	byConstruction := map[string]bool{}
	// links that can never hold nil: every store writes a fresh object or a found lookup result, every literal sets the field
	for lk := range linkFields {
		if _, done := validated[lk]; done && validated[lk] != "" {
			continue
		}
		if why := w.linkNonNilByConstruction(lk); why != "" {
			validated[lk] = why
			byConstruction[lk] = true
		}
	}
	vlook := w.validatedLookups()
	classOK := func(mapd string) bool {
		switch mapd {
		case ".PacketsMap":
			return vlook[".PacketsMap|ObjectFieldAttribute.PacketName"] && vlook[".PacketsMap|MatchPair.Value"]
		case ".FieldMap":
			return vlook[".FieldMap|MatchFieldAttribute.MatchKeyField.Name"] && vlook[".FieldMap|LengthFieldAttribute.TragetField.Name"]
		}
		return false
	}
	parsePhase := map[*ssa.Function]bool{}
	for _, f := range parsePhaseFuncs(w) {
		parsePhase[f] = true
	}
	linkBad := map[string][]string{}
	linkSeen := map[string]int{}
	memberKept := map[string]string{}
	for _, fn := range subjects {
		lookupCounts := map[string]int{}
		forEachInstr(fn, func(b *ssa.BasicBlock, ins ssa.Instruction) {
			switch x := ins.(type) {
			case *ssa.Lookup:
				mt, isMap := x.X.Type().Underlying().(*types.Map)
				if !isMap || x.CommaOk || !pointerish(mt.Elem()) {
					return
				}
				desc := mapDesc(x.X)
				kb := fmt.Sprintf("%s %s[%s]", fnKey(fn), desc, keyDesc(x.Index))
				lookupCounts[kb]++
				key := kb
				if lookupCounts[kb] > 1 {
					key = fmt.Sprintf("%s#%d", kb, lookupCounts[kb])
				}
				why := w.lookupMisuse(x, derefs, validated)
				if why != "" && presenceGuarded(fn, x) {
					why = ""
					// "the entry exists" says nothing about a pointer-like member of the entry: that needs every stored record to
					// have it (an alias entry registered with a nil attribute is present and crashes `entry.Attr.GetType()`)
					if st, ok := mt.Elem().Underlying().(*types.Struct); ok {
						for i := 0; i < st.NumFields(); i++ {
							if !pointerish(st.Field(i).Type()) {
								continue
							}
							ck := fmt.Sprintf("%s#%d", normMapDesc(x.X), i)
							res, done := memberKept[ck]
							if !done {
								res = w.insertedRecordsKeepMember(normMapDesc(x.X), i, w.ctxTable())
								memberKept[ck] = res
							}
							if res != "" {
								why = "the entry is known to exist, but its member " + st.Field(i).Name() + " is dereferenced and not every record stored in the table has one: " + res
							}
						}
					}
				}
				if why != "" && w.coInserted(x) {
					why = "" // the key is the name of an element of a list that is only ever extended together with this map
				}
				if why != "" && w.coInsertedCarried(x) {
					why = "" // the same for a list and a map that travel as locals, results and arguments (rules_c11_carried.go)
				}
				if why != "" && vlook[normMapDesc(x.X)+"|"+keyPath(x.Index)] {
					why = "" // the same name is resolved with a diagnostic on a miss in the parse phase
				}
				if why != "" && !parsePhase[fn] && classOK(normMapDesc(x.X)) {
					why = "" // generator side: runs only on diagnostic-free models (C12 gate) and every name class stored in this map is validated
				}
				if why == "" {
					r.pass(ruleLookup, key, w.instrPos(ins), "result is nil-tested, compared, or only stored into a validated link")
				} else {
					r.fail(ruleLookup, key, w.instrPos(ins), "unchecked lookup in a name-resolution map: a missing key yields nil, then "+why)
				}
			case *ssa.UnOp:
				if x.Op != token.MUL {
					return
				}
				fa, ok := x.X.(*ssa.FieldAddr)
				if !ok {
					return
				}
				tn, fname, _, _ := fieldOf(fa)
				lk := tn + "." + fname
				if !linkFields[lk] {
					return
				}
				linkSeen[lk]++
				if v, ok := validated[lk]; ok && v != "" && (!parsePhase[fn] || byConstruction[lk]) {
					return // generators run on validated, diagnostic-free models; the parse phase itself runs before/while validating
				}
				if why := derefUse(w, x, derefs, 0); why != "" {
					// Packet.LengthField is implied non-nil under the LenAttr test (set together in VisitPacketDefinition)
					if lk == "Packet.LengthField" && w.underLenAttrTestIP(b, 0) {
						return
					}
					// a model accessor that reads the link only for one kind of field (case *ObjectFieldAttribute: c.RefPacket...):
					// fine when no parse-phase caller can hand it a field of that kind
					if parsePhase[fn] && w.kindGuardedAtParseCallers(fn, fa.X, parsePhase) {
						return
					}
					linkBad[lk] = append(linkBad[lk], fnKey(fn)+" "+why+" ("+w.instrPos(ins)+")")
				}
			}
		})
	}
	for _, lk := range sortedKeys(linkFields) {
		if linkSeen[lk] == 0 {
			r.fail(ruleLink, lk, "internal/model/model.go", "frozen link field is never read in subject code: the link table is stale")
			continue
		}
		r.RuleCounts[ruleLink] += linkSeen[lk] - 1
		if bad := linkBad[lk]; len(bad) > 0 {
			extra := ""
			if p := validatedPartial[lk]; p != "" {
				extra = " (validated by " + p + " for top-level packets only: fields of inline objects are never resolved nor checked)"
			}
			sort.Strings(bad)
			bad = uniqStrings(bad)
			n := len(bad)
			if n > 8 {
				bad = append(bad[:8], fmt.Sprintf("... and %d more", n-8))
			}
			r.fail(ruleLink, lk, "internal/model/model.go", fmt.Sprintf("nullable model link is dereferenced at %d site(s) without a nil test, and no diagnostic validates it for every container%s: %s", n, extra, strings.Join(bad, "; ")))
		} else {
			r.pass(ruleLink, lk, "internal/model/model.go", fmt.Sprintf("%d reads: guarded, validated (%s), or not dereferenced", linkSeen[lk], validated[lk]))
		}
	}
	r.floor(ruleLink, 20)
	r.floor(ruleLookup, 8)
}

var validatedPartial = map[string]string{}

// normMapDesc: like mapDesc, but a local map that is stored into Packet.FieldMap is called ".FieldMap".
func normMapDesc(m ssa.Value) string {
	if mm, ok := valueRoot(m).(*ssa.MakeMap); ok {
		for _, ref := range *mm.Referrers() {
			if st, ok := ref.(*ssa.Store); ok && st.Val == ssa.Value(mm) {
				if fa, ok := st.Addr.(*ssa.FieldAddr); ok {
					if _, f, _, _ := fieldOf(fa); f == "FieldMap" {
						return ".FieldMap"
					}
				}
			}
		}
	}
	// a name map kept in a scratch record whose content becomes Packet.FieldMap
	if key := structFieldKey(m); key != "" && theWorld != nil && !strings.Contains(key, "/internal/model.") {
		becomes := false
		for _, fn := range theWorld.srcFuncs {
			forEachInstr(fn, func(_ *ssa.BasicBlock, ins ssa.Instruction) {
				if st, ok := ins.(*ssa.Store); ok && structFieldKey(st.Val) == key {
					if fa, ok := st.Addr.(*ssa.FieldAddr); ok {
						if _, f, _, _ := fieldOf(fa); f == "FieldMap" {
							becomes = true
						}
					}
				}
			})
		}
		if becomes {
			return ".FieldMap"
		}
	}
	// a map that reaches this place through a parameter, a local cell or a captured variable and that is (elsewhere) made the
	// packet's FieldMap
	if theWorld != nil {
		if origins := makeMapOrigins(m, 0, map[ssa.Value]bool{}); len(origins) > 0 {
			becomes := false
			for _, fn := range theWorld.srcFuncs {
				if fn.Pkg != theWorld.Parser || becomes {
					continue
				}
				forEachInstr(fn, func(_ *ssa.BasicBlock, ins ssa.Instruction) {
					st, ok := ins.(*ssa.Store)
					if !ok || becomes {
						return
					}
					fa, ok := st.Addr.(*ssa.FieldAddr)
					if !ok {
						return
					}
					if _, f, _, _ := fieldOf(fa); f != "FieldMap" {
						return
					}
					for mk := range makeMapOrigins(st.Val, 0, map[ssa.Value]bool{}) {
						if origins[mk] {
							becomes = true
						}
					}
				})
			}
			if becomes {
				return ".FieldMap"
			}
		}
	}
	// a name map of the model that reaches this place in a member of a scratch record, through a parameter, a local cell or a
	// captured variable: it is the model's map under another name when every value that can arrive here is a read of that one
	// model member
	if theWorld != nil {
		if names, complete := modelMapOrigins(m, 0, map[ssa.Value]bool{}); complete && len(names) == 1 {
			for n := range names {
				return n
			}
		}
	}
	return mapDesc(m)
}

// modelMapOrigins: the members of model records (named as mapDesc names them: ".PacketsMap") a map-typed value is a read of,
// followed back through members of records that are not part of the model (every store into that member, anywhere in the repo),
// local cells, captured variables, phis and parameters (every static call site). complete = every path back ended at a model member.
func modelMapOrigins(v ssa.Value, depth int, seen map[ssa.Value]bool) (map[string]bool, bool) {
	out := map[string]bool{}
	if v == nil || depth > 8 {
		return out, false
	}
	v = stripIdentity(v)
	if seen[v] {
		return out, true // a cycle adds nothing new
	}
	seen[v] = true
	if _, isMap := v.Type().Underlying().(*types.Map); !isMap {
		return out, false
	}
	complete := true
	n := 0
	add := func(x ssa.Value) {
		n++
		m, c := modelMapOrigins(x, depth+1, seen)
		for k := range m {
			out[k] = true
		}
		if !c {
			complete = false
		}
	}
	cellStores := func(al *ssa.Alloc) {
		if al.Referrers() == nil {
			return
		}
		for _, ref := range *al.Referrers() {
			switch st := ref.(type) {
			case *ssa.Store:
				if st.Addr == ssa.Value(al) {
					add(st.Val)
				}
			case *ssa.UnOp, *ssa.MakeClosure, *ssa.DebugRef:
			default:
				complete = false // the cell's address escapes
			}
		}
	}
	memberStores := func(x ssa.Value) {
		tn, fname, pkg, ok := fieldOf(x)
		if !ok || tn == "" {
			complete = false
			return
		}
		if pkg == modPath+"/internal/model" {
			out["."+fname] = true
			n++
			return
		}
		for _, g := range theWorld.allFuncsInRepo() {
			forEachInstr(g, func(_ *ssa.BasicBlock, ins ssa.Instruction) {
				st, ok := ins.(*ssa.Store)
				if !ok {
					return
				}
				if fa, ok := st.Addr.(*ssa.FieldAddr); ok {
					if tn2, f2, pkg2, _ := fieldOf(fa); tn2 == tn && f2 == fname && pkg2 == pkg {
						add(st.Val)
					}
				}
			})
		}
	}
	binding := func(fv *ssa.FreeVar, each func(b ssa.Value)) {
		g := fv.Parent()
		if g == nil || g.Parent() == nil {
			complete = false
			return
		}
		for j, f2 := range g.FreeVars {
			if f2 != fv {
				continue
			}
			forEachInstr(g.Parent(), func(_ *ssa.BasicBlock, ins ssa.Instruction) {
				if mc, ok := ins.(*ssa.MakeClosure); ok && mc.Fn == ssa.Value(g) && j < len(mc.Bindings) {
					each(mc.Bindings[j])
				}
			})
		}
	}
	switch x := v.(type) {
	case *ssa.Phi:
		for _, e := range x.Edges {
			add(e)
		}
	case *ssa.Field:
		memberStores(x)
	case *ssa.UnOp:
		if x.Op != token.MUL {
			return out, false
		}
		switch c := x.X.(type) {
		case *ssa.FieldAddr:
			memberStores(c)
		case *ssa.Alloc:
			cellStores(c)
		case *ssa.FreeVar:
			binding(c, func(b ssa.Value) {
				if al, ok := b.(*ssa.Alloc); ok {
					cellStores(al)
				} else {
					complete = false
				}
			})
		default:
			return out, false
		}
	case *ssa.FreeVar:
		binding(x, add)
	case *ssa.Parameter:
		fn := x.Parent()
		for i, p := range fn.Params {
			if p != x {
				continue
			}
			for _, g := range theWorld.allFuncsInRepo() {
				forEachInstr(g, func(_ *ssa.BasicBlock, ins ssa.Instruction) {
					c, ok := ins.(ssa.CallInstruction)
					if !ok {
						return
					}
					if c.Common().StaticCallee() == fn && i < len(c.Common().Args) {
						add(c.Common().Args[i])
					} else if c.Common().StaticCallee() == nil && !c.Common().IsInvoke() {
						// entered as a function value: the arguments of that call are not followed
						for _, t := range calleesOfAll(c) {
							if t == fn {
								complete = false
							}
						}
					}
				})
			}
		}
	default:
		return out, false
	}
	if n == 0 {
		complete = false
	}
	return out, complete
}

// mayReport: g (or something it calls, three levels) raises a diagnostic on some path.
func (w *World) mayReport(g *ssa.Function, depth int, seen map[*ssa.Function]bool) bool {
	if g == nil || g.Blocks == nil || depth > 3 || seen[g] || !w.isSubjectFunc(g) {
		return false
	}
	seen[g] = true
	hit := false
	forEachInstr(g, func(_ *ssa.BasicBlock, i ssa.Instruction) {
		if hit {
			return
		}
		if isAddSyntaxError(i) {
			hit = true
			return
		}
		if c, ok := i.(ssa.CallInstruction); ok {
			if w.mayReport(calleeOf(c), depth+1, seen) {
				hit = true
			}
		}
	})
	return hit
}

// validatedLookups: (map, key path) pairs that parse-phase code resolves with a checked lookup whose miss edge reports a diagnostic.
func (w *World) validatedLookups() map[string]bool {
	out := map[string]bool{}
	for _, fn := range parsePhaseFuncs(w) {
		for _, t := range membershipTests(fn) {
			// the miss edge records a diagnostic, or returns the complaint that every caller records when it is not empty
			reports := edgeReachesDiag(t.branch, 1-t.presentSucc)
			if reports {
				for _, kp := range w.keyPathsOf(fn, t.lookup.Index) {
					out[normMapDesc(t.lookup.X)+"|"+kp] = true
				}
			}
		}
	}
	// a lookup in a helper that is handed the name: the names are those its call sites pass; the miss is reported in the helper or,
	// for a helper that returns (entry, found), at the call site
	phase := parsePhaseFuncs(w)
	for _, fn := range phase {
		forEachInstr(fn, func(_ *ssa.BasicBlock, ins ssa.Instruction) {
			lk, ok := ins.(*ssa.Lookup)
			if !ok || paramIndexOf(fn, lk.Index) < 0 {
				return
			}
			if _, isMap := lk.X.Type().Underlying().(*types.Map); !isMap {
				return
			}
			for _, kb := range lookupKeyBindings(lk, phase) {
				if kb.site == nil {
					continue
				}
				if _, checked := missDiagnosed(lk, kb); checked {
					out[normMapDesc(lk.X)+"|"+keyPath(kb.key)] = true
				}
			}
		})
	}
	return out
}

// linkNonNilByConstruction: every store into the link writes a value that cannot be nil and every composite literal of the owner sets it.
func (w *World) linkNonNilByConstruction(link string) string {
	parts := strings.SplitN(link, ".", 2)
	owner, field := parts[0], parts[1]
	stores := 0
	for _, fn := range w.srcFuncs {
		ok := true
		forEachInstr(fn, func(b *ssa.BasicBlock, ins ssa.Instruction) {
			switch x := ins.(type) {
			case *ssa.Store:
				fa, isFA := x.Addr.(*ssa.FieldAddr)
				if !isFA {
					return
				}
				tn, f, _, _ := fieldOf(fa)
				if tn != owner || f != field {
					return
				}
				stores++
				v := stripIdentity(x.Val)
				switch y := v.(type) {
				case *ssa.Alloc:
					return
				case *ssa.Extract:
					if lk, isLk := y.Tuple.(*ssa.Lookup); isLk && lk.CommaOk && y.Index == 0 {
						for _, t := range membershipTests(fn) {
							if t.lookup == lk && edgeDominates(t.branch, t.presentSucc, b) {
								return
							}
						}
					}
				}
				if guardedByNil(b, v, true) {
					return
				}
				// the entry a resolver helper found (it returns (entry, found) of its lookup), stored under the found edge
				if foundLookupValue(fn, v, b) != nil {
					return
				}
				ok = false
			case *ssa.Alloc:
				// composite literal of the owner type must set the field
				pt, isP := x.Type().(*types.Pointer)
				if !isP || modelTypeName(pt.Elem()) != owner {
					return
				}
				if _, isStruct := pt.Elem().Underlying().(*types.Struct); !isStruct {
					return
				}
				sets := false
				wholeCopy := false
				for _, ref := range *x.Referrers() {
					if fa, isFA := ref.(*ssa.FieldAddr); isFA {
						if _, f, _, _ := fieldOf(fa); f == field {
							for _, r2 := range *fa.Referrers() {
								if _, isSt := r2.(*ssa.Store); isSt {
									sets = true
								}
							}
						}
					}
					if st, isSt := ref.(*ssa.Store); isSt && st.Addr == ssa.Value(x) {
						wholeCopy = true // initialised from another value of the same type
					}
				}
				// a literal that only serves as a type witness (reflect.TypeOf(&T{})) never carries the link
				witness := len(*x.Referrers()) > 0
				for _, ref := range *x.Referrers() {
					mi, isMI := ref.(*ssa.MakeInterface)
					if !isMI {
						if _, isDbg := ref.(*ssa.DebugRef); isDbg {
							continue
						}
						witness = false
						continue
					}
					for _, r2 := range *mi.Referrers() {
						c, isC := r2.(ssa.CallInstruction)
						if !isC || c.Common().StaticCallee() == nil || c.Common().StaticCallee().String() != "reflect.TypeOf" {
							witness = false
						}
					}
				}
				if !sets && !wholeCopy && !witness {
					ok = false
				}
			}
		})
		if !ok {
			return ""
		}
	}
	if stores == 0 {
		return ""
	}
	return fmt.Sprintf("non-nil by construction: all %d stores write a fresh object or a found lookup result, every literal sets it", stores)
}

// presenceGuarded: the lookup (or its use) is dominated by the true edge of `m[k] != (T{})` on the same map and key description.
func presenceGuarded(fn *ssa.Function, lk *ssa.Lookup) bool {
	for _, b := range fn.Blocks {
		cond := branchCond(b)
		if cond == nil {
			continue
		}
		bo, ok := cond.(*ssa.BinOp)
		if !ok || (bo.Op != token.NEQ && bo.Op != token.EQL) {
			continue
		}
		var other *ssa.Lookup
		var zero ssa.Value
		if l, ok := bo.X.(*ssa.Lookup); ok {
			other, zero = l, bo.Y
		} else if l, ok := bo.Y.(*ssa.Lookup); ok {
			other, zero = l, bo.X
		}
		if other == nil {
			continue
		}
		if _, isStruct := other.Type().Underlying().(*types.Struct); !isStruct {
			continue
		}
		if !isZeroStruct(zero) {
			continue
		}
		if mapDesc(other.X) != mapDesc(lk.X) || keyDesc(other.Index) != keyDesc(lk.Index) {
			continue
		}
		succ := 0
		if bo.Op == token.EQL {
			succ = 1
		}
		if edgeDominates(b, succ, lk.Block()) {
			return true
		}
	}
	return false
}

func isZeroStruct(v ssa.Value) bool {
	switch x := v.(type) {
	case *ssa.Const:
		return x.Value == nil
	case *ssa.UnOp:
		// load of a fresh zero-initialised local (composite literal T{})
		if al, ok := x.X.(*ssa.Alloc); ok {
			for _, ref := range *al.Referrers() {
				if _, isStore := ref.(*ssa.Store); isStore {
					return false
				}
			}
			return true
		}
	}
	return false
}

func keyDesc(v ssa.Value) string {
	switch x := v.(type) {
	case *ssa.UnOp:
		if fa, ok := x.X.(*ssa.FieldAddr); ok {
			tn, f, _, _ := fieldOf(fa)
			return tn + "." + f
		}
	case *ssa.Field:
		tn, f, _, _ := fieldOf(x)
		return tn + "." + f
	case *ssa.Call:
		return calleeShort(x)
	case *ssa.Const:
		return x.Value.String()
	case *ssa.Extract:
		return "iter"
	case *ssa.Parameter:
		return "param " + x.Name()
	}
	return "expr"
}

func calleeShort(c *ssa.Call) string {
	if c.Call.IsInvoke() {
		return "." + c.Call.Method.Name() + "()"
	}
	if f := c.Call.StaticCallee(); f != nil {
		return f.Name() + "()"
	}
	return "call"
}

// lookupMisuse: how the (possibly nil) lookup result is misused, "" if fine.
func (w *World) lookupMisuse(lk *ssa.Lookup, derefs map[*ssa.Function]map[int]string, validated map[string]string) string {
	var visit func(v ssa.Value, depth int) string
	visit = func(v ssa.Value, depth int) string {
		if depth > 4 || v.Referrers() == nil {
			return ""
		}
		for _, ref := range *v.Referrers() {
			switch x := ref.(type) {
			case *ssa.Field:
				// struct value: extracting a pointer-ish component keeps the "may be zero" property
				if pointerish(x.Type()) {
					if s := visit(x, depth+1); s != "" {
						return s
					}
				}
			case *ssa.Store:
				if x.Val != v {
					continue
				}
				if fa, ok := x.Addr.(*ssa.FieldAddr); ok {
					tn, fname, _, _ := fieldOf(fa)
					l := tn + "." + fname
					if linkFields[l] {
						if vv, ok := validated[l]; ok && (vv != "" || validatedPartial[l] != "") {
							continue // the link obligation (C11/L-link) carries any gap of the validator
						}
						return "it is stored into link " + l + " for which no diagnostic validates presence"
					}
					if tn == "MetaData" && fname == "Attr" || tn == "Field" && fname == "Attr" {
						return "it becomes " + l + " (nil attribute), which later code calls methods on"
					}
				}
			case *ssa.MakeInterface, *ssa.ChangeInterface, *ssa.ChangeType:
				if s := visit(x.(ssa.Value), depth+1); s != "" {
					return s
				}
			case *ssa.Phi:
				if s := visit(x, depth+1); s != "" {
					return s
				}
			}
		}
		if why := derefUse(w, v, derefs, 0); why != "" {
			return "the code " + why
		}
		return ""
	}
	return visit(lk, 0)
}

// underLenAttrTest: block dominated by the ok edge of a checked assertion of some field's LenAttr to *LengthFieldAttribute.
// kindGuardedAtParseCallers: base is the attribute obtained by asserting P.Attr to one attribute type T, P being a (receiver)
// parameter of fn; every call site of fn in the parse phase passes a field that a dominating checked assertion (or type-switch case)
// has shown to be of another kind.
func (w *World) kindGuardedAtParseCallers(fn *ssa.Function, base ssa.Value, parsePhase map[*ssa.Function]bool) bool {
	// base: extract #0 of typeassert,ok X.(T) / typeassert X.(T) with X = load of (&P.Attr)
	v := stripIdentity(base)
	var ta *ssa.TypeAssert
	switch x := v.(type) {
	case *ssa.Extract:
		ta, _ = x.Tuple.(*ssa.TypeAssert)
	case *ssa.TypeAssert:
		ta = x
	}
	if ta == nil {
		return false
	}
	k, known := kindTypes[modelTypeName(ta.AssertedType)]
	if !known {
		return false
	}
	var prm *ssa.Parameter
	switch x := ta.X.(type) {
	case *ssa.Field:
		prm, _ = x.X.(*ssa.Parameter)
	case *ssa.UnOp:
		if fa, ok := x.X.(*ssa.FieldAddr); ok {
			switch b := fa.X.(type) {
			case *ssa.Parameter:
				prm = b
			case *ssa.Alloc: // spilled value receiver
				for _, p := range fn.Params {
					if p.Name() == b.Comment {
						prm = p
					}
				}
			}
		}
	}
	if prm == nil {
		return false
	}
	idx := -1
	for i, q := range fn.Params {
		if q == prm {
			idx = i
		}
	}
	n := w.CallGraph().Nodes[fn]
	if idx < 0 || n == nil {
		return false
	}
	sites := 0
	for _, e := range n.In {
		caller := e.Caller.Func
		if caller.Synthetic != "" {
			// pointer-receiver wrapper of a value method: look through it
			continue
		}
		if !parsePhase[caller] {
			continue // generator side: validated models only
		}
		if e.Site != nil && e.Site.Common().IsInvoke() && !w.everBoxed(prm.Type(), e.Site.Common().Method.Name()) {
			continue // class-hierarchy edge from an interface call: a value of this type is never put into an interface
		}
		sites++
		if e.Site == nil || e.Site.Common().IsInvoke() || idx >= len(e.Site.Common().Args) {
			return false
		}
		arg := stripIdentity(e.Site.Common().Args[idx])
		if ld, ok := arg.(*ssa.UnOp); ok && ld.Op == token.MUL {
			arg = stripIdentity(ld.X) // value receiver: *f
		}
		guarded := false
		for _, bb := range caller.Blocks {
			cond := branchCond(bb)
			if cond == nil {
				continue
			}
			tf, refine := fieldTest(cond)
			if tf == nil || canonField(tf) != canonField(arg) {
				continue
			}
			for succ := 0; succ < 2; succ++ {
				st := refine(stTop, succ == 0)
				if st.K&(1<<k) == 0 && edgeDominates(bb, succ, e.Site.Block()) {
					guarded = true
				}
			}
		}
		if !guarded {
			// the caller is itself handed the field: the test stands where the caller is entered from (its own callers, or the
			// wrapper closure that alone calls it), followed through the function values the caller is used as
			if m := paramIndex(caller, arg); m >= 0 && w.kindExcludedAtEveryCall(caller, m, k) {
				guarded = true
			}
		}
		if !guarded {
			if os.Getenv("FINLINT_DEBUG") != "" {
				fmt.Println("DBG kind-guard fails at", fnKey(caller), w.instrPos(e.Site))
			}
			return false
		}
	}
	return true
}

// everBoxed: some repo function converts a value of type t (or *t) to an interface.
func (w *World) everBoxed(t types.Type, method string) bool {
	if w.boxed == nil {
		w.boxed = map[string]bool{}
		for _, fn := range w.allFuncsInRepo() {
			forEachInstr(fn, func(_ *ssa.BasicBlock, ins ssa.Instruction) {
				if mi, ok := ins.(*ssa.MakeInterface); ok {
					if it, ok := mi.Type().Underlying().(*types.Interface); ok {
						for i := 0; i < it.NumMethods(); i++ {
							w.boxed[mi.X.Type().String()+"|"+it.Method(i).Name()] = true
						}
					}
				}
			})
		}
	}
	s := t.String()
	return w.boxed[s+"|"+method] || w.boxed["*"+s+"|"+method] || w.boxed[strings.TrimPrefix(s, "*")+"|"+method]
}

// underLenAttrTestIP: the block is under the LenAttr test, or every call site of its function in the program text is.
func (w *World) underLenAttrTestIP(blk *ssa.BasicBlock, depth int) bool {
	if underLenAttrTest(blk) {
		return true
	}
	if depth > 3 {
		return false
	}
	n := w.CallGraph().Nodes[blk.Parent()]
	if n == nil {
		return false
	}
	real := 0
	for _, e := range n.In {
		if e.Caller.Func.Synthetic != "" {
			continue
		}
		real++
		if e.Site == nil || e.Site.Common().IsInvoke() || !w.underLenAttrTestIP(e.Site.Block(), depth+1) {
			return false
		}
	}
	return real > 0
}

func underLenAttrTest(blk *ssa.BasicBlock) bool {
	fn := blk.Parent()
	for _, b := range fn.Blocks {
		iff, ok := b.Instrs[len(b.Instrs)-1].(*ssa.If)
		if !ok {
			continue
		}
		ex, ok := iff.Cond.(*ssa.Extract)
		if !ok || ex.Index != 1 {
			continue
		}
		ta, ok := ex.Tuple.(*ssa.TypeAssert)
		if !ok {
			continue
		}
		ld, ok := ta.X.(*ssa.UnOp)
		if !ok {
			continue
		}
		fa, ok := ld.X.(*ssa.FieldAddr)
		if !ok {
			continue
		}
		if _, f, _, _ := fieldOf(fa); f == "LenAttr" && edgeDominates(b, 0, blk) {
			return true
		}
	}
	return false
}

// c11RuleI: constant-bound slicing/indexing of a string or slice whose length the program text does not establish.
// A value v[:k], v[k:] (k > 0) or v[k] panics when len(v) < k (or <= k); the bound is established by a dominating length test
// on the same value, by the value's construction (literal, array, make with constant size, append of k elements, strings.Split has >= 1),
// or by a grammar fact (os.Args has >= 1 element).
func c11RuleI(w *World, r *Report, subjects []*ssa.Function) {
	const rule = "C11/I-constant-index"
	for _, fn := range subjects {
		counts := map[string]int{}
		forEachInstr(fn, func(b *ssa.BasicBlock, ins ssa.Instruction) {
			var base ssa.Value
			var need int64 // minimal length required
			what := ""
			constOf := func(v ssa.Value) (int64, bool) {
				c, ok := v.(*ssa.Const)
				if !ok || c.Value == nil || c.Value.Kind() != constant.Int {
					return 0, false
				}
				return c.Int64(), true
			}
			switch x := ins.(type) {
			case *ssa.Slice:
				if _, isPtrArr := x.X.Type().Underlying().(*types.Pointer); isPtrArr {
					return // slicing an array: bounds are static
				}
				if x.High != nil {
					if k, ok := constOf(x.High); ok && k > need {
						need = k
					}
				}
				if x.Low != nil {
					if k, ok := constOf(x.Low); ok && k > need {
						need = k
					}
				}
				base, what = x.X, "slice"
			case *ssa.Index:
				if _, isArr := x.X.Type().Underlying().(*types.Array); isArr {
					return
				}
				if k, ok := constOf(x.Index); ok {
					need, base, what = k+1, x.X, "index"
				}
			case *ssa.IndexAddr:
				if pt, ok := x.X.Type().Underlying().(*types.Pointer); ok {
					if _, isArr := pt.Elem().Underlying().(*types.Array); isArr {
						return
					}
				}
				if k, ok := constOf(x.Index); ok {
					need, base, what = k+1, x.X, "index"
				}
			case *ssa.Lookup:
				// string indexing s[k]
				if isStringType(x.X.Type()) {
					if k, ok := constOf(x.Index); ok {
						need, base, what = k+1, x.X, "index"
					}
				}
			}
			if base == nil || need <= 0 {
				return
			}
			kb := fmt.Sprintf("%s %s of %s needs len >= %d", fnKey(fn), what, operandShort(base), need)
			counts[kb]++
			key := kb
			if counts[kb] > 1 {
				key = fmt.Sprintf("%s#%d", kb, counts[kb])
			}
			if why := lengthEstablished(b, base, need); why != "" {
				r.pass(rule, key, w.instrPos(ins), why)
			} else if why := w.grammarLength(base, need); why != "" {
				r.pass(rule, key, w.instrPos(ins), why)
			} else {
				r.fail(rule, key, w.instrPos(ins), fmt.Sprintf("constant-bound %s of a value whose length is not established (needs at least %d): an empty or short value panics with a bounds error instead of producing a diagnostic", what, need))
			}
		})
	}
}

func operandShort(v ssa.Value) string {
	switch x := stripIdentity(v).(type) {
	case *ssa.Call:
		return "call:" + calleeName(x)
	case *ssa.Parameter:
		return "param:" + x.Name()
	case *ssa.UnOp:
		if g, ok := x.X.(*ssa.Global); ok {
			return g.Name()
		}
		if fa, ok := x.X.(*ssa.FieldAddr); ok {
			_, f, _, _ := fieldOf(fa)
			return "." + f
		}
	}
	return v.Type().String()
}

// sameLoad: the same value, or two loads of the same global / of the same field of the same object.
func sameLoad(a, b ssa.Value) bool {
	a, b = stripIdentity(a), stripIdentity(b)
	if a == b {
		return true
	}
	ua, ok1 := a.(*ssa.UnOp)
	ub, ok2 := b.(*ssa.UnOp)
	if !ok1 || !ok2 || ua.Op != token.MUL || ub.Op != token.MUL {
		return false
	}
	if ga, ok := ua.X.(*ssa.Global); ok {
		gb, ok := ub.X.(*ssa.Global)
		return ok && ga == gb
	}
	fa, ok1 := ua.X.(*ssa.FieldAddr)
	fb, ok2 := ub.X.(*ssa.FieldAddr)
	return ok1 && ok2 && fa.Field == fb.Field && sameLoad(fa.X, fb.X)
}

// grammarLength: a minimal length that follows from the grammar: a list built from a `child+` repetition, or the text of a token
// whose lexer rule starts with a literal.
func (w *World) grammarLength(base ssa.Value, need int64) string {
	base = stripIdentity(base)
	ctxs := w.ctxTable()
	// MatchFieldAttribute.MatchPairs: one or more pairs per matchPair child, and matchPair+ in the grammar
	if ld, ok := base.(*ssa.UnOp); ok && ld.Op == token.MUL {
		if fa, ok := ld.X.(*ssa.FieldAddr); ok {
			if tn, f, _, _ := fieldOf(fa); tn == "MatchFieldAttribute" && f == "MatchPairs" && need <= 1 {
				if ci := ctxs["MatchFieldDeclarationContext"]; ci != nil && ci.Children["matchPair"].Min >= 1 {
					return "the grammar requires matchPair+ and every matchPair contributes a pair (C05/pair-expansion); generators run on diagnostic-free models only (C12/gate)"
				}
			}
		}
	}
	// text of a delimited token
	if c, ok := base.(*ssa.Call); ok {
		name := ""
		var recv ssa.Value
		if c.Call.IsInvoke() {
			name, recv = c.Call.Method.Name(), c.Call.Value
		}
		if name == "GetText" && recv != nil {
			if rc, ok := stripIdentity(recv).(*ssa.Call); ok {
				if _, ai, ok := w.accessorOf(rc, ctxs); ok && ai.Known {
					tok := strings.TrimSuffix(strings.TrimSuffix(ai.What, "*"), "=")
					if lr := w.G4.lrule[tok]; lr != nil {
						raw := strings.TrimSpace(lr.Raw)
						if strings.HasPrefix(raw, "'") {
							if end := strings.Index(raw[1:], "'"); end > 0 && int64(end) >= need {
								return "the lexer rule of " + tok + " starts with a literal: the token text is never shorter"
							}
						}
					}
				}
			}
		}
	}
	return ""
}

// lengthEstablished: why len(base) >= need holds at block b ("" if it cannot be shown).
func lengthEstablished(b *ssa.BasicBlock, base ssa.Value, need int64) string {
	base = stripIdentity(base)
	// construction
	switch x := base.(type) {
	case *ssa.Const:
		if s, ok := constString(x); ok && int64(len(s)) >= need {
			return "constant"
		}
	case *ssa.Slice:
		if pt, ok := x.X.Type().Underlying().(*types.Pointer); ok {
			if arr, ok := pt.Elem().Underlying().(*types.Array); ok && x.High == nil && x.Low == nil && arr.Len() >= need {
				return "slice of a fixed-size array"
			}
		}
	case *ssa.UnOp:
		if g, ok := x.X.(*ssa.Global); ok && g.Name() == "Args" && g.Pkg != nil && g.Pkg.Pkg.Path() == "os" && need <= 1 {
			return "os.Args always holds the program name"
		}
	case *ssa.Call:
		if f := x.Call.StaticCallee(); f != nil {
			switch f.String() {
			case "strings.Split", "strings.SplitN":
				if need <= 1 {
					return "strings.Split returns at least one element"
				}
			}
		}
	}
	// a dominating length test on the same value
	fn := b.Parent()
	for _, bb := range fn.Blocks {
		cond := branchCond(bb)
		if cond == nil {
			continue
		}
		neg := false
		c := cond
		for {
			if u, ok := c.(*ssa.UnOp); ok && u.Op == token.NOT {
				neg = !neg
				c = u.X
				continue
			}
			break
		}
		bo, ok := c.(*ssa.BinOp)
		if !ok {
			continue
		}
		lenOf := func(v ssa.Value) ssa.Value {
			call, ok := v.(*ssa.Call)
			if !ok {
				return nil
			}
			if bi, ok := call.Call.Value.(*ssa.Builtin); ok && bi.Name() == "len" {
				return call.Call.Args[0]
			}
			return nil
		}
		var k int64
		var okK bool
		op := bo.Op
		var subject ssa.Value
		if s := lenOf(bo.X); s != nil {
			subject = s
			if cst, ok := bo.Y.(*ssa.Const); ok && cst.Value != nil && cst.Value.Kind() == constant.Int {
				k, okK = cst.Int64(), true
			}
		} else if s := lenOf(bo.Y); s != nil {
			subject = s
			if cst, ok := bo.X.(*ssa.Const); ok && cst.Value != nil && cst.Value.Kind() == constant.Int {
				k, okK = cst.Int64(), true
			}
			// mirror the operator
			switch op {
			case token.LSS:
				op = token.GTR
			case token.GTR:
				op = token.LSS
			case token.LEQ:
				op = token.GEQ
			case token.GEQ:
				op = token.LEQ
			}
		}
		if subject == nil {
			// s != "" / s == "": one character at least on the non-empty edge
			if (bo.Op == token.NEQ || bo.Op == token.EQL) && need <= 1 {
				var other, str ssa.Value
				if e, ok := constString(bo.X); ok && e == "" {
					other, str = bo.X, bo.Y
				} else if e, ok := constString(bo.Y); ok && e == "" {
					other, str = bo.Y, bo.X
				}
				if other != nil && sameLoad(str, base) {
					nonEmptyOnTrue := bo.Op == token.NEQ
					if neg {
						nonEmptyOnTrue = !nonEmptyOnTrue
					}
					succ := 1
					if nonEmptyOnTrue {
						succ = 0
					}
					if edgeDominates(bb, succ, b) {
						return "dominated by a non-empty test"
					}
				}
			}
			continue
		}
		if !okK || !sameLoad(subject, base) {
			continue
		}
		// on which edge is len >= need known?
		trueMin, falseMin := int64(-1), int64(-1) // minimal length known on the true / false edge
		switch op {
		case token.GTR:
			trueMin = k + 1
		case token.GEQ:
			trueMin = k
		case token.LSS:
			falseMin = k
		case token.LEQ:
			falseMin = k + 1
		case token.EQL:
			trueMin = k
			if k == 0 {
				falseMin = 1
			}
		case token.NEQ:
			falseMin = k
			if k == 0 {
				trueMin = 1
			}
		}
		if neg {
			trueMin, falseMin = falseMin, trueMin
		}
		if trueMin >= need && edgeDominates(bb, 0, b) {
			return "dominated by a length test"
		}
		if falseMin >= need && edgeDominates(bb, 1, b) {
			return "dominated by a length test"
		}
	}
	return ""
}

// coInserted: the lookup m[e.Name] cannot miss because m and the list e was taken from are members of one record that are only
// extended together: every store that appends an element v to the list is accompanied, in the same block, by m[v.Name] = ...
func (w *World) coInserted(lk *ssa.Lookup) bool {
	// the map: a member of a record
	mld, ok := stripIdentity(lk.X).(*ssa.UnOp)
	if !ok || mld.Op != token.MUL {
		return false
	}
	mfa, ok := mld.X.(*ssa.FieldAddr)
	if !ok {
		return false
	}
	recT, mName, _, _ := fieldOf(mfa)
	recType := mfa.X.Type()
	// the key: <elem>.Name with elem an element of a slice member of the same record type
	kld, ok := stripIdentity(lk.Index).(*ssa.UnOp)
	if !ok || kld.Op != token.MUL {
		return false
	}
	kfa, ok := kld.X.(*ssa.FieldAddr)
	if !ok {
		return false
	}
	if _, kn, _, _ := fieldOf(kfa); kn != "Name" {
		return false
	}
	elem := stripIdentity(kfa.X)
	sName, ok := w.elemOfRecordSlice(elem, recType, 0)
	if !ok {
		return false
	}
	_ = recT
	// every append to <record>.sName comes with <record>.mName[v.Name] = ...
	appends, paired := 0, 0
	for _, fn := range w.srcFuncs {
		forEachInstr(fn, func(b *ssa.BasicBlock, ins ssa.Instruction) {
			st, ok := ins.(*ssa.Store)
			if !ok {
				return
			}
			fa, ok := st.Addr.(*ssa.FieldAddr)
			if !ok || !types.Identical(fa.X.Type(), recType) {
				return
			}
			if _, n, _, _ := fieldOf(fa); n != sName {
				return
			}
			call, ok := stripIdentity(st.Val).(*ssa.Call)
			if !ok {
				if _, isConst := st.Val.(*ssa.Const); isConst {
					return // reset to nil / empty
				}
				appends++ // some other assignment: not understood
				return
			}
			bi, ok := call.Call.Value.(*ssa.Builtin)
			if !ok || bi.Name() != "append" || len(call.Call.Args) != 2 {
				appends++
				return
			}
			appends++
			vals := variadicOperands(call.Call.Args[1])
			if len(vals) != 1 || vals[0] == nil {
				return
			}
			v := stripIdentity(vals[0])
			for _, i2 := range b.Instrs {
				mu, ok := i2.(*ssa.MapUpdate)
				if !ok {
					continue
				}
				l2, ok := stripIdentity(mu.Map).(*ssa.UnOp)
				if !ok || l2.Op != token.MUL {
					continue
				}
				f2, ok := l2.X.(*ssa.FieldAddr)
				if !ok || !types.Identical(f2.X.Type(), recType) {
					continue
				}
				if _, n2, _, _ := fieldOf(f2); n2 != mName {
					continue
				}
				k2, ok := stripIdentity(mu.Key).(*ssa.UnOp)
				if !ok || k2.Op != token.MUL {
					continue
				}
				kf2, ok := k2.X.(*ssa.FieldAddr)
				if !ok {
					continue
				}
				if _, kn2, _, _ := fieldOf(kf2); kn2 == "Name" && stripIdentity(kf2.X) == v {
					paired++
					return
				}
			}
		})
	}
	return appends > 0 && appends == paired
}

// elemOfRecordSlice: v is an element of the slice member <name> of a record of type recType (directly, or - for a parameter - at
// every call site).
func (w *World) elemOfRecordSlice(v ssa.Value, recType types.Type, depth int) (string, bool) {
	v = stripIdentity(v)
	if p, isParam := v.(*ssa.Parameter); isParam && depth < 3 {
		fn := p.Parent()
		idx := -1
		for i, q := range fn.Params {
			if q == p {
				idx = i
			}
		}
		name, n := "", 0
		good := true
		for _, g := range w.srcFuncs {
			forEachInstr(g, func(_ *ssa.BasicBlock, ins ssa.Instruction) {
				c, ok := ins.(ssa.CallInstruction)
				if !ok || c.Common().StaticCallee() != fn || idx < 0 || idx >= len(c.Common().Args) {
					return
				}
				n++
				s, ok := w.elemOfRecordSlice(c.Common().Args[idx], recType, depth+1)
				if !ok || (name != "" && s != name) {
					good = false
					return
				}
				name = s
			})
		}
		return name, good && n > 0
	}
	eld, ok := v.(*ssa.UnOp)
	if !ok || eld.Op != token.MUL {
		return "", false
	}
	ia, ok := eld.X.(*ssa.IndexAddr)
	if !ok {
		return "", false
	}
	sld, ok := stripIdentity(ia.X).(*ssa.UnOp)
	if !ok || sld.Op != token.MUL {
		return "", false
	}
	sfa, ok := sld.X.(*ssa.FieldAddr)
	if !ok || !types.Identical(sfa.X.Type(), recType) {
		return "", false
	}
	_, sName, _, _ := fieldOf(sfa)
	return sName, true
}

// cellOf: the variable cell a value was loaded from - a local captured by reference (Alloc) or, inside a closure, the captured
// variable resolved to the enclosing function's cell.
func cellOf(v ssa.Value) *ssa.Alloc {
	ld, ok := stripIdentity(v).(*ssa.UnOp)
	if !ok || ld.Op != token.MUL {
		return nil
	}
	return cellOfAddr(ld.X)
}

// cellOfAddr: the same for the address itself.
func cellOfAddr(addr ssa.Value) *ssa.Alloc {
	switch x := addr.(type) {
	case *ssa.Alloc:
		return x
	case *ssa.FreeVar:
		g := x.Parent()
		if g == nil || g.Parent() == nil {
			return nil
		}
		idx := -1
		for j, fv := range g.FreeVars {
			if fv == x {
				idx = j
			}
		}
		var cell *ssa.Alloc
		forEachInstr(g.Parent(), func(_ *ssa.BasicBlock, ins ssa.Instruction) {
			if mc, ok := ins.(*ssa.MakeClosure); ok && mc.Fn == ssa.Value(g) && idx >= 0 && idx < len(mc.Bindings) {
				if al, ok := mc.Bindings[idx].(*ssa.Alloc); ok {
					cell = al
				}
			}
		})
		return cell
	}
	return nil
}

// elemOfInlineObjectList: v is an element (indexed load) of a local slice of packets, and every value appended to that slice in
// the function is the RefPacket of an object attribute on its IsIner edge.
func (w *World) elemOfInlineObjectList(v ssa.Value) bool {
	ld, ok := v.(*ssa.UnOp)
	if !ok || ld.Op != token.MUL {
		return false
	}
	ia, ok := ld.X.(*ssa.IndexAddr)
	if !ok {
		return false
	}
	sl, ok := ia.X.Type().Underlying().(*types.Slice)
	if !ok || modelTypeName(sl.Elem()) != "Packet" {
		return false
	}
	// the appends feeding the slice value
	var appends []*ssa.Call
	seen := map[ssa.Value]bool{}
	var walk func(x ssa.Value, depth int) bool
	walk = func(x ssa.Value, depth int) bool {
		x = stripIdentity(x)
		if depth > 8 || seen[x] {
			return true
		}
		seen[x] = true
		switch y := x.(type) {
		case *ssa.Const:
			return y.IsNil()
		case *ssa.MakeSlice:
			return true
		case *ssa.Slice:
			return walk(y.X, depth+1)
		case *ssa.Phi:
			for _, e := range y.Edges {
				if !walk(e, depth+1) {
					return false
				}
			}
			return true
		case *ssa.Call:
			if bi, ok := y.Call.Value.(*ssa.Builtin); ok && bi.Name() == "append" && len(y.Call.Args) == 2 {
				appends = append(appends, y)
				return walk(y.Call.Args[0], depth+1)
			}
		}
		return false
	}
	if !walk(ia.X, 0) || len(appends) == 0 {
		return false
	}
	for _, ap := range appends {
		for _, o := range variadicOperands(ap.Call.Args[1]) {
			o = stripIdentity(o)
			l2, ok := o.(*ssa.UnOp)
			if !ok || l2.Op != token.MUL {
				return false
			}
			fa, ok := l2.X.(*ssa.FieldAddr)
			if !ok {
				return false
			}
			if tn, fname, _, _ := fieldOf(fa); tn != "ObjectFieldAttribute" || fname != "RefPacket" {
				return false
			}
			// the store into the variadic slot happens in the block of the IsIner edge
			if !w.underIsIner(l2.Block(), fa.X) {
				return false
			}
		}
	}
	return true
}

// altContextsOf: ctxName is the context (interface) of a parser rule whose alternatives are all labelled: the context types of
// the alternatives (the dynamic types a node of that rule can have).
func (w *World) altContextsOf(ctxName string) []string {
	var rule string
	for _, ci := range w.G4.Contexts() {
		if ci.CtxType == ctxName && ci.AltLabel == "" {
			rule = ci.Rule
		}
	}
	if rule == "" {
		// the base context of a rule with labelled alternatives is not a node type of its own
		name := strings.TrimSuffix(ctxName, "Context")
		for _, pr := range w.G4.PRules {
			if title(pr.Name) == name {
				rule = pr.Name
			}
		}
	}
	if rule == "" {
		return nil
	}
	var out []string
	for _, ci := range w.G4.Contexts() {
		if ci.Rule == rule && ci.AltLabel != "" {
			out = append(out, ci.CtxType)
		}
	}
	sort.Strings(out)
	return out
}
