package main

import (
	"fmt"
	"sort"
	"strings"

	"golang.org/x/tools/go/ssa"
)

// */entry-points-keep-no-state: what an entry point delivers is a function of its input. The repository's entry points (the cobra
// Run functions and everything they reach: Compile, the writer, ParseFile, FormatPacketDsl; the exported C function) run once per
// process in the command line tool, but more than once in a process that loads the shared library, and - for the writer and the
// generators - once per requested target inside one compile. A store into a package-level variable (or an update of a package-level
// map) on such a path is state carried from one call to the next: a memo of the last result keyed by less than the whole input, a
// "directories already made" set keyed by a path relative to an output directory that differs per target, a type table rewritten for
// the byte order of the first compilation. The rule is a who-may-write rule over the call graph: no function of the repository's own
// packages reachable from the given roots writes package-level storage. Initialisers are not reachable from the roots and are not
// judged (flag registration and command tables live there). Generated parser code is excluded (its lazy static initialisation is
// input independent).
func entryPointsKeepNoState(w *World, r *Report, prop string, roots []*ssa.Function, what string, why string) {
	rule := prop + "/entry-points-keep-no-state"
	var rs []*ssa.Function
	for _, f := range roots {
		if f != nil {
			rs = append(rs, f)
		}
	}
	if len(rs) == 0 {
		r.fatal("anchor unresolved: no entry point for %s", rule)
		return
	}
	reach := w.subjectsOnly(w.reachable(rs, func(f *ssa.Function) bool { return w.isRepoLike(f) }))
	var fns []*ssa.Function
	for f := range reach {
		fns = append(fns, f)
	}
	sort.Slice(fns, func(i, j int) bool { return fnKey(fns[i]) < fnKey(fns[j]) })
	mparams := mutatedParams(w)
	nw := 0
	for _, fn := range fns {
		if fn.Name() == "init" || strings.HasPrefix(fn.Name(), "init#") {
			continue
		}
		var bad []frameFinding
		for _, f := range scanFrame(w, fn, mparams, &nw) {
			if f.rule == "C14/no-shared-state" || strings.Contains(f.what, "package-level") || strings.Contains(f.what, "reached through shared global") {
				bad = append(bad, f)
			}
		}
		// package-level state behind a library type: sync.Map, sync.Once, atomic values
		forEachInstr(fn, func(_ *ssa.BasicBlock, ins ssa.Instruction) {
			c, ok := ins.(ssa.CallInstruction)
			if !ok {
				return
			}
			cc := c.Common()
			f := cc.StaticCallee()
			if f == nil || len(cc.Args) == 0 {
				return
			}
			n := f.String()
			writes := false
			for _, m := range []string{"(*sync.Map).Store", "(*sync.Map).LoadOrStore", "(*sync.Map).Swap", "(*sync.Map).CompareAndSwap", "(*sync.Map).Delete", "(*sync.Map).LoadAndDelete", "(*sync.Map).Clear",
				"(*sync.Once).Do", "(*sync/atomic.Value).Store", "(*sync/atomic.Value).Swap", "(*sync/atomic.Value).CompareAndSwap", "(*sync/atomic.Pointer"} {
				if strings.HasPrefix(n, m) {
					writes = true
				}
			}
			if strings.HasPrefix(n, "(*sync/atomic.Pointer") && !(strings.HasSuffix(n, ".Store") || strings.HasSuffix(n, ".Swap") || strings.HasSuffix(n, ".CompareAndSwap")) {
				writes = false
			}
			if !writes {
				return
			}
			if cls, via := w.baseClass(cc.Args[0]); cls == "global" {
				bad = append(bad, frameFinding{rule: "C14/no-shared-state", what: fmt.Sprintf("%s on package-level variable %s", n, via), pos: w.instrPos(ins)})
			}
		})
		if len(bad) == 0 {
			r.pass(rule, fnKey(fn), w.pos(fn.Pos()), "")
			continue
		}
		seen := map[string]bool{}
		for _, f := range bad {
			if seen[f.what] {
				continue
			}
			seen[f.what] = true
			r.fail(rule, fmt.Sprintf("%s (%s): %s", fnKey(fn), what, f.what), f.pos, why)
		}
	}
	r.floor(rule, 10)
}

// cobraRunFuncs: the functions stored in Run / RunE members of cobra commands.
func cobraRunFuncs(w *World) []*ssa.Function {
	var out []*ssa.Function
	for _, f := range w.allFuncsInRepo() {
		if !w.isSubjectFunc(f) {
			continue
		}
		switch runFieldOf(w, f) {
		case "Run", "RunE":
			out = append(out, f)
		}
	}
	return out
}

func formatEntryRoots(w *World) []*ssa.Function {
	return []*ssa.Function{w.Parser.Func("FormatPacketDsl"), w.Cmd.Func("FormatPacketDslExport")}
}

func compileEntryRoots(w *World) []*ssa.Function {
	return []*ssa.Function{w.Cmd.Func("Compile"), w.Parser.Func("ParseFile")}
}

func allEntryRoots(w *World) []*ssa.Function {
	rs := append(formatEntryRoots(w), compileEntryRoots(w)...)
	return append(rs, cobraRunFuncs(w)...)
}
