package main

import (
	"fmt"
	"sort"
	"strings"

	"golang.org/x/tools/go/ssa"
)

// */entry-points-keep-no-state: what an entry point delivers is a function of its input. The repository's entry points (the cobra
// Run functions and everything they reach: Compile, the writer, ParseFile, FormatPacketDsl; the exported C function) run once per
// process in the command line tool, but more than once in a process that loads the shared library, and - for the writer and the
// generators - once per requested target inside one compile. A store into a package-level variable (or an update of a package-level
// map) on such a path is state carried from one call to the next: a memo of the last result keyed by less than the whole input, a
// "directories already made" set keyed by a path relative to an output directory that differs per target, a type table rewritten for
// the byte order of the first compilation. The rule is a who-may-write rule over the call graph: no function of the repository's own
// packages reachable from the given roots writes package-level storage. Initialisers are not reachable from the roots and are not
// judged (flag registration and command tables live there). Generated parser code is excluded (its lazy static initialisation is
// input independent).
func entryPointsKeepNoState(w *World, r *Report, prop string, roots []*ssa.Function, what string, why string) {
	rule := prop + "/entry-points-keep-no-state"
	var rs []*ssa.Function
	for _, f := range roots {
		if f != nil {
			rs = append(rs, f)
		}
	}
	if len(rs) == 0 {
		r.fatal("anchor unresolved: no entry point for %s", rule)
		return
	}
	reach := w.subjectsOnly(w.reachable(rs, func(f *ssa.Function) bool { return w.isRepoLike(f) }))
	var fns []*ssa.Function
	for f := range reach {
		fns = append(fns, f)
	}
	sort.Slice(fns, func(i, j int) bool { return fnKey(fns[i]) < fnKey(fns[j]) })
	mparams := mutatedParams(w)
	nw := 0
	for _, fn := range fns {
		if fn.Name() == "init" || strings.HasPrefix(fn.Name(), "init#") {
			continue
		}
		var bad []frameFinding
		// a write that does not depend on what the routine was given (a table built once from constants: `once.Do(func() { index =
		// build() })`) is initialisation, not state carried from one input to the next
		inputFree := inputIndependentWrites(fn)
		for _, f := range scanFrame(w, fn, mparams, &nw) {
			if f.rule == "C14/no-shared-state" || strings.Contains(f.what, "package-level") || strings.Contains(f.what, "reached through shared global") {
				if inputFree[f.pos] {
					continue
				}
				bad = append(bad, f)
			}
		}
		// package-level state behind a library type: sync.Map, sync.Once, atomic values
		forEachInstr(fn, func(_ *ssa.BasicBlock, ins ssa.Instruction) {
			c, ok := ins.(ssa.CallInstruction)
			if !ok {
				return
			}
			cc := c.Common()
			f := cc.StaticCallee()
			if f == nil || len(cc.Args) == 0 {
				return
			}
			n := f.String()
			writes := false
			for _, m := range []string{"(*sync.Map).Store", "(*sync.Map).LoadOrStore", "(*sync.Map).Swap", "(*sync.Map).CompareAndSwap", "(*sync.Map).Delete", "(*sync.Map).LoadAndDelete", "(*sync.Map).Clear",
				"(*sync.Once).Do", "(*sync/atomic.Value).Store", "(*sync/atomic.Value).Swap", "(*sync/atomic.Value).CompareAndSwap", "(*sync/atomic.Pointer"} {
				if strings.HasPrefix(n, m) {
					writes = true
				}
			}
			if strings.HasPrefix(n, "(*sync/atomic.Pointer") && !(strings.HasSuffix(n, ".Store") || strings.HasSuffix(n, ".Swap") || strings.HasSuffix(n, ".CompareAndSwap")) {
				writes = false
			}
			if !writes {
				return
			}
			if strings.HasPrefix(n, "(*sync.Once).Do") && len(cc.Args) == 2 {
				// once-only initialisation by a function that captures nothing of this call: input independent
				switch a := cc.Args[1].(type) {
				case *ssa.Function:
					return
				case *ssa.MakeClosure:
					if len(a.Bindings) == 0 {
						return
					}
					free := true
					for _, bnd := range a.Bindings {
						if _, isGlobal := valueRoot(bnd).(*ssa.Global); !isGlobal {
							free = false
						}
					}
					if free {
						return
					}
				}
			}
			if cls, via := w.baseClass(cc.Args[0]); cls == "global" {
				bad = append(bad, frameFinding{rule: "C14/no-shared-state", what: fmt.Sprintf("%s on package-level variable %s", n, via), pos: w.instrPos(ins)})
			}
		})
		if len(bad) == 0 {
			r.pass(rule, fnKey(fn), w.pos(fn.Pos()), "")
			continue
		}
		seen := map[string]bool{}
		for _, f := range bad {
			if seen[f.what] {
				continue
			}
			seen[f.what] = true
			r.fail(rule, fmt.Sprintf("%s (%s): %s", fnKey(fn), what, f.what), f.pos, why)
		}
	}
	r.floor(rule, 10)
}

// cobraRunFuncs: the functions stored in Run / RunE members of cobra commands.
func cobraRunFuncs(w *World) []*ssa.Function {
	var out []*ssa.Function
	for _, f := range w.allFuncsInRepo() {
		if !w.isSubjectFunc(f) {
			continue
		}
		switch runFieldOf(w, f) {
		case "Run", "RunE":
			out = append(out, f)
		}
	}
	return out
}

func formatEntryRoots(w *World) []*ssa.Function {
	return []*ssa.Function{w.Parser.Func("FormatPacketDsl"), w.Cmd.Func("FormatPacketDslExport")}
}

func compileEntryRoots(w *World) []*ssa.Function {
	return []*ssa.Function{w.Cmd.Func("Compile"), w.Parser.Func("ParseFile")}
}

func allEntryRoots(w *World) []*ssa.Function {
	rs := append(formatEntryRoots(w), compileEntryRoots(w)...)
	return append(rs, cobraRunFuncs(w)...)
}

// inputIndependentWrites: positions of the stores / map updates of fn whose address index, key and value derive from no parameter,
// receiver or captured variable of fn and that no branch on such a value dominates.
func inputIndependentWrites(fn *ssa.Function) map[string]bool {
	out := map[string]bool{}
	if theWorld == nil {
		return out
	}
	memo := map[ssa.Value]bool{}
	var dep func(v ssa.Value, depth int) bool
	dep = func(v ssa.Value, depth int) bool {
		if v == nil {
			return false
		}
		if d, ok := memo[v]; ok {
			return d
		}
		if depth > 40 {
			return true
		}
		memo[v] = false
		res := false
		switch x := v.(type) {
		case *ssa.Parameter, *ssa.FreeVar:
			res = true
		case *ssa.Const, *ssa.Global, *ssa.Function, *ssa.Builtin:
			res = false
		case ssa.Instruction:
			for _, op := range x.Operands(nil) {
				if op != nil && *op != nil && dep(*op, depth+1) {
					res = true
					break
				}
			}
			// a local variable: what is stored into it
			if al, ok := v.(*ssa.Alloc); ok && !res && al.Referrers() != nil {
				for _, ref := range *al.Referrers() {
					if st, ok := ref.(*ssa.Store); ok && st.Addr == ssa.Value(al) && dep(st.Val, depth+1) {
						res = true
					}
				}
			}
		default:
			res = true
		}
		memo[v] = res
		return res
	}
	ctrl := func(b *ssa.BasicBlock) bool {
		for _, d := range fn.Blocks {
			if d == b || !d.Dominates(b) {
				continue
			}
			if c := branchCond(d); c != nil && dep(c, 0) {
				return true
			}
		}
		return false
	}
	forEachInstr(fn, func(b *ssa.BasicBlock, ins ssa.Instruction) {
		switch x := ins.(type) {
		case *ssa.Store:
			if !dep(x.Val, 0) && !dep(x.Addr, 0) && !ctrl(b) {
				out[theWorld.instrPos(ins)] = true
			}
		case *ssa.MapUpdate:
			if !dep(x.Key, 0) && !dep(x.Value, 0) && !dep(x.Map, 0) && !ctrl(b) {
				out[theWorld.instrPos(ins)] = true
			}
		}
	})
	return out
}
